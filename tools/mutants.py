#!/venv/bin/python
"""Hand-written single-site mutants (from DESIGN §3 'Mutants' lists) for a fast detection
sanity sweep:  tools/mutants.py [C04 C05 ...]   (no argument = all).
Each mutant is applied in a scratch worktree outside /repo and /verif, the property's quick
check is run with VERIF_REPO, the worktree is reset.  Prints one line per mutant.
(The independent, sub-agent written changes live in /verif/seeded/.)"""
import os
import shutil
import subprocess
import sys
import tempfile

V = os.path.dirname(os.path.dirname(os.path.abspath(__file__)))

M = [
 # pid, name, file, old, new
 ("C04", "exit-skips-back-transform-of-objects-created-inside", "quantarhei/core/managers.py",
  "            if not op.is_basis_protected:\n                op.transform(S1,inv=SS) ",
  "            if (not op.is_basis_protected) and (nb == 0 or op in self.manager.basis_registered[nb]):\n                op.transform(S1,inv=SS) "),
 ("C04", "scroll-back-one-level-short", "quantarhei/core/managers.py",
  "                for k in range(1,sl):", "                for k in range(1,max(sl-1,2)):"),
 ("C04", "dipole-transform-SS-both-sides", "quantarhei/qm/hilbertspace/dmoment.py",
  "self._data[:,:,i] = numpy.dot(S1,numpy.dot(self._data[:,:,i],SS))",
  "self._data[:,:,i] = numpy.dot(SS.T,numpy.dot(self._data[:,:,i],SS.T))"),
 ("C04", "evolution-transform-skips-index-0", "quantarhei/qm/propagators/dmevolution.py",
  "        for ii in range(self.TimeAxis.length):\n            self._data[ii,:,:] = numpy.dot(S1,",
  "        for ii in range(1,self.TimeAxis.length):\n            self._data[ii,:,:] = numpy.dot(S1,"),
 ("C04", "flag-cleared-on-every-exit", "quantarhei/core/managers.py",
  "        if len(self.manager.basis_stack) == 1:\n            self.manager._in_eigenbasis_of_context = False",
  "        self.manager._in_eigenbasis_of_context = False"),
 ("C04", "redfield-operator-transform-skips-Ld", "quantarhei/qm/liouvillespace/redfieldtensor.py",
  "                self._Ld[m,:,:] = numpy.dot(S1,numpy.dot(self._Ld[m,:,:], SS))\n", ""),
 ("C05", "exit-restores-only-outermost", "quantarhei/core/managers.py",
  "        self.manager.set_current_units(\"energy\",self.units_backup)\n        self.manager._in_eu_count -= 1",
  "        if self.manager._in_eu_count == 1:\n            self.manager.set_current_units(\"energy\",self.units_backup)\n        self.manager._in_eu_count -= 1"),
 ("C05", "meV-factor", "quantarhei/core/units.py",
  "    \"meV\"    : 1.0e-18*const.e/const.hbar,\n    \"J\"", "    \"meV\"    : 1.0e-15*const.e/const.hbar,\n    \"J\""),
 ("C05", "nm-current-branch", "quantarhei/core/managers.py",
  "            except:            \n                return (1.0/val)/cfact\n        else:\n            return val/cfact ",
  "            except:            \n                return (1.0/val)*cfact\n        else:\n            return val/cfact "),
 ("C05", "set_rwa-without-units-protection", "quantarhei/qm/hilbertspace/hamiltonian.py",
  None, None),
 ("C19", "R1g-in-both-signals", "quantarhei/spectroscopy/twod2.py",
  "_signals = {signal_REPH:[_ptypes[1], _ptypes[2], _ptypes[4]],",
  "_signals = {signal_REPH:[_ptypes[0], _ptypes[1], _ptypes[2], _ptypes[4]],"),
 ("C19", "pathways-to-types-skips-first-tag", "quantarhei/spectroscopy/twod2.py",
  "                for key in pdict.keys():\n                    data += pdict[key]",
  "                for key in list(pdict.keys())[1:]:\n                    data += pdict[key]"),
 ("C19", "store-without-new-array", "quantarhei/spectroscopy/twod2.py",
  "                    if odata is None:    \n                        self.d__data = data\n                    else:\n                        self.d__data = odata + data",
  "                    if odata is None:    \n                        self.d__data = data\n                    else:\n                        odata += data"),
 ("C17", "set_rate-compensates-wrong-diagonal", "quantarhei/qm/liouvillespace/rates/ratematrix.py",
  "        self.data[M,M] -= value", "        self.data[N,N] -= value"),
 ("C17", "shifted-start-off-by-one", "quantarhei/qm/propagators/poppropagator.py",
  "                    for i in range(Ns):", "                    for i in range(Ns-1):"),
 ("C17", "transposed-generator", "quantarhei/qm/propagators/poppropagator.py",
  "rho1 = pref*numpy.dot(self.KK.data,rho1)", "rho1 = pref*numpy.dot(numpy.transpose(self.KK),rho1)"),
 ("C09", "params-not-appended", "quantarhei/qm/corfunctions/correlationfunctions.py",
  "            for p in other.params:\n                self.params.append(p)\n", "            pass\n"),
 ("C09", "lamb-not-summed-inplace", "quantarhei/qm/corfunctions/correlationfunctions.py",
  "            self.lamb += ocor.lamb  # reorganization energy is additive", "            pass"),
 ("C09", "temperature-check-removed", "quantarhei/qm/corfunctions/correlationfunctions.py",
  "            if self.temperature != other.temperature:\n                raise Exception(\"Cannot add two correlation functions on different temperatures\")",
  "            pass"),
 ("C15", "initial-state-aliased", "quantarhei/qm/propagators/dmevolution.py",
  "        self.data[0,:,:] = rhoi.data        ", "        self.data[0,:,:] = rhoi.data\n        rhoi.data[:,:] = rhoi.data*1.0000001"),
 ("C15", "remainder-flag-not-cleared", "quantarhei/qm/hilbertspace/hamiltonian.py",
  "            self.JR[:,:] = 0.0\n            self._has_remainder_coupling = False",
  "            self.JR[:,:] = 0.0"),
 ("C15", "unprotect-dropped-in-rate-matrix", "quantarhei/builders/opensystem.py",
  "            RR = RedfieldRateMatrix(ham, sbi)\n        ham.unprotect_basis()",
  "            RR = RedfieldRateMatrix(ham, sbi)"),
 ("C20", "rank-lt-remainder", "quantarhei/core/parallel.py",
  "        if rank <= remainder:", "        if rank < remainder:"),
 ("C20", "N2-offset", "quantarhei/core/parallel.py",
  "                N2_local += rank\n", "                N2_local += rank-1\n"),
 ("C13", "upper-half-fill-off-by-one", "quantarhei/core/dfunction.py",
  "                for k in range(0, t.length-1):\n                    yy[w.length-k-1] = numpy.conj(y[k+1])\n\n                Y = 2.0*t.length",
  "                for k in range(0, t.length-2):\n                    yy[w.length-k-1] = numpy.conj(y[k+1])\n\n                Y = 2.0*t.length"),
 ("C13", "time-start-index", "quantarhei/core/time.py",
  "            time_start = self.data[self.length//2]", "            time_start = self.data[(self.length+1)//2]"),
 ("C13", "inverse-missing-2pi", "quantarhei/core/dfunction.py",
  "            numpy.fft.ifftshift(y)))*wstep/(numpy.pi*2.0)\n\n            if t.atype == \"complete\":",
  "            numpy.fft.ifftshift(y)))*wstep\n\n            if t.atype == \"complete\":"),
]


def sh(cmd, **kw):
    r = subprocess.run(cmd, shell=True, capture_output=True, text=True, **kw)
    return r.returncode, r.stdout + r.stderr


def main():
    want = [a for a in sys.argv[1:] if a.startswith("C")]
    tier = "quick"
    tmp = tempfile.mkdtemp(prefix="mutants_")
    wt = os.path.join(tmp, "r")
    sh("git -C /repo worktree add -q --detach %s HEAD" % wt)
    env = dict(os.environ, VERIF_REPO=wt, OMP_NUM_THREADS="1")
    try:
        for pid, name, f, old, new in M:
            if want and pid not in want:
                continue
            if old is None:
                continue
            p = os.path.join(wt, f)
            s = open(p).read()
            if s.count(old) != 1:
                print("%s %-50s SKIP (pattern occurs %d times)" % (pid, name, s.count(old)))
                continue
            open(p, "w").write(s.replace(old, new))
            rc, o = sh("./check %s --tier %s" % (pid, tier), cwd=V, env=env)
            keys = [l.split("key=")[1].split(" ")[0] for l in o.splitlines()
                    if l.startswith("VIOLATION") and "key=" in l]
            print("%s %-50s exit=%d %s" % (pid, name, rc, ("CAUGHT " + ",".join(keys[:3])) if rc == 1
                                             else "*** MISSED ***" if rc == 0 else "HARNESS " + o[-300:]))
            sys.stdout.flush()
            sh("git -C %s checkout -- ." % wt)
    finally:
        sh("git -C /repo worktree remove --force %s" % wt)
        shutil.rmtree(tmp, ignore_errors=True)


if __name__ == "__main__":
    main()
