#!/venv/bin/python
"""Evaluate a seeded change.

  tools/try_seed.py <dir-with-patch.diff,demo.py,meta.json> [--suite] [--tier quick|thorough]
                    [--inplace]

Default: applies the patch in a scratch worktree of /repo (outside /repo and /verif), runs the
demonstration with and without the change, optionally the repository's pinned test suite,
then the property's check with VERIF_REPO pointing at the worktree; removes the worktree.
--inplace applies the patch to /repo itself (git apply), runs the check and undoes it
(git checkout -- .) - use only when nothing else is running against /repo.
"""
import json
import os
import shutil
import subprocess
import sys
import tempfile

V = os.path.dirname(os.path.dirname(os.path.abspath(__file__)))


def sh(cmd, cwd=None, env=None, timeout=3600):
    r = subprocess.run(cmd, shell=True, cwd=cwd, env=env, capture_output=True, text=True,
                       timeout=timeout)
    return r.returncode, r.stdout + r.stderr


def main():
    d = os.path.abspath(sys.argv[1])
    suite = "--suite" in sys.argv
    inplace = "--inplace" in sys.argv
    tier = "quick"
    if "--tier" in sys.argv:
        tier = sys.argv[sys.argv.index("--tier") + 1]
    meta = json.load(open(os.path.join(d, "meta.json")))
    pid = meta["property"]
    patch = os.path.join(d, "patch.diff")
    demo = os.path.join(d, "demo.py")
    out = {"property": pid, "dir": d}
    env = dict(os.environ, OMP_NUM_THREADS="1", PYTHONWARNINGS="ignore", MPLBACKEND="Agg")
    if inplace:
        rc, o = sh("git -C /repo apply %s" % patch)
        if rc:
            print("patch does not apply to /repo:", o)
            return 2
        try:
            rc, o = sh("./check %s --tier %s" % (pid, tier), cwd=V, env=env)
        finally:
            sh("git -C /repo checkout -- .")
        out["check_exit"] = rc
        out["check_lines"] = [l[:300] for l in o.splitlines() if l.startswith("VIOLATION")][:6]
        print(json.dumps(out, indent=1))
        return 0
    tmp = tempfile.mkdtemp(prefix="tryseed_")
    wt = os.path.join(tmp, "r")
    try:
        rc, o = sh("git -C /repo worktree add -q --detach %s HEAD" % wt)
        if rc:
            print(o)
            return 2
        e2 = dict(env, PYTHONPATH=wt)
        if os.path.exists(demo):
            rc0, o0 = sh("/venv/bin/python %s" % demo, cwd=tmp, env=e2, timeout=600)
            out["demo_without_change_exit"] = rc0
        rc, o = sh("git -C %s apply %s" % (wt, patch))
        if rc:
            out["patch_applies"] = False
            out["apply_error"] = o[-400:]
            print(json.dumps(out, indent=1))
            return 2
        out["patch_applies"] = True
        if os.path.exists(demo):
            rc1, o1 = sh("/venv/bin/python %s" % demo, cwd=tmp, env=e2, timeout=600)
            out["demo_with_change_exit"] = rc1
            out["demo_output_tail"] = o1.strip().splitlines()[-3:]
        if suite:
            rc, o = sh("%s/tools/run_suite.py %s -n 10" % (V, wt), env=env, timeout=7200)
            out["suite_exit"] = rc
            out["suite_tail"] = o.strip().splitlines()[-4:]
        rc, o = sh("./check %s --tier %s" % (pid, tier), cwd=V, env=dict(env, VERIF_REPO=wt))
        out["check_exit"] = rc
        out["check_lines"] = [l[:300] for l in o.splitlines()
                              if l.startswith("VIOLATION") or l.startswith("HARNESS")][:6]
        out["check_summary"] = o.strip().splitlines()[-1][:300] if o.strip() else ""
    finally:
        sh("git -C /repo worktree remove --force %s" % wt)
        shutil.rmtree(tmp, ignore_errors=True)
    print(json.dumps(out, indent=1))
    return 0


if __name__ == "__main__":
    sys.exit(main())
