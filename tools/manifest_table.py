add("C20", "model_checking",
    "exhaustive enumeration of (process count, rank, start, stop) and lock-step "
    "per-rank execution of the real reduction call sites against a partition model",
    "Every (size<=8 quick / <=16 thorough, start -3..5, stop up to start+2*size+3) triple with "
    "every rank is executed on the real helpers (private and public, list/array, with and "
    "without index) through the real DistributedConfiguration placed in a simulated MPI world; "
    "blocks are compared with an exact partition model (contiguous, disjoint, balanced, exact "
    "cover). The reduction clause runs the real Redfield tensor / operator conversion / rate "
    "matrix once per rank in lock step, sum-reduces the intercepted partial arrays and compares "
    "with the serial result. The helpers are pure functions of (size, rank, start, stop), so the "
    "bounded product is the whole behaviour up to the size bound.",
    "No real MPI: the communicator is simulated (fake mpi4py module); process counts above the "
    "bound are not explored.",
    "DESIGN.md §3 C20")
