add("C20", "model_checking",
    "exhaustive enumeration of (process count, rank, start, stop) and lock-step "
    "per-rank execution of the real reduction call sites against a partition model",
    "Every (size<=8 quick / <=16 thorough, start -3..5, stop up to start+2*size+3) triple with "
    "every rank is executed on the real helpers (private and public, list/array, with and "
    "without index) through the real DistributedConfiguration placed in a simulated MPI world; "
    "blocks are compared with an exact partition model (contiguous, disjoint, balanced, exact "
    "cover). The reduction clause runs the real Redfield tensor / operator conversion / rate "
    "matrix once per rank in lock step, sum-reduces the intercepted partial arrays and compares "
    "with the serial result. The helpers are pure functions of (size, rank, start, stop), so the "
    "bounded product is the whole behaviour up to the size bound.",
    "No real MPI: the communicator is simulated (fake mpi4py module); process counts above the "
    "bound are not explored.",
    "DESIGN.md §3 C20")
add("C13", "model_checking",
    "exhaustive enumeration of axis configurations with linearity closure over the data basis, "
    "checked against direct O(N^2) Fourier sums",
    "Complete product direction {time,frequency} x axis type x start {0, centred, 3.0, -1.25} x "
    "step (4 values) x every length 2..9 (quick) / 2..17,32,33,64,101 (thorough). At every point "
    "the axis round trip is checked, the conjugate axis is compared with the closed formula, and "
    "the transform is run on ALL basis vectors delta_k and i*delta_k of the data space; since the "
    "transforms are (real-)linear this decides the FT-sum and the round-trip clause for every "
    "complex data vector on that axis.",
    "Lengths above the bound and steps/starts outside the alphabet are not explored. Data round "
    "trip that starts from an upper-half FREQUENCY axis is not claimed (the property restricts "
    "half axes to Hermitian-extendable time data; those are reached from the time side).",
    "DESIGN.md §3 C13")
add("C19", "model_checking",
    "explicit-state breadth-first search over operation histories of the real object with a "
    "reference ledger and canonical-state deduplication",
    "BFS over all histories (depth 4 quick / 6 thorough, ~80-op alphabet: additions at all five "
    "levels with valid and invalid type names, tags, two integer arrays, explicit/implicit/unknown "
    "resolution; all resolution changes incl. inadmissible ones) executed on a fresh real "
    "TwoDResponse per history. After every transition every readable view (total, signals, "
    "processes, types, tagged pathways, get_all_data) is compared for exact equality with a ledger "
    "of accepted additions; refused operations must leave resolution and stored arrays "
    "byte-identical; inexpressible views must be refused; reads must not change the storage; the "
    "caller's arrays must not be modified. States are merged only when both the implementation "
    "storage and the ledger agree.",
    "Two 2x2 integer arrays (exact sums); histories longer than the depth bound are not explored; "
    "type/process/signal membership tables are the library's published constants.",
    "DESIGN.md §3 C19")
add("C04", "model_checking",
    "explicit-state breadth-first search over context/object operation histories on the real "
    "Manager and real managed objects, with exception injection and an independent basis model",
    "BFS (one section per managed class: Operator, ReducedDensityMatrix, Hamiltonian, "
    "TransitionDipoleMoment, SuperOperator, LindbladForm in operator and tensor form, "
    "DensityMatrixEvolution; plus mixed sections) over enter(X)/exit/exit-by-exception/"
    "exception-through-all-levels/create/read/write/failing-write/protect/unprotect/apply, nesting "
    "<=2 (quick) / <=3 (thorough), 2-3 context operators incl. a degenerate one, <=1/<=2 injected "
    "exceptions. Every read is compared with S^-1 H S from a reference model that tracks each "
    "object's physical operator in the root basis; each transformation matrix handed out by the "
    "implementation is validated (orthogonal, diagonalising, ascending) before the model uses it; "
    "after every exit the bookkeeping is compared with the snapshot taken before the matching "
    "enter; every history is finally closed and stack/transformations/registrations/flag/tags and "
    "every object's stored array are compared with the original representation.",
    "3x3 context operators (real symmetric, one complex Hermitian); bracketed protection in the "
    "main sections, freeze-by-protect in its own sections (a protected operator's own context is "
    "entered only in the basis it was protected in); StateVector objects are not in the alphabet; "
    "histories beyond the completed depth are not explored (depth and caps reported in the "
    "evidence).",
    "DESIGN.md §3 C04")
add("C05", "model_checking",
    "exhaustive unit-pair x accessor product against an independent table; explicit-state search "
    "over units-context histories with library calls; exception injected at every library "
    "function entry inside each call",
    "G: every ordered pair of the 11 supported energy units x 14 units-managed accessors "
    "(Hamiltonian, Molecule init/set, Mode init/set, SubMode, aggregate coupling and coupling "
    "matrix, FrequencyAxis start/step/data, correlation-function and spectral-density "
    "reorganisation energy, convert/in_current_units) x value alphabet, compared with a table "
    "recomputed from CODATA (1e-6) and with exact identities (round trip, transitivity over a "
    "third unit, stored value independent of the supplying context; 1e-12). H: BFS over "
    "enter(energy 1/cm|eV|nm, length nm)/exit/exit-by-exception/exception-through-all/call(f) for a "
    "30-entry menu of public builder/calculator calls; after every transition the active units "
    "and the context-depth bookkeeping are compared with the model's stack. F: every menu call "
    "inside energy_units(u) with an exception injected at every library function entry reached by "
    "that call (profile hook; entries during a context manager's own __exit__ excluded), units "
    "compared before/after.",
    "Fault points beyond the per-call bound (400 quick / 6000 thorough) are not enumerated (cap "
    "reported); temperature/time/dipole units have no context manager; wavelength of zero energy "
    "is excluded.",
    "DESIGN.md §3 C05")
add("C09", "model_checking",
    "exhaustive enumeration of all addition histories (binary expression trees and in-place "
    "chains) up to a leaf bound, checked against a ledger of components",
    "Every binary '+' tree (all groupings and orders, leaves with repetition from {Overdamped, "
    "Overdamped high-temperature, second Overdamped, value-defined as right operand}) with <=3 "
    "(quick) / <=4 (thorough) leaves, every in-place chain x+=y, x+=x, (x+=y)+=z, for "
    "CorrelationFunction and SpectralDensity (Overdamped, UnderdampedBrownian), x units used to "
    "build the leaves {int,1/cm,eV,mixed} x units context around the additions {none,1/cm}; plus "
    "every position of a different-temperature leaf. Oracle per history: data = sum of the "
    "separately built components' data, lamb and declared reorganisation energy additive, "
    "component list = ledger, a copy rebuilt from the component list reproduces the sum, operands "
    "unchanged (also by refused additions), temperature refusal; measured vs declared "
    "reorganisation energy (1e-3) and parity of even/odd FT parts for analytic composites.",
    "Leaf parameter values are one alphabet (three analytic parameter sets); trees above the "
    "leaf bound not explored; temperature refusal checked for correlation functions only.",
    "DESIGN.md §3 C09")
add("C17", "model_checking",
    "explicit-state search over all rate-assignment histories against a dictionary model; "
    "exhaustive generator x axis x sub-axis product against the matrix exponential",
    "H: BFS over every set_rate((i,j),v) history (all 9 index pairs incl. the refused diagonal, "
    "v in {0,0.5,2}, depth 3 quick / 4 thorough, from an empty and from a data-constructed "
    "matrix) on the real RateMatrix: column sums, every off-diagonal equals the last assigned "
    "value, untouched elements untouched, refusals without change. G: 7 generators (2-state, "
    "cycle with complex eigenvalues, defective chains of 3 and 4, distinct chain, disconnected, "
    "full) x time axes x all unit initial vectors: sum conserved (1e-10), non-negativity and "
    "agreement with scipy expm within a per-case computed truncation bound of the order-4 "
    "expansion; get_PropagationMatrix on EVERY compatible sub-axis (start index, stride, length) "
    "equals expm(K (t_i - t_start)) to 1e-9.",
    "Rate values and step sizes from the alphabets (||K||dt <= 0.25); rate matrices of "
    "dimension <= 4; sub-axes limited to stride <= 10 and start index <= 12.",
    "DESIGN.md §3 C17")
add("C15", "model_checking",
    "explicit-state search over call histories on shared real objects, with before/after input "
    "comparison and a freshly built twin world as differential oracle",
    "BFS over all sequences (depth 2 quick / 3 thorough) of a 22-26 entry menu: relaxation-tensor "
    "construction (standard / time-dependent / secular Redfield, Foerster, combined "
    "Redfield-Foerster with a coupling cut-off), propagate() on cached propagator objects per "
    "theory with two initial states and refinement, free, state-vector, population and "
    "hierarchical-equations propagation on cached propagators, evolution superoperator "
    "calculate+apply, Redfield/Foerster rate matrices, absorption spectrum, initial states - all "
    "on ONE shared aggregate/Hamiltonian/system-bath interaction/time axis/initial states. For the "
    "last call of every history all observable inputs (Hamiltonian data, basis tag, protection, "
    "remainder coupling, RWA, system-bath operators and correlation functions, time axis, initial "
    "states, tensors and Hamiltonians held by propagators, Manager basis stack and units) are "
    "compared before/after, and the result is compared (1e-10) with the same call made as the "
    "first call on a freshly built twin world.",
    "Dimer (quick) / trimer (thorough) with one bath parameter set; the step refinement of a "
    "propagator is treated as a documented setting of that object; memoised integrals are not "
    "inputs; exceptions are outside this property's quantifier.",
    "DESIGN.md §3 C15")
add("C03", "model_checking",
    "exhaustive enumeration of aggregate configurations (sizes, multiplicities, energy and "
    "coupling patterns, all N! relabellings, unit contexts, lattice geometries) against a "
    "combinatorial Frenkel reference model",
    "Full product N(1..4 quick / 1..6 thorough) x mult{1,2} x energy pattern x coupling pattern x "
    "dipole set x coupling API x input unit x build context, every one of the N! relabellings "
    "built inside each point; element-wise comparison of Hamiltonian, dipole operator and the raw "
    "HH/DD arrays with mc/refmodels/frenkel.py (band order, diagonal sums, one-excitation moves "
    "incl. the two-exciton block, zero elements inside and between bands, dipole adjacency), "
    "bookkeeping (Nb, elsigs, which_band), relabelling invariance of spectrum and cluster-summed "
    "dipole strengths, unit independence; point-dipole couplings for all ordered lattice point "
    "pairs x all dipole pairs x eps_r x three APIs against the SI formula (1e-6).",
    "No vibrational modes (C10 owns them); sizes above the bound and parameter values between "
    "alphabet points not explored.",
    "DESIGN.md §3 C03")
add("C14", "model_checking",
    "exhaustive enumeration of system x condition x temperature x request-context grid against "
    "log-space Boltzmann populations",
    "Full product system (8 aggregates + 5 molecules quick; 20 + 8 thorough, with/without modes, "
    "mult 1/2) x ground energy x bath x condition (thermal, thermal excited state weak/strong, "
    "impulsive) x relaxation Hamiltonian given or not x temperature source x 15 (quick) / 29 "
    "(thorough) temperatures from 0 K to 1e5 K, each requested outside any context, inside "
    "eigenbasis_of(H) and inside eigenbasis_of(another operator) and read back at depth 0. "
    "Oracles: finite, Hermitian, PSD, unit trace, diagonal in the defining basis, populations vs "
    "log-space Boltzmann with a computed conditioning bound, zero-temperature limit, same "
    "physical operator inside and outside.",
    "Plain 'thermal' is accepted under either of its two readings and not required to be context "
    "independent; degenerate lowest level at T=0 only support-checked; unsupported requests "
    "(strong coupling without bath/with modes and no relaxation Hamiltonian) are counted as "
    "refused.",
    "DESIGN.md §3 C14")
add("C06", "model_checking",
    "exhaustive enumeration of system x bath x temperature x time-axis grid against analytic "
    "golden-rule rates and Boltzmann factors",
    "Full product sites(2,3 quick / 2-4 thorough) x coupling pattern x J x gap x reorganisation "
    "energy x correlation time x temperature x admissible time axis x construction route (plain "
    "Hamiltonian + system-bath interaction, spectral-density derived C(t), Aggregate). Oracles on "
    "every state pair: off-diagonals >= 0, zero column sums, no transfer to/from the ground state, "
    "k_up/k_down = Boltzmann factor (rounding level, enforced by construction), downhill element of "
    "RedfieldRateMatrix, of the Redfield tensor read inside eigenbasis_of(H) and of the long-time "
    "TD rate matrix vs the golden-rule sum with the analytic overdamped spectral density "
    "(quadrature-limited tolerances derived per axis: 0.02+0.45 w dt etc., worst observed <= 0.17 of "
    "the tolerance, smallest mutant effect >= 5x), Foerster column sums and detailed balance w.r.t. "
    "relaxed site energies, spectral density odd in frequency, C(-w) = exp(-w/kT) C(w).",
    "System section: overdamped Brownian baths; <= 4 sites; 77-300 K; transition frequencies "
    "below the library's 3000 1/cm cut-off; tensor-level and TD uphill detailed balance are not "
    "claimed by the property; rate matrices constructed INSIDE a basis context are outside the "
    "alphabet (DESIGN 7.5); defects smaller than the stated quadrature tolerance are invisible.",
    "DESIGN.md §3 C06")
add("C10", "model_checking",
    "exhaustive enumeration of Huang-Rhys factor x level-count x mode-count x molecule-count grid "
    "against the closed Laguerre formula",
    "Full products over Huang-Rhys factors (incl. negative shifts), level counts per electronic "
    "state {1,2,3,5 / ..,8,20}, 1-3 modes per molecule, 1-3 molecules (uneven mode counts), "
    "couplings, multiplicity: shift operator vs closed Laguerre formula (20x20 block), Poisson "
    "distribution and its mean, unitarity and truncation-bounded orthogonality of blocks, state "
    "counts per electronic state = product of declared level counts, every FCf / Hamiltonian "
    "coupling / dipole element = electronic quantity x product over modes of reference overlaps, "
    "diagonal energies, Molecule Hamiltonian spectrum vs truncated displaced oscillator.",
    "Full vibrational state space only; level counts above 20 per state cannot be built by the "
    "package (counted as unbuildable); the sign convention of the oscillator coordinate is not "
    "fixed by the statement (either orientation accepted, one per case).",
    "DESIGN.md §3 C10")
add("C16", "model_checking",
    "exhaustive enumeration of (baths, depth) for the index/link clauses and of a system x bath x "
    "depth x initial-state grid for the dynamics clauses",
    "Index set vs stars-and-bars compositions level by level, hsize, neighbour tables present "
    "exactly inside and absent exactly at the boundaries and mutually inverse, decay factors, for "
    "every K<=4 (5) and depth<=5 (7) through both construction paths; dynamics on monomer/dimers/"
    "trimers for ALL N^2 spanning initial states and every depth: unit trace and Hermiticity at "
    "every stored time (1e-10), zero coupling strength = closed-system expm dynamics in the same "
    "rotating frame within a computed Taylor-4 bound, uncoupled sites: error vs "
    "exp(-i(w-Omega)t-g(t)) never rises with depth and is below a calibrated tolerance at the "
    "deepest level.",
    "High-temperature overdamped baths for the analytic clause; <=3 sites, depth <=6 for dynamics; "
    "fresh hierarchy per propagation (C15 owns reuse).",
    "DESIGN.md §3 C16")
add("C02", "model_checking",
    "exhaustive enumeration of generator x initial-state spanning set x integrator-setting grid "
    "against expm of an independently built GKSL Liouvillian with a computed truncation bound",
    "Five complete sub-products (closed systems DM/SV lab frame and RWA; LindbladForm as operators/"
    "tensor/converted with RWA on/off; Lindblad + Lorentzian/Gaussian pure dephasing; pairwise "
    "mixtures; TI/TD Redfield as tensor/operators/secular) x dims 2-3 (4) x expansion orders 2,4,6 x "
    "refinement 1,2,5 x time axes x norm scales; inside every case ALL dim^2 spanning pure states "
    "(and all pairwise mixtures) are propagated on fresh propagators. Oracles: trace and "
    "Hermiticity at every stored time (1e-10), positivity and agreement with expm of the reference "
    "generator within 2x the a-priori bound n*sup||T^k||*sup||E^k||*||T-E||, conservation of norm/"
    "purity/energy, state-vector vs density-matrix, RWA converted back vs lab frame.",
    "||H||dt <= 0.5; dim <= 4; field-driven propagation: array fields only (the LabSetup / EField-object routes are not in the alphabet; operator-form field routes are stubs in the package and counted); for Redfield generators "
    "only trace and Hermiticity are claimed by the statement. KNOWN FINDING (printed, exit 0): on "
    "time axes that do not start at zero the RWA frame is anchored at absolute time zero "
    "(rwa/*/nonzero-axis-start/frame-anchored-at-absolute-time-zero).",
    "DESIGN.md §3 C02")
add("C07", "model_checking",
    "exhaustive enumeration of tensor configurations with linearity closure (all matrix units, "
    "spanning initial states) in three bases, plus analytic pure-dephasing limit",
    "Full products over Lindblad / Redfield / time-dependent Redfield configurations (sizes, energy "
    "and coupling patterns, baths, cut-off, routes); inside every point ALL N^2 matrix units are "
    "applied and N^2 spanning states propagated with the operator form, the 4-index form and the "
    "form converted by convert_2_tensor (conversion executed in each of the three bases: outside, "
    "eigenbasis_of(H), eigenbasis_of(X)), each compared in all three bases (1e-10) and against "
    "independent GKSL / May-Kuhn formulas; TD tensor: data[0]==0 exactly, data[-1]==time-independent "
    "tensor; uncoupled sites: propagation vs exp(-iwt-g(t)) within a derived first-order bound and "
    "error ratio >= 1.7 on halving dt.",
    "Real symmetric basis operators; <= 4 sites; apply() of time-dependent tensors does not exist "
    "in the package.",
    "DESIGN.md §3 C07")
add("C08", "model_checking",
    "exhaustive enumeration of system x generator x grid x dense-step settings with all index "
    "pairs, all matrix units and all incremental-step histories",
    "Cases (system x generator {none, Lindblad variants in tensor/operator form, Redfield of built "
    "aggregates} x step x Nt); inside each: dense settings {1,2,5,50} and their doubles, modes "
    "'all' and 'jit', every prefix k<=Nt-1 of calculate_next histories for both save flags and the "
    "prefix tree of mixed-flag words, U(0)=1 exactly, semigroup law for ALL index pairs in both "
    "orders, trace preservation and Hermiticity at every time, U(t_i) applied to ALL matrix units vs "
    "direct propagation (rounding level when dense steps match, computed truncation bound "
    "otherwise), jit vs all, dense N vs 2N, absolute comparison with the Taylor polynomial and "
    "expm of an independent Liouvillian, all calling forms of apply()/at(t).",
    "dim <= 4, Nt <= 9; at() without a time is not an observation the property speaks about.",
    "DESIGN.md §3 C08")
add("C11", "model_checking",
    "exhaustive enumeration of system x geometry grid with all relabellings, cube rotations and "
    "scale factors against a direct Fourier sum of the dipole correlation function",
    "Five complete products (molecule, aggregate without tensor, with static secular Redfield "
    "tensor, with time-dependent tensor, from-dynamics route); inside each point the 23 cube "
    "rotations + generic ones, all N! relabellings, scale factors, the uncoupled partner. Oracles: "
    "direct half-sided Fourier sum evaluated at the returned axis points (1e-8 peak), k^2 scaling, "
    "rotation and relabelling invariance (1e-10), integral per sum|d|^2 independent of coupling "
    "(5e-3), inputs unchanged and second call identical. The known two-point displacement is "
    "recognised ONLY when the data equal the reference on the grid hfft really samples, displaced "
    "by exactly +2 (1e-10); any other disagreement is reported as fourier/mismatch.",
    "KNOWN FINDING (printed, exit 0): every spectrum is displaced by two grid points "
    "(fourier/axis-shift=+2/hfft-length in known_findings.json). "
    "N <= 3, overdamped baths; behaviour when calculate() raises is not part of the property "
    "(no fault quantifier) and is not reported.",
    "DESIGN.md §3 C11")
add("C12", "model_checking",
    "exhaustive enumeration of polarisation and dipole four-tuples against an exact SO(3) "
    "quadrature, and of a system grid for additivity/symmetry clauses",
    "All 5^4 polarisation four-tuples x all 4^4 dipole four-tuples x interaction-side patterns on "
    "real liouville_pathway objects vs a 75-rotation product quadrature that is exact for the "
    "degree-4 integrand (independent of the M4 formula); system grid (dimers/trimers, mult 2, J, "
    "widths, waiting time, line shape, excited-state dynamics) through the real mock calculator: "
    "prefactor of every generated pathway for all 625 polarisation settings, invariance under 24 "
    "cube rotations + generic of dipoles and of polarisations, k^4 scaling, total = rephasing + "
    "non-rephasing and pathway ledger, uncoupled aggregate = sum of separately built monomers.",
    "MockTwoDResponseCalculator only (aceto absent); <= 3 molecules without modes.",
    "DESIGN.md §3 C12")
add("C18", "model_checking",
    "exhaustive format x dtype x shape x axis matrix and exhaustive enumeration of save/load "
    "histories under unit and basis contexts with a twin-world oracle",
    "G: {DFunction, AbsSpectrum, TwoDResponse, DensityMatrixEvolution} x {.dat,.txt,.npy,.npz,.mat} "
    "x data flavours x shapes x {with, without axis}, loaded into a different object, per-entry "
    "comparison. H: all histories pre(<=2 contexts)[touch] save mid(<=1 quick / <=3 thorough "
    "enter/exit ops) load read(here | +1 context | after exiting all) with contexts "
    "{energy_units(1/cm|eV), eigenbasis_of(H), eigenbasis_of(A)} for 16 saveable classes x 5 routes "
    "(save/load by name and file object, save_parcel/load_parcel, scopy, savedir/loaddir); oracle: "
    "the same history on identically built objects that are never saved must give the same "
    "observables.",
    "dill/numpy/scipy containers trusted; single-row/column arrays outside the grid; nesting <= 2.",
    "DESIGN.md §3 C18")
add("C01", "model_checking",
    "exhaustive enumeration of system x bath x theory x option grid; both identities evaluated "
    "on every element of every tensor at every time index in every reached basis",
    "Full product sites(1-3 quick / 1-4 thorough) x energy pattern x coupling pattern x baths x 52 "
    "tensor configurations (30 OpenSystem option combinations + 22 direct constructors: standard/"
    "time-dependent Redfield, Foerster with/without pure dephasing, TD-Foerster, combined "
    "Redfield-Foerster, operator forms converted by convert_2_tensor in four bases) and every set "
    "of <=2 projector Lindblad operators x rates x 6 forms; each tensor read in the site basis, "
    "inside eigenbasis_of(H), nested contexts, a real symmetric and a complex Hermitian operator's "
    "basis and after leaving each context; every secularisation implementation in four contexts "
    "with the 'kept elements unchanged / all others exactly zero' clauses. Oracle: sum_a R[a,a,c,d]=0 "
    "and conj(R[a,b,c,d])=R[b,a,d,c] to 1e-10 of max|R| on every element.",
    "Option combinations the package cannot build (constructor raises) are counted and excluded "
    "(whitelist in the driver); <= 4 sites; one time-axis length.",
    "DESIGN.md §3 C01")


# ---------------------------------------------------------------------------------------------
# Dimensions added after the first version of each driver (five waves of independently written
# property-breaking changes, DESIGN.md 7.6/7.7): appended to the text above by gen_manifest.py.
# ---------------------------------------------------------------------------------------------
EXTRA = {
    "C01": "recomputation on the same object; bare systems; ordered pairs of requests on one system "
           "with recalculate in {True, False}; operator-form apply() on a complete basis of states.",
    "C02": "state-vector routes; full form x dephasing x RWA product; construction inside units "
           "contexts; basis context of the call; conversion directions; one propagator reused after "
           "set_rwa / after its pure dephasing is changed; complex Hermitian Hamiltonians; field-driven "
           "propagation (array field + dipole operator: constant field against the exact GKSL "
           "exponential, every field shape for trace/Hermiticity); Lindblad generators propagated "
           "inside real and complex eigenbasis contexts.",
    "C03": "dipole strengths read first inside a context; container/dtype of inputs (list, tuple, int "
           "and float arrays, caller mutating its array afterwards); multi-level molecules and "
           "non-zero ground-state energies; rebuild/clean histories; lifetimes and parameter sets.",
    "C04": "time-dependent (5-index) superoperators and apply/at with every time argument; Hamiltonian "
           "with remainder coupling; complex Hermitian context operator with real-dtype storage; "
           "objects whose access raises; LindbladForms sharing one system-bath interaction; in-place "
           "operator sums; one eigenbasis_of object re-entered; Redfield tensors TD/TI x tensor/"
           "converted x first read; freeze-by-protect histories (protect inside, leave, unprotect at "
           "another depth); sibling inner contexts; nested contexts that fail to enter; context "
           "operators overwritten inside their context; the state key also hashes every attribute of "
           "the Manager, the objects and the open context managers (shallow canonical form), so a "
           "cache kept anywhere there cannot be merged away; a library exception raised by an "
           "operation of the alphabet is a violation.",
    "C05": "user-set global units as the bottom of the stack; prepared-then-entered context objects; "
           "27 accessors (cut-off arguments, RWA energies and skeleton, transition energies, "
           "caller-mutated arrays, first read inside a basis context, state energies with "
           "vibrational quanta, values= route of CorrelationFunction, electronic Hamiltonian); 52-call "
           "menu incl. loop bodies of public generators; refused units requests; sums of bath functions made inside the supplying context; derived unit-managed getters (measured reorganisation energy) read under every pair of units.",
    "C06": "five analytic bath types in the bath section; ground-state energy offsets; three requests "
           "at different temperatures on one object; requests inside units contexts; operator-form "
           "tensors converted inside/outside the context; the zero-frequency element is allowed the "
           "computed l'Hospital discretisation error only; baths graded in one parameter only (equal "
           "reorganisation energies or equal correlation times); transition frequencies beyond the "
           "rate code's cut-off.",
    "C07": "shared initial state across forms; refinement (argument and setting) against absolute "
           "references; non-dyadic axes; expansion orders; conversion after the propagator exists; "
           "unsorted energies with a different bath per site; complex unitary basis and complex "
           "couplings; rotating frame with an absolute oracle and frame marker; pure dephasing "
           "(Lorentzian, Gaussian) x axis start across the three forms.",
    "C08": "pure dephasing grid; complex Hamiltonians; observation inside contexts; histories of "
           "set_dense_dt / calculate on one object; apply(copy=False); sub-axes not starting at t_0.",
    "C09": "all analytic ftypes incl. legacy ones; construction units per component; list-built "
           "composites; FT-part sums; measurement histories (measure, add_to_data, add_to_data-self); "
           "time axes; zero-reorganisation-energy operands; one-sided / asymmetric frequency axes; "
           "temperature bookkeeping of composites converted to correlation functions; construction "
           "inputs reused and modified by the caller; refused additions through every public route.",
    "C10": "3-4 modes; complex shifts; fem_full; direct coupling() calls inside units contexts; "
           "second build after changing shifts (setting histories); 12-20 levels in quick; ordered "
           "pairs/triples of later calls on the built aggregate; near-degenerate and up to 20 distinct "
           "shifts; three-level molecules with all dipole patterns; per-state mode frequencies.",
    "C11": "explicit correlation-function matrices with cross terms; coupling cut-off; histories on "
           "one aggregate and on one calculator (re-bootstrap); dipole scale factors down to 1e-4; "
           "common ground-state energy offsets; a second calculate() on one calculator after the aggregate was re-coupled and rebuilt; rotations that align every pair with every cube-lattice direction.",
    "C12": "calculator reuse across systems; scaled dipoles; the whole waiting-time axis with an "
           "independent pathway census; histories of requests on the aggregate before the response "
           "calculation (start states built / diagonalized); non-unit polarisation vectors.",
    "C13": "window= option; second use of the same object and argument-unchanged clauses; data set "
           "through apply_to_data / assignment; amplitudes 1, 1j, 1e-9; negative steps; axis copies; "
           "axis mutation histories; storage types of function and window (real/complex).",
    "C14": "re-issue of the stored state; complex Hermitian contexts; nested non-commuting contexts; "
           "aggregate ground-state energy offsets; object histories before the request; relaxation "
           "Hamiltonians that do not commute with the aggregate Hamiltonian; multi-scale level "
           "structures (kT far below the level spread, several levels populated); Boltzmann ratio of weakly populated levels read in the eigenbasis (relative, not absolute).",
    "C15": "every call also inside ambient units / basis contexts; user refills of the initial-state "
           "objects; non-equilibrium Foerster; free_hierarchy; propagation-matrix corrections; "
           "refused calls; plain Hamiltonians without RWA; pure dephasing with persisted refinement; "
           "reads of inputs between calls; results of EARLIER calls held by the caller must not "
           "change; recalculate=False requests; cut-offs above every coupling; an overflowing run on "
           "a shared hierarchy followed by ordinary runs; Gaussian pure dephasing; the PureDephasing object of every propagator is part of the input snapshot.",
    "C16": "depths 10-14 for the index clauses; complex Hamiltonians; ground-state energy offsets; "
           "construction inside units contexts; call histories on one propagator (free_hierarchy, "
           "deeper then shallower requests, held results); time axes not starting at zero; commuting "
           "system-bath operators that are not site projectors (exact cumulant reference); propagation "
           "axis whose step differs from the bath axis.",
    "C17": "integer / tuple initial vectors; request histories on ONE propagator; corrections= option "
           "with the rate matrix compared before/after; non-dyadic and offset parent axes; slow and "
           "multi-scale generators; long axes; results held across later requests; initial "
           "populations whose sum is not one; assigned rates on scales differing by 1e8 and "
           "corrections of 1e-7 of a value (stored numbers compared exactly).",
    "C18": "one-row / one-column / one-point shapes; complex Hermitian contexts; magnitudes 1e-10; "
           "savedir tag histories; saving leaves the object alone; import inside contexts; file-name "
           "reuse; exported axis in every unit for 12 axis kinds; series of 2-3 objects in one open "
           "file object with every read order.",
    "C19": "falsy tags; retained views; read-order pairs; non-square (2,3) data; results derived from "
           "get_TwoDSpectrum (devide_by / normalize2 / add_data) leave the container alone; additions "
           "and reductions before the axes exist.",
    "C20": "collective-protocol words over start/close/loop/allreduce with a locking communicator (a "
           "rank that skips a collective is a violation); persistent per-rank configurations over "
           "sequences of loops; nested regions; multi-dimensional arrays; reversed and huge ranges "
           "(arithmetic partition check); reductions of operator form, rates with several components; reduction of accumulators in every memory layout (C, Fortran, transposed view, slice); an absent block table is a violation.",
}
