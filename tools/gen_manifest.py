#!/venv/bin/python
"""Regenerates MANIFEST.json from the table below and validates it (and any
evidence files present) against the schemas in /root/.vp."""
import json
import os
import sys

V = os.path.dirname(os.path.dirname(os.path.abspath(__file__)))

# id -> (category, technique, text, note, design_ref)
CHECKS = {}


def add(pid, cat, technique, text, note, ref):
    CHECKS[pid] = (cat, technique, text, note, ref)


NOT_YET = {}
EXTRA = {}

exec(open(os.path.join(V, "tools", "manifest_table.py")).read())

props = [json.loads(l) for l in open(os.path.join(V, "properties.jsonl"))]
ids = [p["id"] for p in props]
checks = []
for pid in ids:
    if pid not in CHECKS:
        continue
    cat, tech, text, note, ref = CHECKS[pid]
    if EXTRA.get(pid):
        text = text + " Dimensions added since the first version (DESIGN.md 7.6/7.7; each a complete " \
                      "sub-product): " + EXTRA[pid]
    checks.append({
        "property_id": pid,
        "quick_cmd": "./check %s --tier quick" % pid,
        "thorough_cmd": "./check %s --tier thorough" % pid,
        "evidence_file": "/verif/evidence/%s.json" % pid,
        "replay_cmd_template": "./check %s --replay {path}" % pid,
        "engine": "mc-explore",
        "level_claimed": {"category": cat, "text": text, "design_ref": ref},
        "level_note": note,
        "technique": tech,
    })
na = [{"property_id": pid, "reason": NOT_YET.get(pid, "check not built yet (work in progress)")}
      for pid in ids if pid not in CHECKS]
man = {
    "version": 1,
    "setup_cmd": "./setup.sh",
    "hooks": {
        "guard": "QUANTARHEI_VERIF",
        "enable": "no source hooks are needed: checks import /repo's working tree "
                  "(editable install) with QUANTARHEI_VERIF=1 set; all seams are reached "
                  "from outside (Manager singleton attributes, fake mpi4py communicator, "
                  "harness-side exception injection)",
        "baseline_off_cmd": "cd /repo && env -u QUANTARHEI_VERIF /venv/bin/python -m pytest "
                            "-ra -q -p no:cacheprovider --timeout=900 "
                            "--continue-on-collection-errors",
        "source_commits": [],
        "add_only": True,
    },
    "engines": [{
        "name": "mc-explore",
        "path": "/verif/mc",
        "serves_properties": [c["property_id"] for c in checks],
        "kind_free_text": "hand-written explicit-state / exhaustive-product explorer in Python "
                          "running the real implementation: E-grid (complete Cartesian products "
                          "of small alphabets), E-bfs (breadth-first search over operation "
                          "histories on fresh real objects with canonical-state dedup and a "
                          "reference model per step), E-fault (exception injected at every "
                          "position, deviation bound iterated)",
    }],
    "checks": checks,
    "not_applicable": na,
    "notes": "All checks run /venv/bin/python against /repo's current working tree. "
             "known_findings.json is read-only at run time. See DESIGN.md.",
}
with open(os.path.join(V, "MANIFEST.json"), "w") as f:
    json.dump(man, f, indent=1)

try:
    import jsonschema
    jsonschema.validate(man, json.load(open("/root/.vp/MANIFEST.schema.json")))
    es = json.load(open("/root/.vp/EVIDENCE.schema.json"))
    for c in checks:
        p = c["evidence_file"]
        if os.path.exists(p):
            jsonschema.validate(json.load(open(p)), es)
            print("evidence ok:", p)
    print("MANIFEST ok: %d checks, %d not_applicable" % (len(checks), len(na)))
except ImportError:
    print("jsonschema not available in this interpreter; not validated")
