#!/venv/bin/python
"""Prepare scratch directories for a wave of independently written property-breaking changes.

  tools/setup_seed_wave.py <wave-no> C01 C07 ...

For each property: /tmp/seed<wave>/<ID>/{r (detached worktree of /repo HEAD), PROPERTY.txt (the
property record's title, statement, quantifier, anchors - nothing from /verif's machinery),
TAKEN.txt (titles of changes already written for it, so that a new writer does something else),
out/, w/}.  The brief (/tmp/seed<wave>/BRIEF.md) is the wave-2 brief with the directory renamed.
The sub-agents get only these directories."""
import glob
import json
import os
import subprocess
import sys

V = os.path.dirname(os.path.dirname(os.path.abspath(__file__)))
BRIEF = open(os.path.join(V, "tools", "SEED_BRIEF.md")).read()


def main():
    wave = sys.argv[1]
    root = "/tmp/seed%s" % wave
    os.makedirs(root, exist_ok=True)
    open(os.path.join(root, "BRIEF.md"), "w").write(BRIEF.replace("/tmp/seedN", root))
    props = {}
    for l in open(os.path.join(V, "properties.jsonl")):
        p = json.loads(l)
        props[p["id"]] = p
    for pid in sys.argv[2:]:
        d = os.path.join(root, pid)
        os.makedirs(os.path.join(d, "out"), exist_ok=True)
        os.makedirs(os.path.join(d, "w"), exist_ok=True)
        p = props[pid]
        with open(os.path.join(d, "PROPERTY.txt"), "w") as f:
            f.write("%s  %s\n\nSTATEMENT\n%s\n\nQUANTIFIER\n%s\n\nWHY THE EXISTING TESTS CANNOT SETTLE IT\n%s\n\n"
                    "ANCHORS\n%s\n" % (pid, p["title"], p["statement"], p["quantifier"]["text"],
                                       p["why_tests_cant"], json.dumps(p["anchors"], indent=1)))
        with open(os.path.join(d, "TAKEN.txt"), "w") as f:
            for mp in sorted(glob.glob(os.path.join(V, "seeded", pid + "-*", "meta.json"))):
                m = json.load(open(mp))
                f.write("- %s\n  files: %s\n  what: %s\n\n"
                        % (m.get("title", ""), m.get("files", ""), (m.get("what_breaks", "") or "")[:300]))
        wt = os.path.join(d, "r")
        if not os.path.isdir(wt):
            subprocess.run("git -C /repo worktree add -q --detach %s HEAD" % wt, shell=True, check=True)
        print(pid, "ready", d)


if __name__ == "__main__":
    main()
