#!/bin/sh
# tools/run_all.sh quick|thorough [IDs...] : runs the checks one after another, prints one line each
tier=${1:-quick}; shift
ids="$@"
[ -z "$ids" ] && ids="C01 C02 C03 C04 C05 C06 C07 C08 C09 C10 C11 C12 C13 C14 C15 C16 C17 C18 C19 C20"
cd "$(dirname "$0")/.." || exit 2
rc=0
for p in $ids; do
  out=$(./check $p --tier $tier 2>&1); e=$?
  echo "$p exit=$e $(echo "$out" | tail -1 | cut -c1-230)"
  echo "$out" | grep -E "^(VIOLATION|HARNESS|KNOWN)" | cut -c1-260
  [ $e -ne 0 ] && rc=1
done
exit $rc
