#!/venv/bin/python
"""Writes seeded/INDEX.md: which check catches which independently written change."""
import glob, json, os
V = os.path.dirname(os.path.dirname(os.path.abspath(__file__)))
rows = []
for mp in sorted(glob.glob(os.path.join(V, "seeded", "*", "meta.json"))):
    m = json.load(open(mp))
    c = m.get("confirmed", {})
    rows.append((os.path.basename(os.path.dirname(mp)), m.get("title", "")[:90].replace("|", "/"),
                 (m.get("needs_to_manifest", "") or "")[:160].replace("|", "/").replace("\n", " "),
                 "yes" if c.get("suite_baseline_tests_all_pass") else "?",
                 "%s/%s" % (c.get("demo_exit_without_change"), c.get("demo_exit_with_change")),
                 "CAUGHT" if c.get("check_exit") == 1 else "missed",
                 ", ".join(c.get("check_violation_keys", [])[:2])[:150]))
with open(os.path.join(V, "seeded", "INDEX.md"), "w") as f:
    f.write("# Independently written property-breaking changes (one sub-agent per property, given only\n"
            "# the property text and a scratch worktree) and what the checks report for them\n\n"
            "Each directory holds patch.diff, demo.py (exit 0 without / 1 with the change) and meta.json "
            "(incl. `confirmed`: demo both ways, pinned suite with the change, quick check against a "
            "worktree carrying the change). Re-run: `tools/collect_seeds.py <dir>` or "
            "`tools/try_seed.py seeded/<id> [--inplace]`.\n\n"
            "| id | change | needs to manifest | suite green | demo (without/with) | quick check | first violation keys |\n"
            "|---|---|---|---|---|---|---|\n")
    for r in rows:
        f.write("| " + " | ".join(r) + " |\n")
    n = len(rows); c = sum(1 for r in rows if r[5] == "CAUGHT")
    f.write("\n%d changes, %d caught by the quick tier of the property's own check.\n" % (n, c))
print(len(rows), "rows")
