#!/venv/bin/python
"""Writes seeded/INDEX.md: which check catches which independently written change."""
import glob, json, os
V = os.path.dirname(os.path.dirname(os.path.abspath(__file__)))
rows = []
try:
    FIRST = json.load(open(os.path.join(V, "seeded", "first_pass.json")))
except Exception:
    FIRST = {}
for mp in sorted(glob.glob(os.path.join(V, "seeded", "*", "meta.json"))):
    m = json.load(open(mp))
    c = m.get("confirmed", {})
    sid = os.path.basename(os.path.dirname(mp))
    fp = FIRST.get(sid)
    rows.append((sid, m.get("title", "")[:90].replace("|", "/"),
                 (m.get("needs_to_manifest", "") or "")[:160].replace("|", "/").replace("\n", " "),
                 "yes" if c.get("suite_baseline_tests_all_pass") else "?",
                 "%s/%s" % (c.get("demo_exit_without_change"), c.get("demo_exit_with_change")),
                 {None: "-", 1: "caught", 0: "missed"}.get(fp, "missed"),
                 "moot" if m.get("moot") else "not claimed" if m.get("not_claimed") else ("CAUGHT" if c.get("check_exit") == 1 else ("caught by %s" % m["caught_by"]["check"]) if m.get("caught_by") else "missed"),
                 ", ".join(c.get("check_violation_keys", [])[:2])[:150]))
with open(os.path.join(V, "seeded", "INDEX.md"), "w") as f:
    f.write("# Independently written property-breaking changes (one sub-agent per property, given only\n"
            "# the property text and a scratch worktree) and what the checks report for them\n\n"
            "Each directory holds patch.diff, demo.py (exit 0 without / 1 with the change) and meta.json "
            "(incl. `confirmed`: demo both ways, pinned suite with the change, quick check against a "
            "worktree carrying the change). Re-run: `tools/collect_seeds.py <dir>` or "
            "`tools/try_seed.py seeded/<id> [--inplace]`.\n\n"
            "| id | change | needs to manifest | suite green | demo (without/with) | first pass (waves 2-6) | quick check now | first violation keys |\n"
            "|---|---|---|---|---|---|---|---|\n")
    for r in rows:
        f.write("| " + " | ".join(r) + " |\n")
    n = len(rows); c = sum(1 for r in rows if r[6] == "CAUGHT")
    for w in ("w2", "w3", "w4", "w5"):
        ws = [r for r in rows if "-%s-" % w in r[0]]
        if ws:
            f.write("\nwave %s: %d changes, %d caught when first collected, %d caught by the current "
                    "drivers.\n" % (w[1:], len(ws), sum(1 for r in ws if r[5] == "caught"),
                                    sum(1 for r in ws if r[6] == "CAUGHT")))
    f.write("\n%d changes, %d caught by the quick tier of the property's own check.\n" % (n, c))
print(len(rows), "rows")
