#!/venv/bin/python
"""Run the repository's pinned test suite in <dir> (default /repo) and compare the set of
passing tests with /root/.vp/BASELINE.json stable_pass.  Usage: run_suite.py [dir] [-n N]"""
import json, os, subprocess, sys, tempfile
import xml.etree.ElementTree as ET

d = sys.argv[1] if len(sys.argv) > 1 and not sys.argv[1].startswith("-") else "/repo"
n = "8"
if "-n" in sys.argv:
    n = sys.argv[sys.argv.index("-n") + 1]
base = json.load(open("/root/.vp/BASELINE.json"))
want = set(base["stable_pass"])
fd, xml = tempfile.mkstemp(suffix=".xml")
os.close(fd)
env = dict(os.environ)
env.pop("QUANTARHEI_VERIF", None)
env["PYTHONPATH"] = d
cmd = ["/venv/bin/python", "-m", "pytest", "-q", "-p", "no:cacheprovider", "--timeout=900",
       "--continue-on-collection-errors", "--junitxml=" + xml]
if n != "0":
    cmd += ["-n", n]
r = subprocess.run(cmd, cwd=d, env=env, capture_output=True, text=True)
passed = set()
for tc in ET.parse(xml).getroot().iter("testcase"):
    if not list(tc):
        passed.add("%s::%s" % (tc.get("classname"), tc.get("name")))
    elif all(c.tag in ("system-out", "system-err", "properties") for c in tc):
        passed.add("%s::%s" % (tc.get("classname"), tc.get("name")))
os.unlink(xml)
missing = sorted(want - passed)
print(r.stdout.strip().splitlines()[-1] if r.stdout.strip() else r.stderr[-500:])
print("baseline stable_pass: %d ; passing now: %d ; baseline tests not passing: %d"
      % (len(want), len(passed & want), len(missing)))
for m in missing:
    print("  MISSING", m)
sys.exit(1 if missing else 0)
