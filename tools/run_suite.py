#!/venv/bin/python
"""Run the repository's pinned test suite in <dir> (default /repo) and compare the set of
passing tests with /root/.vp/BASELINE.json stable_pass.  Usage: run_suite.py [dir] [-n N]"""
import json, os, subprocess, sys, tempfile
import xml.etree.ElementTree as ET

d = sys.argv[1] if len(sys.argv) > 1 and not sys.argv[1].startswith("-") else "/repo"
n = "8"
if "-n" in sys.argv:
    n = sys.argv[sys.argv.index("-n") + 1]
base = json.load(open("/root/.vp/BASELINE.json"))
want = set(base["stable_pass"])
fd, xml = tempfile.mkstemp(suffix=".xml")
os.close(fd)
env = dict(os.environ)
env.pop("QUANTARHEI_VERIF", None)
env["PYTHONPATH"] = d
cmd = ["/venv/bin/python", "-m", "pytest", "-q", "-p", "no:cacheprovider", "--timeout=900",
       "--continue-on-collection-errors", "--junitxml=" + xml,
       "--basetemp=" + tempfile.mkdtemp(prefix="suite_bt_")]
if os.path.realpath(d) != "/repo":
    # In a scratch worktree the whole-tree collection imports the package `tests` of /repo (the
    # editable install puts /repo on sys.path and docs/ + examples/ are collected first), which
    # makes pytest refuse the worktree's test files.  Run exactly the files that hold the
    # baseline's stable tests instead; ids are rootdir-relative and stay the same.
    files = set()
    for tid in want:
        parts = tid.split("::")[0].split(".")
        for k in range(len(parts), 0, -1):
            p = os.path.join(d, *parts[:k]) + ".py"
            if os.path.exists(p):
                files.add(os.path.join(*parts[:k]) + ".py")
                break
    cmd += sorted(files)
if n != "0":
    cmd += ["-n", n]
r = subprocess.run(cmd, cwd=d, env=env, capture_output=True, text=True)
passed = set()
for tc in ET.parse(xml).getroot().iter("testcase"):
    if not list(tc):
        passed.add("%s::%s" % (tc.get("classname"), tc.get("name")))
    elif all(c.tag in ("system-out", "system-err", "properties") for c in tc):
        passed.add("%s::%s" % (tc.get("classname"), tc.get("name")))
os.unlink(xml)
# examples/symbolic/test_symbolic_7.py writes a scratch file "jeff" into the working directory
junk = os.path.join(d, "jeff")
if os.path.exists(junk) and subprocess.run(["git", "-C", d, "ls-files", "--error-unmatch", "jeff"],
                                           capture_output=True).returncode != 0:
    os.unlink(junk)
missing = sorted(want - passed)
print(r.stdout.strip().splitlines()[-1] if r.stdout.strip() else r.stderr[-500:])
print("baseline stable_pass: %d ; passing now: %d ; baseline tests not passing: %d"
      % (len(want), len(passed & want), len(missing)))
for m in missing:
    print("  MISSING", m)
sys.exit(1 if missing else 0)
