#!/venv/bin/python
"""Markdown table of the seeded changes that were missed when first collected (first_pass.json)
and the key that reports them with the current drivers (meta.json, written by recheck_seeds.py).
usage: tools/missed_table.py w4 w5 > file"""
import json
import os
import sys

V = os.path.dirname(os.path.dirname(os.path.abspath(__file__)))
fp = json.load(open(os.path.join(V, "seeded", "first_pass.json")))
waves = sys.argv[1:] or ["w4", "w5"]
print("| change | what it does | what it needs to manifest | first key now |")
print("|---|---|---|---|")
for sid in sorted(fp):
    if fp[sid] == 1 or not any("-%s-" % w in sid for w in waves):
        continue
    mp = os.path.join(V, "seeded", sid, "meta.json")
    if not os.path.exists(mp):
        continue
    m = json.load(open(mp))
    c = m.get("confirmed", {})
    if isinstance(c, str):
        c = {}
    if m.get("moot"):
        key = "(moot)"
    elif m.get("not_claimed"):
        key = "(not claimed, §7.5)"
    elif m.get("caught_by"):
        key = "(by the check of %s: `%s`)" % (m["caught_by"]["check"], m["caught_by"]["keys"][0])
    else:
        keys = c.get("check_violation_keys") or c.get("keys") or c.get("check_keys") or []
        key = "`%s`" % keys[0] if keys and c.get("check_exit") == 1 else "MISSED"
    def cl(s, n):
        return " ".join(str(s).replace("|", "/").split())[:n]
    print("| %s | %s | %s | %s |" % (sid, cl(m.get("title", ""), 120),
                                    cl(m.get("needs_to_manifest", ""), 140), key))
