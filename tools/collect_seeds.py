#!/venv/bin/python
"""Confirm and collect seeded changes written by independent sub-agents.

  tools/collect_seeds.py /tmp/seed/C17/out/1 [...]

For each directory (patch.diff, demo.py, meta.json): scratch worktree of /repo HEAD, demo without
the change (must exit 0), apply, demo with the change (must exit != 0), the repository's pinned
suite with the change (all baseline tests must pass), the property's quick check against the
worktree.  Kept changes are copied to /verif/seeded/<PID>-<name>/ with the confirmation
recorded in meta.json ("confirmed": {...}).  The worktree is removed afterwards."""
import json
import os
import shutil
import subprocess
import sys
import tempfile

V = os.path.dirname(os.path.dirname(os.path.abspath(__file__)))


def sh(cmd, cwd=None, env=None, timeout=7200):
    r = subprocess.run(cmd, shell=True, cwd=cwd, env=env, capture_output=True, text=True,
                       timeout=timeout)
    return r.returncode, r.stdout + r.stderr


def one(d, nosuite=False):
    d = os.path.abspath(d)
    meta = json.load(open(os.path.join(d, "meta.json")))
    pid = meta["property"]
    import re
    mw = re.search(r"/seed(\d+)/", d)
    wave = ("w%s-" % mw.group(1)) if mw and mw.group(1) != "1" else ""
    if not mw and "/seed/" not in d:
        raise SystemExit("cannot tell the wave of %s" % d)
    name = "%s-%s%s" % (pid, wave, os.path.basename(d))
    dest = os.path.join(V, "seeded", name)
    tmp = tempfile.mkdtemp(prefix="collect_")
    wt = os.path.join(tmp, "r")
    env = dict(os.environ, OMP_NUM_THREADS="1", PYTHONWARNINGS="ignore", MPLBACKEND="Agg")
    conf = {"repo_head": sh("git -C /repo rev-parse --short HEAD")[1].strip()}
    try:
        sh("git -C /repo worktree add -q --detach %s HEAD" % wt)
        e2 = dict(env, PYTHONPATH=wt)
        rc0, o0 = sh("/venv/bin/python %s" % os.path.join(d, "demo.py"), cwd=tmp, env=e2, timeout=900)
        conf["demo_exit_without_change"] = rc0
        rc, o = sh("git -C %s apply %s" % (wt, os.path.join(d, "patch.diff")))
        conf["patch_applies"] = (rc == 0)
        if rc:
            print(name, "patch does not apply", o[-300:])
            return
        rc1, o1 = sh("/venv/bin/python %s" % os.path.join(d, "demo.py"), cwd=tmp, env=e2, timeout=900)
        conf["demo_exit_with_change"] = rc1
        conf["demo_output_with_change"] = o1.strip().splitlines()[-2:]
        if not nosuite:
            rc, o = sh("%s/tools/run_suite.py %s -n 8" % (V, wt), env=env)
            conf["suite_cmd"] = "tools/run_suite.py <worktree> -n 8  (pinned baseline command + xdist)"
            conf["suite_baseline_tests_all_pass"] = (rc == 0)
            conf["suite_tail"] = o.strip().splitlines()[-2:]
        rc, o = sh("./check %s --tier quick" % pid, cwd=V, env=dict(env, VERIF_REPO=wt))
        conf["check_cmd"] = "VERIF_REPO=<worktree> ./check %s --tier quick" % pid
        conf["check_exit"] = rc
        conf["check_violation_keys"] = sorted(set(
            l.split("key=")[1].split(" ")[0] for l in o.splitlines()
            if l.startswith("VIOLATION") and "key=" in l))[:12]
        ok = (rc0 == 0 and rc1 != 0 and conf.get("suite_baseline_tests_all_pass", True))
        conf["kept"] = ok
        print("%-12s demo %s/%s suite_ok=%s check_exit=%s keys=%s"
              % (name, rc0, rc1, conf.get("suite_baseline_tests_all_pass"), conf["check_exit"],
                 conf["check_violation_keys"][:2]))
        sys.stdout.flush()
        if ok:
            os.makedirs(dest, exist_ok=True)
            shutil.copy(os.path.join(d, "patch.diff"), dest)
            shutil.copy(os.path.join(d, "demo.py"), dest)
            meta["confirmed"] = conf
            meta["detected_by"] = ("./check %s" % pid) if conf["check_exit"] == 1 else None
            json.dump(meta, open(os.path.join(dest, "meta.json"), "w"), indent=1)
    finally:
        sh("git -C /repo worktree remove --force %s" % wt)
        shutil.rmtree(tmp, ignore_errors=True)


if __name__ == "__main__":
    nosuite = "--nosuite" in sys.argv
    for d in sys.argv[1:]:
        if d.startswith("--"):
            continue
        try:
            one(d, nosuite)
        except Exception as e:
            print(d, "ERROR", e)
