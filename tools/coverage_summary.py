#!/venv/bin/python
"""Writes /verif/COVERAGE.md from the evidence files the checks wrote themselves: what each
property's last run explored (rule, bounds, sections, counts, caps) and under which assumptions.
Run after `tools/run_all.sh <tier>`."""
import glob
import json
import os

V = os.path.dirname(os.path.dirname(os.path.abspath(__file__)))
props = {}
for l in open(os.path.join(V, "properties.jsonl")):
    p = json.loads(l)
    props[p["id"]] = p["title"]
out = ["# What the last run of every check covered (generated from evidence/*.json by "
       "tools/coverage_summary.py)\n"]
files = []
for tier in ("quick", "thorough"):
    files += sorted(glob.glob(os.path.join(V, "evidence_by_tier", tier, "C*.json")))
if not files:
    files = sorted(glob.glob(os.path.join(V, "evidence", "C*.json")))
files.sort(key=lambda f: (os.path.basename(f), "thorough" in f))
for f in files:
    e = json.load(open(f))
    c = e["coverage"]
    pid = e["property_id"]
    out.append("## %s  %s\n" % (pid, props.get(pid, "")))
    out.append("* tier `%s`, seed %s, wall %.0f s, violations %s, tree %s" % (
        e["tier"], e["seed"], e["wall_s"], e["violations"], c.get("tree", {}).get("rev", "?")))
    line = "* evaluations %s, distinct non-trivial cases %s, distinct observed outcomes %s" % (
        c["evaluations"], c["distinct_nontrivial"], c.get("distinct_outcomes"))
    if c.get("states"):
        line += ", states %s, transitions %s" % (c["states"], c["transitions"])
    line += ", exhaustive within the stated bounds: %s" % c["exhaustive"]
    out.append(line)
    if c.get("caps_hit"):
        out.append("* caps hit: " + "; ".join(str(x) for x in c["caps_hit"]))
    out.append("* rule: " + " ".join(str(c.get("rule", "")).split()))
    if c.get("sections"):
        out.append("* sections: " + ", ".join("%s (%s)" % (k, v.get("evaluations"))
                                              for k, v in sorted(c["sections"].items())))
    b = c.get("bounds")
    if b:
        s = json.dumps(b, sort_keys=True)
        out.append("* bounds: `%s`" % (s if len(s) < 1500 else s[:1500] + " ..."))
    if c.get("known_findings_matched"):
        out.append("* known findings matched: %s" % c["known_findings_matched"])
    for a in e.get("assumptions", []):
        out.append("* assumption: " + " ".join(str(a).split()))
    out.append("")
open(os.path.join(V, "COVERAGE.md"), "w").write("\n".join(out) + "\n")
print("COVERAGE.md written for", len(out), "lines")
