#!/venv/bin/python
"""Re-run the quick check of every kept seeded change against the CURRENT drivers and /repo HEAD.

  tools/recheck_seeds.py [-j N] [seeded/<id> ...]      (default: all, N = 4)

For each directory under /verif/seeded: scratch worktree of /repo HEAD (outside /repo and
/verif), apply patch.diff (a change that no longer applies is reported, meta untouched), run
`VERIF_REPO=<worktree> ./check <PID> --tier quick`, update meta.json["confirmed"]
(check_exit, check_violation_keys, repo_head, rechecked) and "detected_by"; remove the worktree.
The demo and the suite are not repeated (collect_seeds.py did that when the change was kept)."""
import concurrent.futures
import glob
import json
import os
import shutil
import subprocess
import sys
import tempfile

V = os.path.dirname(os.path.dirname(os.path.abspath(__file__)))


def sh(cmd, cwd=None, env=None, timeout=3600):
    r = subprocess.run(cmd, shell=True, cwd=cwd, env=env, capture_output=True, text=True,
                       timeout=timeout)
    return r.returncode, r.stdout + r.stderr


def one(d):
    d = os.path.abspath(d)
    name = os.path.basename(d)
    mp = os.path.join(d, "meta.json")
    meta = json.load(open(mp))
    pid = meta["property"]
    tmp = tempfile.mkdtemp(prefix="recheck_")
    wt = os.path.join(tmp, "r")
    env = dict(os.environ, OMP_NUM_THREADS="1", PYTHONWARNINGS="ignore", MPLBACKEND="Agg",
               VERIF_WORKERS="4")
    try:
        sh("git -C /repo worktree add -q --detach %s HEAD" % wt)
        rc, o = sh("git -C %s apply %s" % (wt, os.path.join(d, "patch.diff")))
        if rc:
            return name, "patch-does-not-apply", []
        rc, o = sh("./check %s --tier quick" % pid, cwd=V, env=dict(env, VERIF_REPO=wt))
        keys = sorted(set(l.split("key=")[1].split(" ")[0] for l in o.splitlines()
                          if l.startswith("VIOLATION") and "key=" in l))[:12]
        conf = meta.setdefault("confirmed", {})
        conf["check_exit"] = rc
        conf["check_violation_keys"] = keys
        conf["rechecked_at_repo_head"] = sh("git -C /repo rev-parse --short HEAD")[1].strip()
        conf["rechecked_at_verif_head"] = sh("git -C %s rev-parse --short HEAD" % V)[1].strip()
        meta["detected_by"] = ("./check %s" % pid) if rc == 1 else None
        json.dump(meta, open(mp, "w"), indent=1)
        return name, rc, keys[:2]
    finally:
        sh("git -C /repo worktree remove --force %s" % wt)
        shutil.rmtree(tmp, ignore_errors=True)


if __name__ == "__main__":
    args = sys.argv[1:]
    j = 4
    if "-j" in args:
        j = int(args[args.index("-j") + 1])
        del args[args.index("-j"):args.index("-j") + 2]
    dirs = args or sorted(os.path.dirname(p) for p in
                          glob.glob(os.path.join(V, "seeded", "*", "meta.json")))
    bad = 0
    with concurrent.futures.ThreadPoolExecutor(j) as ex:
        for name, rc, keys in ex.map(one, dirs):
            print("%-12s check_exit=%s %s" % (name, rc, keys))
            sys.stdout.flush()
            bad += (rc != 1)
    print("%d changes, %d not detected" % (len(dirs), bad))
