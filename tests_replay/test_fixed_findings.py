"""Plain unit tests replaying, without the explorer, the smallest witness of every genuine
defect the checks found (all repaired by `fix:` commits in /repo; see known_findings.json).
Run:  cd /verif && /venv/bin/python -m pytest -q -p no:cacheprovider tests_replay
Each test fails on the tree before the corresponding fix and passes after it.
"""
import numpy
import pytest
import scipy.linalg

import quantarhei as qr
from quantarhei.core.managers import Manager


@pytest.fixture(autouse=True)
def _pristine():
    m = Manager()
    m.basis_stack = [0]
    m.basis_transformations = [1]
    m.basis_registered = {}
    m._in_eigenbasis_of_context = False
    m._in_energy_units_context = False
    m._in_eu_count = 0
    m.current_units["energy"] = "1/fs"
    yield


class _Cfg:
    def __init__(self, size, rank):
        self.size, self.rank = size, rank


def test_c20_range_start():
    from quantarhei.core.parallel import _calculate_ranges
    blocks = [_calculate_ranges(_Cfg(2, r), -3, -2) for r in range(2)]
    got = [i for lo, hi in blocks for i in range(lo, hi)]
    assert got == [-3]


def test_c13_odd_complete_axis_roundtrip():
    t = qr.TimeAxis(-1.0, 3, 1.0, atype="complete")
    y = numpy.array([1.0, 0.0, 0.0], dtype=complex)
    f = qr.DFunction(t, y.copy())
    F = f.get_Fourier_transform()
    ref = numpy.exp(1j * F.axis.data * t.data[0]) * 1.0
    assert numpy.allclose(F.data, ref)
    assert numpy.allclose(F.get_inverse_Fourier_transform().data, y)


def test_c13_roundtrip_inside_units_context():
    t = qr.TimeAxis(0.0, 8, 1.0)
    f = qr.DFunction(t, numpy.arange(8) * (1 + 1j))
    with qr.energy_units("1/cm"):
        g = f.get_Fourier_transform().get_inverse_Fourier_transform()
    assert numpy.allclose(g.data, f.data)


def test_c12_pathway_constructs():
    from quantarhei.spectroscopy.diagramatics import liouville_pathway
    liouville_pathway("R", 0, aggregate=_dimer(), order=3, pname="R1g")


def _twod():
    o = qr.TwoDResponse()
    o.set_axis_1(qr.FrequencyAxis(0.0, 2, 1.0))
    o.set_axis_3(qr.FrequencyAxis(0.0, 2, 1.0))
    return o


def test_c19_type_into_pathways_not_double_counted():
    A = numpy.array([[1, 2], [3, 5]], dtype=complex)
    o = _twod()
    o._add_data(A, resolution="pathways", dtype="R1g", tag="p1")
    try:
        o._add_data(A, resolution="types", dtype="R1g")
        n = 2
    except Exception:
        n = 1
    o.set_data_flag(qr.signal_TOTL)
    assert numpy.array_equal(o.d__data, n * A)


def test_c19_unknown_resolution_leaves_object_usable():
    A = numpy.ones((2, 2), dtype=complex)
    o = _twod()
    with pytest.raises(Exception):
        o._add_data(A, resolution="bogus", dtype="R1g")
    o._add_data(A, resolution="pathways", dtype="R1g", tag="p1")


def test_c04_nested_context_keeps_outer_operator():
    X = qr.qm.SelfAdjointOperator(data=numpy.array([[0.0, 1.0], [1.0, 1.0]]))
    with qr.eigenbasis_of(X):
        with qr.eigenbasis_of(X):
            pass
        assert Manager().current_basis_operator is X


def test_c04_apply_result_restored():
    X = qr.qm.SelfAdjointOperator(data=numpy.array([[0.0, 1, 0], [1, 1, 0.5], [0, 0.5, 3]]))
    R = numpy.cos(numpy.arange(81.0)).reshape(3, 3, 3, 3)
    V = numpy.array([[1, 2, 0], [0.5, -1, 3], [0, 0, 2.0]])
    with qr.eigenbasis_of(X):
        S = numpy.array(Manager().basis_transformations[-1])
        op = qr.qm.Operator(data=V.copy())
        sup = qr.qm.SuperOperator(data=R.copy())
        res = sup.apply(op)
        inside = numpy.array(res.data)
    assert res.get_current_basis() == 0
    assert numpy.allclose(res.data, S @ inside @ S.T)


def _dimer(build=True):
    with qr.energy_units("1/cm"):
        ms = [qr.Molecule(elenergies=[0.0, e]) for e in (12000.0, 12200.0)]
    agg = qr.Aggregate(molecules=ms)
    with qr.energy_units("1/cm"):
        agg.set_resonance_coupling(0, 1, 80.0)
    if build:
        agg.build()
    return agg


def test_c05_build_leaves_units_alone():
    agg = _dimer(build=False)
    with qr.energy_units("1/cm"):
        agg.build()
        assert Manager().get_current_units("energy") == "1/cm"
    assert Manager().get_current_units("energy") == "1/fs"


def _cf(ta, ftype, reorg, tau, T=300.0):
    with qr.energy_units("1/cm"):
        return qr.CorrelationFunction(ta, dict(ftype=ftype, reorg=reorg, cortime=tau, T=T))


def test_c09_mixed_types_grouped_left():
    ta = qr.TimeAxis(0.0, 200, 1.0)
    a = _cf(ta, "OverdampedBrownian", 20.0, 50.0)
    b = _cf(ta, "OverdampedBrownian-HighTemperature", 35.0, 100.0)
    c = _cf(ta, "OverdampedBrownian", 10.0, 30.0)
    s = (a + b) + c
    assert numpy.allclose(s.data, a.data + b.data + c.data, rtol=0, atol=1e-12)


def test_c09_refused_inplace_addition_leaves_operand():
    ta = qr.TimeAxis(0.0, 200, 1.0)
    a = _cf(ta, "OverdampedBrownian", 20.0, 50.0)
    d = _cf(ta, "OverdampedBrownian", 20.0, 50.0, T=77.0)
    before = a.data.copy()
    with pytest.raises(Exception):
        a += d
    assert numpy.array_equal(a.data, before)


def test_c09_spectral_density_sum_in_units_context():
    ta = qr.TimeAxis(0.0, 200, 1.0)
    with qr.energy_units("1/cm"):
        a = qr.SpectralDensity(ta, dict(ftype="OverdampedBrownian", reorg=20.0, cortime=50.0,
                                        T=300.0))
        s = a + a
        lam = s.get_reorganization_energy()
    assert abs(lam - 40.0) < 1e-6


def test_c17_defective_rate_matrix():
    from quantarhei.qm.propagators.poppropagator import PopulationPropagator
    k = 0.02
    K = numpy.array([[-k, 0, 0], [k, -k, 0], [0, k, 0]])
    ta = qr.TimeAxis(0.0, 20, 1.0)
    U = PopulationPropagator(ta, qr.qm.RateMatrix(data=K.copy())).get_PropagationMatrix(ta)
    assert numpy.allclose(U[:, :, 10], scipy.linalg.expm(K * 10.0), atol=1e-9)


def _dimer_with_bath(ta):
    with qr.energy_units("1/cm"):
        cf = qr.CorrelationFunction(ta, dict(ftype="OverdampedBrownian", reorg=30.0,
                                             cortime=60.0, T=300.0))
        ms = [qr.Molecule(elenergies=[0.0, e]) for e in (12000.0, 12200.0)]
    for m in ms:
        m.set_transition_environment((0, 1), cf)
    agg = qr.Aggregate(molecules=ms)
    with qr.energy_units("1/cm"):
        agg.set_resonance_coupling(0, 1, 80.0)
    agg.build()
    return agg


def test_c15_heom_second_run_equals_first():
    ta = qr.TimeAxis(0.0, 40, 2.0)
    agg = _dimer_with_bath(ta)
    prop = agg.get_KTHierarchyPropagator(depth=2)
    rho = qr.ReducedDensityMatrix(dim=3)
    rho.data[2, 2] = 1.0
    r1 = prop.propagate(rho).data.copy()
    r2 = prop.propagate(rho).data.copy()
    assert numpy.allclose(r1, r2, atol=1e-12)


def test_c14_low_temperature_strong_coupling_finite():
    with qr.energy_units("1/cm"):
        m = qr.Molecule(elenergies=[0.0, 10000.0])
    agg = qr.Aggregate(molecules=[m])
    agg.build()
    H = agg.get_Hamiltonian()
    rho = agg.get_DensityMatrix(condition_type="thermal_excited_state",
                                relaxation_theory_limit="strong_coupling",
                                temperature=1e-3, relaxation_hamiltonian=H)
    assert numpy.all(numpy.isfinite(rho.data))
    assert abs(numpy.trace(rho.data) - 1.0) < 1e-12


def test_c14_weak_coupling_state_outside_equals_inside():
    agg = _dimer()
    H = agg.get_Hamiltonian()
    out = agg.get_DensityMatrix(condition_type="thermal_excited_state", temperature=300.0)
    with qr.eigenbasis_of(H):
        inside = agg.get_DensityMatrix(condition_type="thermal_excited_state", temperature=300.0)
    assert numpy.allclose(out.data, inside.data, atol=1e-12)


def test_c14_strong_coupling_state_inside_equals_outside():
    agg = _dimer()
    H = agg.get_Hamiltonian()
    kw = dict(condition_type="thermal_excited_state", relaxation_theory_limit="strong_coupling",
              temperature=300.0, relaxation_hamiltonian=H)
    out = agg.get_DensityMatrix(**kw)
    with qr.eigenbasis_of(H):
        inside = agg.get_DensityMatrix(**kw)
    assert numpy.allclose(out.data, inside.data, atol=1e-12)


# ---- later repairs --------------------------------------------------------------------------
def test_c08_locate_own_points():
    t = qr.TimeAxis(0.0, 4, 0.7)
    for i, x in enumerate(t.data):
        n, d = t.locate(x)
        assert n == i and abs(d) < 1e-12


def test_c17_is_subset_of_inexact_step():
    big = qr.TimeAxis(0.0, 440, 0.1)
    sub = qr.TimeAxis(0.0, 10, 4.3)
    assert sub.is_subset_of(big)


def test_c04_evolution_superoperator_at_owns_its_data():
    time = qr.TimeAxis(0.0, 3, 1.0)
    h = numpy.array([[0.0, 0.3], [0.3, 1.0]])
    ham = qr.Hamiltonian(data=h)
    U = qr.qm.EvolutionSuperOperator(time, ham)
    U.calculate()
    before = numpy.array(U.data, copy=True)
    K = qr.Hamiltonian(data=numpy.array([[0.0, 1.0], [1.0, 0.5]]))
    with qr.eigenbasis_of(K):
        s = U.at(1.0)
        _ = s.data
        _ = U.data
    assert numpy.allclose(U.data, before, atol=1e-12)


def test_c04_evolution_superoperator_apply_copy_restored():
    time = qr.TimeAxis(0.0, 3, 1.0)
    ham = qr.Hamiltonian(data=numpy.array([[0.0, 0.3], [0.3, 1.0]]))
    U = qr.qm.EvolutionSuperOperator(time, ham)
    U.calculate()
    rho = qr.ReducedDensityMatrix(data=numpy.array([[0.7, 0.2], [0.2, 0.3]], dtype=complex))
    ref = U.apply(0.0, rho)
    K = qr.Hamiltonian(data=numpy.array([[0.0, 1.0], [1.0, 0.5]]))
    with qr.eigenbasis_of(K):
        _ = rho.data
        out = U.apply(0.0, rho)
    assert out.get_current_basis() == 0
    assert numpy.allclose(out.data, ref.data, atol=1e-12)


def test_c01_foerster_pure_dephasing_hermiticity():
    from quantarhei.qm.liouvillespace.foerstertensor import FoersterRelaxationTensor
    ta = qr.TimeAxis(0.0, 500, 1.0)
    with qr.energy_units("1/cm"):
        ms = []
        for e in (12000.0, 12150.0, 12300.0):
            m = qr.Molecule(elenergies=[0.0, e])
            cf = qr.CorrelationFunction(ta, dict(ftype="OverdampedBrownian", reorg=30.0,
                                                 cortime=60.0, T=300.0, matsubara=20))
            m.set_transition_environment((0, 1), cf)
            ms.append(m)
        agg = qr.Aggregate(molecules=ms)
        agg.set_resonance_coupling(0, 1, 40.0)
        agg.set_resonance_coupling(1, 2, -25.0)
    agg.build()
    ham = agg.get_Hamiltonian()
    sbi = agg.get_SystemBathInteraction()
    ham.protect_basis()
    try:
        RT = FoersterRelaxationTensor(ham, sbi, pure_dephasing=True)
    finally:
        ham.unprotect_basis()
    R = numpy.array(RT.data)
    n = R.shape[0]
    for a in range(n):
        for b in range(n):
            assert abs(numpy.conj(R[a, b, a, b]) - R[b, a, b, a]) < 1e-12 * max(1.0, abs(R).max())


_Z = numpy.array([[0.0, 1.0, 0.5j], [1.0, 1.0, 0.3 + 0.2j], [-0.5j, 0.3 - 0.2j, 2.0]])


def test_c04_real_storage_in_complex_eigenbasis():
    from quantarhei.qm import TransitionDipoleMoment
    from quantarhei.qm.hilbertspace.operators import SelfAdjointOperator
    d = numpy.zeros((3, 3, 3))
    d[0, 1, :] = d[1, 0, :] = [1.0, 0.2, 0.0]
    d[0, 2, :] = d[2, 0, :] = [0.3, -0.5, 0.7]
    D = TransitionDipoleMoment(data=d.copy())
    with qr.eigenbasis_of(SelfAdjointOperator(data=_Z.copy())):
        _ = D.data
    assert numpy.allclose(D.data, d, atol=1e-12)


def test_c04_rank4_transform_in_complex_eigenbasis():
    from quantarhei.qm import SuperOperator, Operator
    from quantarhei.qm.hilbertspace.operators import SelfAdjointOperator
    rng = numpy.arange(81, dtype=float).reshape(3, 3, 3, 3)
    R = numpy.cos(rng * 0.37) + 1j * numpy.sin(rng * 0.11)
    B = numpy.array([[1, 2 + 1j, 0], [0.5, -1, 3], [1j, 0, 2]], dtype=complex)
    sup, op = SuperOperator(data=R.copy()), Operator(data=B.copy())
    ref = numpy.tensordot(R, B)
    with qr.eigenbasis_of(SelfAdjointOperator(data=_Z.copy())):
        out = Operator(data=numpy.tensordot(sup.data, op.data))
    assert numpy.allclose(out.data, ref, atol=1e-10)


def test_c04_operator_form_apply_in_complex_eigenbasis():
    from quantarhei.qm import LindbladForm, SystemBathInteraction, Operator
    from quantarhei.qm.hilbertspace.operators import SelfAdjointOperator
    hh = qr.Hamiltonian(data=numpy.array([[0.0, 0.2, 0.0], [0.2, 1.0, -0.3], [0.0, -0.3, 1.5]]))
    k1 = numpy.zeros((3, 3)); k1[0, 1] = 1.0
    k2 = numpy.zeros((3, 3)); k2[2, 1] = 1.0; k2[1, 1] = 0.5
    sbi = SystemBathInteraction([Operator(data=k1), Operator(data=k2)], rates=[0.3, 0.7])
    L = LindbladForm(hh, sbi, as_operators=True)
    r = numpy.array([[0.5, 0.1 + 0.2j, 0], [0.1 - 0.2j, 0.3, 0.05j], [0, -0.05j, 0.2]])
    rho = qr.ReducedDensityMatrix(data=r.copy())
    ref = numpy.array(L.apply(rho).data)
    with qr.eigenbasis_of(SelfAdjointOperator(data=_Z.copy())):
        out = L.apply(rho)
    assert numpy.allclose(out.data, ref, atol=1e-10)


def test_c04_two_lindblad_forms_from_one_sbi():
    from quantarhei.qm import LindbladForm, SystemBathInteraction, Operator
    hh = qr.Hamiltonian(data=numpy.array([[0.0, 0.2, 0.0], [0.2, 1.0, -0.3], [0.0, -0.3, 1.5]]))
    k1 = numpy.zeros((3, 3)); k1[0, 1] = 1.0
    k2 = numpy.zeros((3, 3)); k2[2, 1] = 1.0; k2[1, 1] = 0.5
    sbi = SystemBathInteraction([Operator(data=k1), Operator(data=k2)], rates=[0.3, 0.7])
    L1 = LindbladForm(hh, sbi, as_operators=True)
    L2 = LindbladForm(hh, sbi, as_operators=True)
    r = numpy.array([[0.5, 0.1 + 0.2j, 0], [0.1 - 0.2j, 0.3, 0.05j], [0, -0.05j, 0.2]])
    rho = qr.ReducedDensityMatrix(data=r.copy())
    ref = numpy.array(L1.apply(rho).data)
    with qr.eigenbasis_of(hh):
        a, b = L1.apply(rho), L2.apply(rho)
    assert numpy.allclose(a.data, ref, atol=1e-12) and numpy.allclose(b.data, ref, atol=1e-12)


def test_c05_state_energy_under_wavelength_units():
    """ccd1284: the energy of a vibronic state is converted as a total."""
    with qr.energy_units("1/cm"):
        m = qr.Molecule(elenergies=[0.0, 9000.0])
        m.add_Mode(qr.Mode(frequency=1000.0))
    es = qr.Aggregate(molecules=[m]).get_ElectronicState((1,), index=1)
    with qr.energy_units("nm"):
        assert abs(es.energy((1,)) - 1000.0) < 1e-6
        assert abs(es.vibenergy((2,)) - 5000.0) < 1e-6
    with qr.energy_units("1/cm"):
        assert abs(es.energy((1,)) - 10000.0) < 1e-6


def test_c04_failed_nested_enter_leaves_bookkeeping_alone():
    """fbdd6f4: __enter__ that raises does not change the manager's records."""
    from quantarhei.qm import SelfAdjointOperator
    A = SelfAdjointOperator(data=numpy.array([[0.0, 0.2, 0.0], [0.2, 1.0, -0.3], [0.0, -0.3, 1.5]]))
    bad = SelfAdjointOperator(data=numpy.array([[1.0, 0.3], [0.3, -2.0]]))
    m = Manager()
    with qr.eigenbasis_of(A):
        with pytest.raises(Exception):
            qr.eigenbasis_of(bad).__enter__()
        assert m.current_basis_operator is A
        assert m.basis_stack == [0, 1]
    assert m._in_eigenbasis_of_context is False
