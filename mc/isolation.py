"""Process/Manager isolation helpers.

Everything here runs against /repo's *current working tree*: quantarhei is an
editable install of pure Python, so importing it imports the tree as it is now.
"""
import os

for _v in ("OMP_NUM_THREADS", "OPENBLAS_NUM_THREADS", "MKL_NUM_THREADS",
           "NUMEXPR_NUM_THREADS"):
    os.environ.setdefault(_v, "1")
os.environ.setdefault("MPLBACKEND", "Agg")
# guard for (currently non-existent) source hooks, see MANIFEST.hooks
os.environ.setdefault("QUANTARHEI_VERIF", "1")

import contextlib
import io
import sys
import warnings

warnings.simplefilter("ignore")

_QR = None


class HarnessError(Exception):
    """Raised when the harness itself (not the property) is broken."""


def qr():
    """Import quantarhei (silently) and return the module."""
    global _QR
    if _QR is None:
        with quiet():
            import quantarhei
        _QR = quantarhei
        _pristine()
    return _QR


_PRISTINE = None


def _pristine():
    global _PRISTINE
    if _PRISTINE is None:
        from quantarhei.core.managers import Manager
        m = Manager()
        _PRISTINE = dict(m.current_units)
    return _PRISTINE


@contextlib.contextmanager
def quiet():
    """Capture stdout/stderr of the library (it prints progress messages)."""
    out, err = sys.stdout, sys.stderr
    buf = io.StringIO()
    sys.stdout, sys.stderr = buf, buf
    try:
        with warnings.catch_warnings():
            warnings.simplefilter("ignore")
            yield buf
    finally:
        sys.stdout, sys.stderr = out, err


def reset_manager():
    """Bring the Manager singleton back to its pristine state.

    Written from outside: only plain attributes of the singleton are assigned.
    """
    qr()
    from quantarhei.core.managers import Manager
    m = Manager()
    m.basis_stack = [0]
    m.basis_transformations = [1]
    m.basis_registered = {}
    m.current_basis_operator = None
    m._in_eigenbasis_of_context = False
    m._in_eb_count = 0
    m._in_energy_units_context = False
    m._in_eu_count = 0
    m._enforce_contexts = True
    m.current_units = dict(_pristine())
    m._saved_units = {}
    m.warn_about_basis_change = False
    m.warn_about_basis_changing_objects = False
    return m


def fingerprint():
    """Hashable summary of the Manager's bookkeeping."""
    from quantarhei.core.managers import Manager
    m = Manager()
    return (tuple(m.basis_stack), len(m.basis_transformations),
            tuple(sorted((k, len(v)) for k, v in m.basis_registered.items())),
            bool(m._in_eigenbasis_of_context), bool(m._in_energy_units_context),
            int(m._in_eu_count),
            tuple(sorted(m.current_units.items())))


PRISTINE_FP = None


def assert_pristine():
    global PRISTINE_FP
    fp = fingerprint()
    if PRISTINE_FP is None:
        reset_manager()
        PRISTINE_FP = fingerprint()
        fp = PRISTINE_FP
    if fp != PRISTINE_FP:
        raise HarnessError("Manager reset failed: %r != %r" % (fp, PRISTINE_FP))


def reset_units():
    """Restore pristine current units (harness-side isolation from C05 leaks)."""
    from quantarhei.core.managers import Manager
    m = Manager()
    m.current_units = dict(_pristine())
    m._in_energy_units_context = False
    m._in_eu_count = 0
