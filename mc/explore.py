"""Exhaustive engines: E-grid (full products), E-bfs (explicit-state search over
operation histories of real objects) and fault enumeration helpers."""
import itertools
import multiprocessing as mp
import os
import time
import traceback

from . import isolation
from .evidence import h, jsonable

NWORKERS = {"quick": int(os.environ.get("VERIF_WORKERS_QUICK", "4")),
            "thorough": int(os.environ.get("VERIF_WORKERS", "16"))}


def product(domains, constraint=None):
    """Full Cartesian product of named finite domains, as a list of dicts.

    Domains are given simplest-first; the product is ordered so that the sum of
    the domain indices increases (smallest cases first)."""
    names = list(domains)
    idx = [range(len(domains[n])) for n in names]
    pts = []
    for combo in itertools.product(*idx):
        c = {n: domains[n][i] for n, i in zip(names, combo)}
        if constraint is None or constraint(c):
            pts.append((sum(combo), combo, c))
    pts.sort(key=lambda t: (t[0], t[1]))
    return [p[2] for p in pts]


def rotate(cases, seed):
    """VERIF_SEED only rotates enumeration order inside equal-size groups; the
    explored set of a completed bound does not depend on it."""
    if not cases or not seed:
        return cases
    k = seed % len(cases)
    return cases[k:] + cases[:k]


_EVALF = None


def _call(case):
    """Run one case in a worker; never lets an exception escape unreported."""
    try:
        isolation.reset_manager()
        with isolation.quiet():
            res = _EVALF(case)
        if res is None:
            res = {}
        res.setdefault("violations", [])
        res["case"] = case
        return res
    except isolation.HarnessError:
        return {"case": case, "harness_error": traceback.format_exc(), "violations": []}
    except Exception as e:  # an unexpected exception of the library is a violation
        tb = traceback.extract_tb(e.__traceback__)
        where = "?"
        inlib = False
        for fr in tb:
            if "/quantarhei/" in fr.filename:
                inlib = True
        fr = tb[-1]
        where = "%s:%s" % (os.path.basename(fr.filename), fr.name)
        if not inlib:
            return {"case": case, "harness_error": traceback.format_exc(),
                    "violations": []}
        return {"case": case, "nontrivial": True, "outcome": "crash",
                "violations": [("crash/%s/%s" % (type(e).__name__, where),
                                "library raised %s: %s" % (type(e).__name__, str(e)[:200]),
                                {"traceback": traceback.format_exc()[-1500:]})]}


def _batches(items, workers, t_target=2.0):
    """Yield consecutive slices; the slice size adapts so that one slice takes about
    t_target seconds.  Work is always submitted as complete pool.map calls, so the pool
    is never abandoned with tasks in flight (Pool.terminate can dead-lock otherwise)."""
    i, n = 0, max(workers * 4, 8)
    while i < len(items):
        t = time.time()
        yield items[i:i + n]
        dt = max(time.time() - t, 1e-3)
        i += n
        n = int(min(max(workers * 2, n * min(4.0, max(0.25, t_target / dt))), 20000))


def _pmap(pool, f, batch, workers):
    if pool is None:
        return list(map(f, batch))
    return pool.map(f, batch, max(1, min(64, len(batch) // (workers * 4))))


def _close(pool):
    if pool is not None:
        pool.close()
        pool.join()


def run_grid(run, cases, evalf, cap_s=None, workers=None, section=None, chunksize=None):
    """Evaluate evalf on EVERY case (a list of JSON-able dicts).

    evalf(case) -> {"nontrivial": bool, "outcome": hashable-json, "violations":
    [(key, what, details), ...], "n": optional extra evaluation count,
    "info": {...}}"""
    global _EVALF
    _EVALF = evalf
    isolation.qr()
    workers = workers or NWORKERS[run.tier]
    t0 = time.time()
    done = 0
    infos = []
    pool = None
    if workers > 1 and len(cases) >= 4:
        pool = mp.get_context("fork").Pool(workers)
    try:
        for batch in _batches(cases, workers):
            for res in _pmap(pool, _call, batch, workers):
                done += 1
                if "harness_error" in res:
                    raise isolation.HarnessError(res["harness_error"])
                run.case(res["case"], res.get("nontrivial", True), res.get("outcome"),
                         section=section)
                extra = int(res.get("n", 0))
                if extra:
                    run.evaluations += extra
                for v in res["violations"]:
                    key, what = v[0], v[1]
                    det = v[2] if len(v) > 2 else None
                    run.violation(key, what, res["case"], det)
                if res.get("info") is not None:
                    infos.append(res["info"])
            if cap_s is not None and time.time() - t0 > cap_s and done < len(cases):
                run.cap("grid %s: wall cap %ss hit after %d of %d cases (ordered "
                        "simplest-first; only the evaluated prefix is covered)"
                        % (section or "", cap_s, done, len(cases)))
                break
    finally:
        _close(pool)
    return infos


# --------------------------------------------------------------------------
# E-bfs
# --------------------------------------------------------------------------
_EXEC = None


def _exec(hist):
    try:
        isolation.reset_manager()
        with isolation.quiet():
            res = _EXEC(hist)
        res["hist"] = hist
        res["keyhash"] = h(res.pop("key"))
        if res.get("outcome") is not None and not isinstance(res["outcome"], str):
            res["outcome"] = h(res["outcome"])
        return res
    except isolation.HarnessError:
        return {"hist": hist, "harness_error": traceback.format_exc()}
    except Exception:
        return {"hist": hist, "harness_error": traceback.format_exc()}


def run_bfs(run, execute, depth, cap_s=None, workers=None, section=None,
            max_states=None, init=()):
    """Breadth-first explicit-state search.

    execute(history) must build FRESH real objects, replay `history` (a tuple of
    JSON-able ops) on them, evaluate invariants and the reference model after
    every op and return
        {"key": canonical state (hashable/JSON), "enabled": [ops...],
         "violations": [(key, what, details)], "nontrivial": bool,
         "outcome": ..., "terminal": bool}
    A state is identified by its canonical key; its representative is the first
    (shortest, simplest-first) history reaching it.  Every transition
    (state, op) is executed on the real implementation."""
    global _EXEC
    _EXEC = execute
    isolation.qr()
    workers = workers or NWORKERS[run.tier]
    t0 = time.time()
    pool = None
    if workers > 1:
        pool = mp.get_context("fork").Pool(workers)
    try:
        root = _exec(tuple(init))
        if "harness_error" in root:
            raise isolation.HarnessError(root["harness_error"])
        seen = {root["keyhash"]}
        run.states += 1
        frontier = [(tuple(init), root["enabled"])]
        completed = 0
        for d in range(depth):
            jobs = [hist + (op,) for hist, en in frontier for op in en]
            if not jobs:
                break
            nxt = []
            capped = False
            ndone = 0
            for batch in _batches(jobs, workers):
                for res in _pmap(pool, _exec, batch, workers):
                    ndone += 1
                    if "harness_error" in res:
                        raise isolation.HarnessError(res["harness_error"])
                    run.transitions += 1
                    run.traces_validated += 1
                    run.case(list(res["hist"]), res.get("nontrivial", True),
                             res.get("outcome"), section=section)
                    for v in res.get("violations", []):
                        run.violation(v[0], v[1], {"history": list(res["hist"])},
                                      v[2] if len(v) > 2 else None)
                    k = res["keyhash"]
                    if k not in seen:
                        seen.add(k)
                        run.states += 1
                        if not res.get("terminal"):
                            nxt.append((res["hist"], res["enabled"]))
                if ndone < len(jobs):
                    if cap_s is not None and time.time() - t0 > cap_s:
                        capped = True
                        break
                    if max_states and run.states >= max_states:
                        capped = True
                        break
            if capped:
                run.cap("bfs %s: cap hit in depth %d after %d of %d transitions (depth %d "
                        "complete; states=%d)" % (section or "", d + 1, ndone, len(jobs),
                                                  completed, run.states))
                break
            completed = d + 1
            frontier = nxt
        run.bounds.setdefault("bfs_depth_completed", {})[section or "main"] = completed
        return completed
    finally:
        _close(pool)


def approx(a, b, tol, scale=None):
    """|a-b| <= tol*max(scale,1e-300); returns (ok, err)."""
    import numpy
    a = numpy.asarray(a)
    b = numpy.asarray(b)
    if a.shape != b.shape:
        return False, float("inf")
    if a.size == 0:
        return True, 0.0
    if not (numpy.all(numpy.isfinite(a)) and numpy.all(numpy.isfinite(b))):
        return False, float("inf")
    err = float(numpy.max(numpy.abs(a - b)))
    if scale is None:
        scale = max(float(numpy.max(numpy.abs(a))), float(numpy.max(numpy.abs(b))))
    return err <= tol * max(scale, 1e-300), err


# --------------------------------------------------------------------------
# E-fault: exception injected at the k-th library function call
# --------------------------------------------------------------------------
class Injected(Exception):
    """Harness-injected fault."""


def _fault_hook(match, on_point):
    """Profile hook enumerating fault points = entries into library functions.  Entries that
    happen while a context manager's __exit__ is running (the restoring mechanism itself)
    are not fault points: the properties quantify over exceptions raised INSIDE a context."""
    exits = set()

    def prof(frame, event, arg):
        if match not in frame.f_code.co_filename:
            return
        if event == "call":
            if frame.f_code.co_name == "__exit__":
                exits.add(id(frame))
                return
            if exits:
                return
            on_point(frame)
        elif event == "return":
            exits.discard(id(frame))
    return prof


def count_lib_calls(f, match="/quantarhei/"):
    """Run f() and count the fault points (entries into library functions)."""
    import sys
    cnt = [0]
    names = []

    def on_point(frame):
        cnt[0] += 1
        names.append(frame.f_code.co_name)
    sys.setprofile(_fault_hook(match, on_point))
    try:
        f()
    finally:
        sys.setprofile(None)
    return cnt[0], names


def run_with_fault(f, k, match="/quantarhei/"):
    """Run f() and raise Injected inside it at the k-th (1-based) fault point.  The exception
    surfaces in the caller of that function, exactly where a real failure of the callee
    would.  Returns (raised: bool, where: str|None, exc)."""
    import sys
    cnt = [0]
    where = [None]

    def on_point(frame):
        cnt[0] += 1
        if cnt[0] == k:
            where[0] = "%s:%s" % (os.path.basename(frame.f_code.co_filename),
                                  frame.f_code.co_name)
            raise Injected("fault #%d at %s" % (k, where[0]))
    sys.setprofile(_fault_hook(match, on_point))
    try:
        f()
        return False, where[0], None
    except Injected as e:
        return True, where[0], e
    except Exception as e:          # the library converted / replaced the injected fault
        return True, where[0], e
    finally:
        sys.setprofile(None)
