"""Closed-system dynamics in a rotating frame + a-priori Taylor truncation bound.

Pure numpy/scipy, NO quantarhei import.

Rotating frame: rho_rot(t) = exp(+i Om t) rho(t) exp(-i Om t) with a diagonal real
reference Om.  If [H, Om] = 0 (Om constant inside every block H does not leave) then
    rho_rot(t) = exp(-i (H-Om) t) rho(0) exp(+i (H-Om) t).

Truncation bound (DESIGN 1.5, class T): a propagator that applies the order-L Taylor
polynomial T_L = sum_{l<=L} (Lv dt)^l / l! once per step instead of E = exp(Lv dt)
deviates after n steps by at most
    || T_L^n - E^n || <= sum_{k<n} ||T_L^k|| * ||T_L - E|| * ||E^(n-1-k)||
which is evaluated numerically here from the generator alone (2-norms of
super-operator matrices acting on row-major vectorised density matrices).
"""
import numpy
from scipy.linalg import expm


def commutes(H, om_diag, tol=1e-12):
    H = numpy.asarray(H, dtype=complex)
    Om = numpy.diag(numpy.asarray(om_diag, dtype=float))
    c = H @ Om - Om @ H
    return float(numpy.max(numpy.abs(c))) <= tol * max(1.0, float(numpy.max(numpy.abs(H))))


def closed_evolution(H, om_diag, rho0, times):
    """rho_rot(t_n) for all stored times, each from its own matrix exponential."""
    Hr = numpy.asarray(H, dtype=complex) - numpy.diag(numpy.asarray(om_diag, dtype=float))
    rho0 = numpy.asarray(rho0, dtype=complex)
    out = numpy.zeros((len(times),) + rho0.shape, dtype=complex)
    for n, t in enumerate(times):
        U = expm(-1j * Hr * float(t))
        out[n] = U @ rho0 @ U.conj().T
    return out


def liouvillian(H, om_diag):
    """Matrix of rho -> -i[H-Om, rho] on row-major vec(rho)."""
    Hr = numpy.asarray(H, dtype=complex) - numpy.diag(numpy.asarray(om_diag, dtype=float))
    N = Hr.shape[0]
    I = numpy.eye(N)
    return -1j * (numpy.kron(Hr, I) - numpy.kron(I, Hr.T))


def taylor_bound(H, om_diag, dt, nsteps, order):
    """Array b[n], n = 0..nsteps: bound on ||T_L^n - E^n||_2 (see module doc)."""
    Lv = liouvillian(H, om_diag) * float(dt)
    M = Lv.shape[0]
    T = numpy.eye(M, dtype=complex)
    term = numpy.eye(M, dtype=complex)
    for l in range(1, order + 1):
        term = term @ Lv / l
        T = T + term
    E = expm(Lv)
    d = numpy.linalg.norm(T - E, 2)
    nT = numpy.zeros(nsteps + 1)
    nE = numpy.zeros(nsteps + 1)
    Tk = numpy.eye(M, dtype=complex)
    Ek = numpy.eye(M, dtype=complex)
    for k in range(nsteps + 1):
        nT[k] = numpy.linalg.norm(Tk, 2)
        nE[k] = numpy.linalg.norm(Ek, 2)
        Tk = Tk @ T
        Ek = Ek @ E
    b = numpy.zeros(nsteps + 1)
    for n in range(1, nsteps + 1):
        # sum_{k=0}^{n-1} ||T^k|| ||E^{n-1-k}||
        b[n] = d * float(numpy.dot(nT[:n], nE[:n][::-1]))
    return b
