"""Reference model of basis changes (no quantarhei import).

A basis change by a matrix S (columns = new basis vectors in the old basis) maps
    vector   v' = S^-1 v
    operator A' = S^-1 A S
    rank-4   R'_{abcd} = sum S^-1_{ai} S_{jb} R_{ijkl} S_{kc} S^-1_{dl}
(the last one from A' = R' B' with A = R B).  Arrays with leading time / component
indices are transformed slice by slice.
"""
import numpy


def t_operator(A, S, S1):
    return S1 @ A @ S


def t_rank4(R, S, S1):
    return numpy.einsum("ai,jb,ijkl,kc,dl->abcd", S1, S, R, S, S1, optimize=True)


def transform(kind, arr, S, S1=None):
    """Representation of `arr` (given in the old basis) in the new basis."""
    if S1 is None:
        S1 = numpy.linalg.inv(S)
    arr = numpy.asarray(arr)
    if kind in ("op", "rho", "ham", "ctx"):
        return t_operator(arr, S, S1)
    if kind == "dmom":                       # (dim, dim, 3)
        return numpy.stack([t_operator(arr[:, :, i], S, S1) for i in range(arr.shape[2])],
                           axis=2)
    if kind in ("dme", "ops3"):              # (n, dim, dim)
        return numpy.stack([t_operator(arr[i], S, S1) for i in range(arr.shape[0])], axis=0)
    if kind == "sup":
        return t_rank4(arr, S, S1)
    if kind == "sup_t":                      # (nt, dim, dim, dim, dim)
        return numpy.stack([t_rank4(arr[i], S, S1) for i in range(arr.shape[0])], axis=0)
    if kind == "sv":
        return S1 @ arr
    raise ValueError(kind)


def check_diagonalizer(X, S, tol=1e-9, allow_complex=False):
    """Is S a unitary matrix (real for real X) with S^-1 X S diagonal, ascending?  Returns list of defects."""
    bad = []
    S = numpy.asarray(S)
    n = S.shape[0]
    if numpy.max(numpy.abs(numpy.imag(S))) > tol and not allow_complex:
        bad.append("complex")    # worlds in which everything is real: a real eigenbasis exists
    if numpy.max(numpy.abs(S.conj().T @ S - numpy.eye(n))) > tol:
        bad.append("not-unitary")
    D = numpy.linalg.inv(S) @ X @ S
    scale = max(1.0, numpy.max(numpy.abs(X)))
    off = D - numpy.diag(numpy.diag(D))
    if numpy.max(numpy.abs(off)) > tol * scale:
        bad.append("not-diagonal")
    d = numpy.real(numpy.diag(D))
    if numpy.any(numpy.diff(d) < -tol * scale):
        bad.append("not-ascending")
    return bad
