"""Exact isotropic (orientational) average of a product of four field-dipole projections.

Reference model for C12.  numpy only, no quantarhei import, and deliberately NOT the closed
rank-four isotropic-tensor formula  F4e . M4 . F4n  with M4 = [[4,-1,-1],[-1,4,-1],[-1,-1,4]]/30
that the library uses.  The average

    < (e1.R d1)(e2.R d2)(e3.R d3)(e4.R d4) >_{R in SO(3)}

is evaluated by a finite product quadrature over the Euler angles R = Rz(alpha) Ry(beta) Rz(gamma)
with the Haar measure  d alpha  d(cos beta)  d gamma / (8 pi^2):

* the integrand is a homogeneous polynomial of degree 4 in the matrix elements of R, i.e. a
  combination of Wigner functions D^l_{m m'}(alpha,beta,gamma) = e^{-i m alpha} d^l_{mm'}(beta)
  e^{-i m' gamma} with l <= 4, |m|,|m'| <= 4;
* the periodic trapezoid rule with n >= 5 equidistant points integrates e^{i m x}, |m| <= 4,
  exactly (aliasing starts at |m| = n), so after the alpha and gamma sums only m = m' = 0
  survives;
* d^l_{00}(beta) = P_l(cos beta) is a polynomial of degree <= 4 in cos beta, which an n-point
  Gauss-Legendre rule integrates exactly for 2n-1 >= 4, i.e. n >= 3.

Hence 5 x 3 x 5 = 75 rotations give the exact average (up to rounding).  `selfcheck()` compares
the rule with a finer one and with the textbook moments <cos^4> = 1/5, <cos^2 sin^2 cos^2 phi> = 1/15.
"""
import itertools

import numpy


# ----------------------------------------------------------------------------------------
# rotations
# ----------------------------------------------------------------------------------------
def rot_z(a):
    c, s = numpy.cos(a), numpy.sin(a)
    return numpy.array([[c, -s, 0.0], [s, c, 0.0], [0.0, 0.0, 1.0]])


def rot_y(b):
    c, s = numpy.cos(b), numpy.sin(b)
    return numpy.array([[c, 0.0, s], [0.0, 1.0, 0.0], [-s, 0.0, c]])


def rotation(axis, angle):
    """Rodrigues rotation matrix about `axis` by `angle`."""
    ax = numpy.asarray(axis, dtype=float)
    ax = ax / numpy.sqrt(ax.dot(ax))
    k = numpy.array([[0.0, -ax[2], ax[1]], [ax[2], 0.0, -ax[0]], [-ax[1], ax[0], 0.0]])
    return numpy.eye(3) + numpy.sin(angle) * k + (1.0 - numpy.cos(angle)) * k.dot(k)


def cube_rotations():
    """The 24 proper rotations of the cube (signed permutation matrices, det +1); identity first."""
    out = []
    for p in itertools.permutations(range(3)):
        for s in itertools.product((1.0, -1.0), repeat=3):
            m = numpy.zeros((3, 3))
            for i in range(3):
                m[i, p[i]] = s[i]
            if round(float(numpy.linalg.det(m))) == 1:
                out.append(m)
    out.sort(key=lambda m: (-int(round(numpy.trace(m))), m.tolist()))
    assert len(out) == 24 and numpy.array_equal(out[0], numpy.eye(3))
    return out


GENERIC_ROTATION = rotation([1.0, 2.0, 3.0], 0.7)


# ----------------------------------------------------------------------------------------
# quadrature
# ----------------------------------------------------------------------------------------
def so3_quadrature(n_alpha=5, n_beta=3, n_gamma=5):
    """Rotation matrices (n,3,3) and weights (n,) summing to one; exact for polynomials of degree
    <= min(n_alpha-1, n_gamma-1, 2 n_beta-1) in the elements of R."""
    if n_alpha < 5 or n_gamma < 5 or n_beta < 3:
        raise ValueError("rule would not be exact for degree-4 polynomials")
    x, w = numpy.polynomial.legendre.leggauss(n_beta)      # nodes in cos(beta), sum(w) = 2
    rots, wts = [], []
    for ia in range(n_alpha):
        ra = rot_z(2.0 * numpy.pi * ia / n_alpha)
        for ib in range(n_beta):
            rb = rot_y(numpy.arccos(x[ib]))
            rab = ra.dot(rb)
            for ig in range(n_gamma):
                rg = rot_z(2.0 * numpy.pi * ig / n_gamma)
                rots.append(rab.dot(rg))
                wts.append(w[ib] / 2.0 / n_alpha / n_gamma)
    return numpy.array(rots), numpy.array(wts)


_RULE = None


def rule():
    global _RULE
    if _RULE is None:
        _RULE = so3_quadrature(5, 3, 5)
    return _RULE


def average4(e, d, quad=None):
    """< prod_k e[k] . (R d[k]) >  for four field vectors e (4,3) and four dipoles d (4,3)."""
    R, w = quad if quad is not None else rule()
    e = numpy.asarray(e, dtype=float)
    d = numpy.asarray(d, dtype=float)
    # proj[r,k] = e_k . R_r d_k
    proj = numpy.einsum("ki,rij,kj->rk", e, R, d)
    return float(numpy.sum(w * proj[:, 0] * proj[:, 1] * proj[:, 2] * proj[:, 3]))


def average4_table(evecs, dvecs, quad=None):
    """All averages for four-tuples drawn from two alphabets.

    evecs (ne,3), dvecs (nd,3) -> array T[a,b,c,d, i,j,k,l] =
    < (e_a.R d_i)(e_b.R d_j)(e_c.R d_k)(e_d.R d_l) >, shape (ne,)*4 + (nd,)*4."""
    R, w = quad if quad is not None else rule()
    E = numpy.asarray(evecs, dtype=float)
    D = numpy.asarray(dvecs, dtype=float)
    P = numpy.einsum("ai,rij,mj->ram", E, R, D)           # P[r,a,m] = e_a . R_r d_m
    return numpy.einsum("r,rai,rbj,rck,rdl->abcdijkl", w, P, P, P, P, optimize=True)


def average4_fields(evecs, d4, quad=None):
    """For ONE dipole four-tuple d4 (4,3): T[a,b,c,d] over all field four-tuples from evecs."""
    R, w = quad if quad is not None else rule()
    E = numpy.asarray(evecs, dtype=float)
    d4 = numpy.asarray(d4, dtype=float)
    P = numpy.einsum("ai,rij,kj->rka", E, R, d4)          # P[r,k,a] = e_a . R_r d_k
    return numpy.einsum("r,ra,rb,rc,rd->abcd", w, P[:, 0], P[:, 1], P[:, 2], P[:, 3],
                        optimize=True)


def diagram_sign(sides):
    """(-1)^(number of interactions from the right) of a double-sided Feynman diagram;
    `sides` holds +1 (left/ket) or -1 (right/bra) per interaction."""
    n_right = sum(1 for s in sides if int(s) == -1)
    return -1.0 if n_right % 2 else 1.0


def selfcheck(tol=1e-13):
    """Rule against a finer rule and against textbook moments; returns the worst deviation."""
    z = numpy.array([0.0, 0.0, 1.0])
    x = numpy.array([1.0, 0.0, 0.0])
    worst = 0.0
    worst = max(worst, abs(average4([z] * 4, [z] * 4) - 1.0 / 5.0))
    worst = max(worst, abs(average4([z, z, x, x], [z] * 4) - 1.0 / 15.0))
    worst = max(worst, abs(average4([z, z, x, x], [z, z, x, x]) - 2.0 / 15.0))
    worst = max(worst, abs(average4([z, x, z, x], [z, z, x, x]) + 1.0 / 30.0))
    fine = so3_quadrature(9, 6, 8)
    vs = [numpy.array(v) for v in ([1.0, 0.2, -0.3], [0.3, 0.9, 0.1], [-0.4, 0.2, 0.8],
                                   [0.5, -0.7, 0.4])]
    for perm in itertools.permutations(range(4)):
        e4 = [vs[i] for i in perm]
        worst = max(worst, abs(average4(e4, vs) - average4(e4, vs, quad=fine)))
    if worst > tol:
        raise AssertionError("SO(3) quadrature self-check failed: %g" % worst)
    return worst


# ----------------------------------------------------------------------------------------
# alphabets shared with the driver (pure data)
# ----------------------------------------------------------------------------------------
_TM = numpy.arccos(1.0 / numpy.sqrt(3.0))            # magic angle 54.7356 deg
POLARISATIONS = {
    "X": [1.0, 0.0, 0.0],
    "Y": [0.0, 1.0, 0.0],
    "Z": [0.0, 0.0, 1.0],
    "D": [1.0 / numpy.sqrt(2.0), 1.0 / numpy.sqrt(2.0), 0.0],
    "M": [float(numpy.cos(_TM)), 0.0, float(numpy.sin(_TM))],   # at the magic angle from X
}
POL_NAMES = ["X", "Y", "Z", "D", "M"]
DIPOLES4 = [[1.0, 0.0, 0.0], [0.3, 0.9, 0.1], [-0.4, 0.2, 0.8], [0.5, -0.7, 0.4]]
