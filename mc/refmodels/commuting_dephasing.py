"""Exact reduced dynamics when every system-bath coupling operator commutes with the
system Hamiltonian (C16: "uncoupled sites, where the model is exactly solvable").

Pure numpy, NO quantarhei import.  Internal units (fs, rad/fs).

Model:  H_tot = H_S + sum_k V_k (x) X_k + H_B,  independent Gaussian baths X_k with the
correlation function C_k(t) = <X_k(t) X_k(0)> and the line-shape function g_k(t) (double
time integral of C_k, see lineshape.py),  [H_S, V_k] = 0 and [V_k, V_l] = 0 for all k, l.
Then a joint eigenbasis |a> exists, H_S|a> = w_a|a>, V_k|a> = c_ka|a>, no population is
transferred, and the second cumulant is exact:

    rho_ab(t) = rho_ab(0) exp( -i (w_a - w_b) t
                               - sum_k [ (c_ka - c_kb)^2 Re g_k(t)
                                         + i (c_ka^2 - c_kb^2) Im g_k(t) ] )

(the bath of the bra side enters complex conjugated; a shift common to both states does
not dephase).  Special cases, V_k = |k><k| (site projectors), a, b excited, 0 the ground
state without a bath:
    rho_a0 = rho_a0(0) exp(-i w_a0 t - g_a),   rho_ab = rho_ab(0) exp(-i w_ab t - g_a - g_b^*)
which is lineshape.pure_dephasing_solution.  The hierarchy of the package represents
C_k(t) = lam_k (2 kB T - i gamma_k) exp(-gamma_k t) and couples the levels with
V_k rho -/+ rho V_k, i.e. exactly this model (vertical energies in H_S).
"""
import numpy

_ALPHA = (0.5 * (5.0 ** 0.5 - 1.0), 2.0 ** 0.5 - 1.0, 3.0 ** 0.5 - 1.0, 7.0 ** 0.5 - 2.0,
          11.0 ** 0.5 - 3.0, 13.0 ** 0.5 - 3.0)


def _offdiag(m):
    m = numpy.asarray(m)
    return float(numpy.max(numpy.abs(m - numpy.diag(numpy.diag(m))))) if m.size else 0.0


def commute_all(H, Vs, tol=1e-12):
    """True iff [H, V_k] = 0 and [V_k, V_l] = 0 for all k, l (relative tolerance)."""
    H = numpy.asarray(H, dtype=complex)
    mats = [H] + [numpy.asarray(v, dtype=complex) for v in Vs]
    for i in range(len(mats)):
        for j in range(i + 1, len(mats)):
            a, b = mats[i], mats[j]
            sc = max(1e-300, float(numpy.max(numpy.abs(a))) * float(numpy.max(numpy.abs(b))))
            if float(numpy.max(numpy.abs(a @ b - b @ a))) > tol * sc:
                return False
    return True


def joint_eigenbasis(H, Vs, tol=1e-10):
    """(S, w, c): unitary S whose columns are joint eigenvectors, w[a] eigenvalues of H,
    c[k][a] eigenvalues of V_k; None when the operators do not commute.  If everything is
    diagonal already, S is the identity (no reordering)."""
    H = numpy.asarray(H, dtype=complex)
    Vs = [numpy.asarray(v, dtype=complex) for v in Vs]
    N = H.shape[0]
    for m in [H] + Vs:
        if float(numpy.max(numpy.abs(m - m.conj().T))) > tol * max(1.0, float(numpy.max(numpy.abs(m)))):
            return None
    if not commute_all(H, Vs):
        return None
    if all(_offdiag(m) == 0.0 for m in [H] + Vs):
        S = numpy.eye(N, dtype=complex)
    else:
        # a generic real combination of commuting Hermitian matrices has the joint
        # eigenvectors as its eigenvectors
        M = numpy.zeros((N, N), dtype=complex)
        for i, m in enumerate([H] + Vs):
            sc = float(numpy.max(numpy.abs(m)))
            if sc > 0:
                M = M + _ALPHA[i % len(_ALPHA)] * (1.0 + i // len(_ALPHA)) * m / sc
        _, S = numpy.linalg.eigh(M)
    w = S.conj().T @ H @ S
    cs = [S.conj().T @ v @ S for v in Vs]
    for m in [w] + cs:
        if _offdiag(m) > tol * max(1.0, float(numpy.max(numpy.abs(m)))):
            return None
    return (S, numpy.real(numpy.diag(w)).copy(),
            numpy.array([numpy.real(numpy.diag(c)) for c in cs], dtype=float).reshape(len(Vs), N))


def dephasing_exponent(c, gs, a, b):
    """sum_k [(c_ka - c_kb)^2 Re g_k + i (c_ka^2 - c_kb^2) Im g_k]  (array over time)."""
    out = 0.0
    for k, g in enumerate(gs):
        g = numpy.asarray(g, dtype=complex)
        out = out + (c[k][a] - c[k][b]) ** 2 * g.real + 1j * (c[k][a] ** 2 - c[k][b] ** 2) * g.imag
    return out


def solution(rho0, t, H_rot, Vs, gs):
    """rho(t) (Nt,N,N) in the frame of H_rot = H - Omega; None if not exactly solvable here.

    rho0 (N,N); t (Nt,) elapsed times; H_rot (N,N) Hermitian; Vs list of (N,N) Hermitian
    coupling operators; gs list of g_k(t) arrays (one per V_k)."""
    je = joint_eigenbasis(H_rot, Vs)
    if je is None:
        return None
    S, w, c = je
    t = numpy.asarray(t, dtype=float)
    r0 = S.conj().T @ numpy.asarray(rho0, dtype=complex) @ S
    N = r0.shape[0]
    out = numpy.zeros((t.shape[0], N, N), dtype=complex)
    for a in range(N):
        for b in range(N):
            if a == b:
                out[:, a, b] = r0[a, b]
            else:
                out[:, a, b] = r0[a, b] * numpy.exp(-1j * (w[a] - w[b]) * t
                                                    - dephasing_exponent(c, gs, a, b))
    return numpy.einsum("ia,tab,jb->tij", S, out, S.conj())


def coupling_strength(rho0, H_rot, Vs, lams, gammas, kBT):
    """max over the joint-eigenbasis elements (a != b) present in rho0 of
    sqrt(2 kBT sum_k lam_k (c_ka - c_kb)^2) / min(gamma_k : c_ka != c_kb)
    (fluctuation amplitude of the gap over the slowest bath relaxation rate involved);
    0.0 when no element is coupled; None if not jointly diagonalisable."""
    je = joint_eigenbasis(H_rot, Vs)
    if je is None:
        return None
    S, _, c = je
    r0 = S.conj().T @ numpy.asarray(rho0, dtype=complex) @ S
    N = r0.shape[0]
    sc = max(1e-300, float(numpy.max(numpy.abs(r0))))
    worst = 0.0
    for a in range(N):
        for b in range(N):
            if a == b or abs(r0[a, b]) <= 1e-13 * sc:
                continue
            inv = [k for k in range(len(Vs)) if abs(c[k][a] - c[k][b]) > 1e-12 and lams[k] > 0.0]
            if not inv:
                continue
            amp2 = sum(2.0 * kBT * lams[k] * (c[k][a] - c[k][b]) ** 2 for k in inv)
            worst = max(worst, float(numpy.sqrt(amp2)) / min(gammas[k] for k in inv))
    return worst
