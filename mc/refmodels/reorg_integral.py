"""Reference model for C09: reorganisation energy contained in a frequency interval.

For a spectral density J(w) (odd in w) the reorganisation energy is

    lambda = (1/pi) * int_0^infinity J(w)/w dw .

A function sampled on a frequency axis can only contain the part of that integral which lies on
the axis: `reorg_on_interval(plist, lo, hi)` is (1/pi) int_lo^hi J(w)/w dw, 0 <= lo <= hi, for
a sum of analytically parameterised components given in INTERNAL units (energies in rad/fs,
times in fs):

    OverdampedBrownian   J(w) = 2 lam (1/tau) w / (w^2 + 1/tau^2)
                         (1/pi) int J/w = (2 lam/pi) [arctan(hi tau) - arctan(lo tau)]   (closed)
    UnderdampedBrownian  J(w) = 2 lam gamma w0^2 w / ((w^2 - w0^2)^2 + w^2 gamma^2)
                         adaptive quadrature of the formula (break point at the resonance)

Both forms integrate to lam over the whole half line.  numpy / scipy only; no quantarhei.
"""
import numpy
from scipy.integrate import quad


def integrand(p, w):
    """J(w)/w of one component (finite at w = 0)."""
    lam = float(p["reorg"])
    if p["ftype"] == "OverdampedBrownian":
        tau = float(p["cortime"])
        return (2.0 * lam / tau) / (w * w + 1.0 / tau ** 2)
    if p["ftype"] == "UnderdampedBrownian":
        g, w0 = float(p["gamma"]), float(p["freq"])
        return 2.0 * lam * g * w0 ** 2 / ((w * w - w0 * w0) ** 2 + w * w * g * g)
    raise ValueError("no analytic reference for %r" % (p["ftype"],))


def component_on_interval(p, lo, hi):
    lo, hi = float(lo), float(hi)
    if not 0.0 <= lo <= hi:
        raise ValueError("0 <= lo <= hi required")
    lam = float(p["reorg"])
    if lam == 0.0 or hi == lo:
        return 0.0
    if p["ftype"] == "OverdampedBrownian":
        tau = float(p["cortime"])
        return (2.0 * lam / numpy.pi) * (numpy.arctan(hi * tau) - numpy.arctan(lo * tau))
    w0 = float(p["freq"])
    pts = [w0] if lo < w0 < hi else None
    val, _ = quad(lambda w: integrand(p, w), lo, hi, points=pts, limit=400,
                  epsabs=0.0, epsrel=1e-12)
    return val / numpy.pi


def reorg_on_interval(plist, lo, hi):
    """(1/pi) int_lo^hi J(w)/w dw of the sum of the components."""
    return float(sum(component_on_interval(p, lo, hi) for p in plist))
