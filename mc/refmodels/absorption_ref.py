"""Reference model of the linear absorption spectrum (numpy/scipy only, no quantarhei).

Definition used (property C11):

    a(t)  = sum_alpha |d_alpha|^2 exp(-g_alpha(t) - i w_alpha t)        (dipole correlation fct.)
    S(w)  = 2 Re sum_{n=0}^{Nt-1} a(t_n) exp(i w t_n) dt  -  Re a(t_0) dt  (half-sided Fourier sum,
                                                                  the point t=0 counted once)

with, for an aggregate of two-level molecules whose one-exciton block of the Hamiltonian is H,
    H c_alpha = w_alpha c_alpha,     d_alpha = sum_k c_{k alpha} d_k,
    C_alpha(t) = sum_k c_{k alpha}^4 C_k(t)              (independent site baths)
    C_alpha(t) = sum_{k,l} c_{k alpha}^2 c_{l alpha}^2 C_kl(t)   (general: correlated site baths,
                 C_kl = energy-gap cross-correlation function of sites k and l; the FULL
                 square k,l = 1..n is summed, every off-diagonal pair in both orders)
    g_alpha(t) = int_0^t ds int_0^s ds' C_alpha(s')
and, when a relaxation tensor R (site basis) is supplied, the additional population-relaxation
factor exp(R_{alpha alpha alpha alpha} t) of the exciton level (R transformed with the same c;
for a time-dependent tensor the rate at t_n multiplies t_n).

Everything is evaluated by plain O(Nt * Nw) sums at frequencies handed in by the caller; there is
no FFT, no frequency-axis bookkeeping and no index arithmetic on spectra in this file, except
`hfft_default_grid`, which spells out which frequencies numpy.fft.hfft(a) (default output length
2(Nt-1)) followed by fftshift / flip / central cut *really* samples.
"""
import numpy
from scipy.interpolate import CubicSpline


# --------------------------------------------------------------------------------------------
# line-shape function
# --------------------------------------------------------------------------------------------
def _cumint(t, y):
    """int_0^{t_n} y dt at every grid point; exact integral of the interpolating cubic spline."""
    return CubicSpline(t, y).antiderivative()(t)


def lineshape_function(t, c):
    """g(t_n) = int_0^{t_n} ds int_0^s ds' C(s') by two successive cumulative integrations
    on the grid (the running integral is sampled on the grid and integrated again)."""
    t = numpy.asarray(t, dtype=float)
    c = numpy.asarray(c, dtype=complex)
    gr = _cumint(t, _cumint(t, c.real))
    gi = _cumint(t, _cumint(t, c.imag))
    return gr + 1j * gi


def lineshape_function_exact_spline(t, c):
    """Same double integral, but the exact second antiderivative of the interpolating spline
    (differs from `lineshape_function` at quadrature level only; used as a cross-check)."""
    t = numpy.asarray(t, dtype=float)
    c = numpy.asarray(c, dtype=complex)
    gr = CubicSpline(t, c.real).antiderivative(2)(t)
    gi = CubicSpline(t, c.imag).antiderivative(2)(t)
    return gr + 1j * gi


# --------------------------------------------------------------------------------------------
# excitons
# --------------------------------------------------------------------------------------------
def excitons(h1, dipoles):
    """Diagonalise the one-exciton block h1 (n x n, real symmetric, angular frequencies).

    Returns (w_alpha, c[k, alpha], d_alpha[alpha, 3], |d_alpha|^2, min level spacing)."""
    h1 = numpy.asarray(h1, dtype=float)
    w, c = numpy.linalg.eigh(0.5 * (h1 + h1.T))
    d = numpy.asarray(dipoles, dtype=float)
    da = c.T.dot(d)
    d2 = numpy.einsum("ax,ax->a", da, da)
    gap = float(numpy.min(numpy.diff(w))) if len(w) > 1 else float("inf")
    return w, c, da, d2, gap


def exciton_relaxation_rates(c, rsite):
    """R_{aaaa} of every exciton level from a tensor given in the site basis of the FULL
    Hilbert space (ground state = index 0, decoupled): R'_{aaaa} = sum c_ia c_ja c_ka c_la R_ijkl.

    rsite of shape (n+1,)*4 -> rates[a];  (Nt,)+(n+1,)*4 (time dependent) -> rates[t, a]."""
    n = c.shape[0]
    s = numpy.eye(n + 1)
    s[1:, 1:] = c
    r = numpy.asarray(rsite)
    cols = []
    for a in range(n):
        v = s[:, a + 1]
        if r.ndim == 5:
            cols.append(numpy.einsum("i,j,k,l,tijkl->t", v, v, v, v, r))
        else:
            cols.append(numpy.einsum("i,j,k,l,ijkl->", v, v, v, v, r))
    return numpy.array(cols).T if r.ndim == 5 else numpy.array(cols)


def exciton_correlation_function(t, c_alpha, site_cfs=None, site_cf_matrix=None):
    """C_alpha(t_n) of one exciton level with site amplitudes c_alpha[k].

    site_cfs: list of C_k(t_n) (independent baths)   -> sum_k c_k^4 C_k
    site_cf_matrix: n x n nested list of C_kl(t_n)   -> sum_{k,l} c_k^2 c_l^2 C_kl"""
    n = len(c_alpha)
    ca = numpy.zeros(len(t), dtype=complex)
    if site_cf_matrix is not None:
        for k in range(n):
            for l in range(n):
                ca = ca + (c_alpha[k] ** 2) * (c_alpha[l] ** 2) * \
                    numpy.asarray(site_cf_matrix[k][l], dtype=complex)
        return ca
    for k in range(n):
        ca = ca + (c_alpha[k] ** 4) * numpy.asarray(site_cfs[k], dtype=complex)
    return ca


def dipole_correlation(t, h1, dipoles, site_cfs, rsite=None, wref=0.0, lineshape=None,
                       extra_rates=None, site_cf_matrix=None):
    """a(t) exp(+i wref t) on the grid t (wref only keeps the phases small).

    site_cfs: list of sampled site energy-gap correlation functions C_k(t_n) or None (no bath).
    site_cf_matrix: alternatively the full n x n matrix of sampled (cross-)correlation functions
    C_kl(t_n) (takes precedence over site_cfs).
    extra_rates: optional decay rates (one per level, >= 0) multiplying level alpha by
    exp(-rate t) (e.g. the radiative rate of an isolated molecule).
    Returns (a, info)."""
    t = numpy.asarray(t, dtype=float)
    ls = lineshape or lineshape_function
    w, c, da, d2, gap = excitons(h1, dipoles)
    rates = None
    if rsite is not None:
        rates = exciton_relaxation_rates(c, rsite)
    a = numpy.zeros(len(t), dtype=complex)
    for al in range(len(w)):
        x = -1j * (w[al] - wref) * t
        if site_cfs is not None or site_cf_matrix is not None:
            ca = exciton_correlation_function(t, c[:, al], site_cfs, site_cf_matrix)
            x = x - ls(t, ca)
        if rates is not None:
            # static tensor: exp(R_aaaa t); time-dependent tensor: exp(R_aaaa(t_n) t_n)
            x = x + (rates[:, al] if rates.ndim == 2 else rates[al]) * t
        if extra_rates is not None:
            x = x - float(extra_rates[al]) * t
        a = a + d2[al] * numpy.exp(x)
    return a, {"w": w, "d2": d2, "gap": gap, "rates": rates, "c": c}


# --------------------------------------------------------------------------------------------
# transforms
# --------------------------------------------------------------------------------------------
def half_sided_sum(t, a, w, dt):
    """S(w) = 2 Re sum_n a_n exp(i w t_n) dt - Re a_0 dt   (t_0 = 0 counted once)."""
    t = numpy.asarray(t, dtype=float)
    w = numpy.asarray(w, dtype=float)
    e = numpy.exp(1j * numpy.outer(w, t))
    return (2.0 * numpy.real(e.dot(a)) - numpy.real(a[0]) * numpy.real(e[:, 0])) * dt


def hermitian_sum_nyquist(t, a_carrier, offsets, dt):
    """What a Hermitian (c2r) transform of default length 2(Nt-1) evaluates at the offsets
    (frequency minus carrier) when fed with the signal rotating at the carrier frequency,
    a_carrier(t) = a(t) exp(+i w_carrier t): the LAST sample is taken as the real Nyquist term
    and counted once, a_0 (real part) once, all others twice."""
    t = numpy.asarray(t, dtype=float)
    w = numpy.asarray(offsets, dtype=float)
    a = numpy.asarray(a_carrier, dtype=complex)
    e = numpy.exp(1j * numpy.outer(w, t))
    body = 2.0 * numpy.real(e[:, 1:-1].dot(a[1:-1]))
    return (numpy.real(a[0]) + body + numpy.real(a[-1]) * numpy.real(e[:, -1])) * dt


def expected_axis_offsets(nt, dt):
    """Offsets (from the carrier frequency) of the central cut of the 2Nt-point frequency axis
    conjugate to an upper-half time axis of Nt points: (m + Nt//2 - Nt) * pi/(Nt dt)."""
    m = numpy.arange(nt)
    return (m + nt // 2 - nt) * numpy.pi / (nt * dt)


def hfft_default_grid(nt, dt, displacement=2):
    """Frequencies (offsets from the carrier) really sampled at index m by
    hfft(a) [length 2(Nt-1)] -> fftshift -> flip -> cut [Nt//2 : Nt//2+Nt]:
    (m + Nt//2 - Nt + displacement) * pi/((Nt-1) dt), displacement = 2."""
    m = numpy.arange(nt)
    return (m + nt // 2 - nt + displacement) * numpy.pi / ((nt - 1) * dt)


def rotation(axis, angle):
    """Rodrigues rotation matrix."""
    ax = numpy.asarray(axis, dtype=float)
    ax = ax / numpy.sqrt(ax.dot(ax))
    k = numpy.array([[0, -ax[2], ax[1]], [ax[2], 0, -ax[0]], [-ax[1], ax[0], 0]])
    return numpy.eye(3) + numpy.sin(angle) * k + (1 - numpy.cos(angle)) * k.dot(k)


def cube_rotations():
    """The 24 proper rotations of the cube (signed permutation matrices with det +1),
    identity first."""
    import itertools
    out = []
    for p in itertools.permutations(range(3)):
        for s in itertools.product((1, -1), repeat=3):
            m = numpy.zeros((3, 3))
            for i in range(3):
                m[i, p[i]] = s[i]
            if round(numpy.linalg.det(m)) == 1:
                out.append(m)
    out.sort(key=lambda m: (-int(numpy.trace(m)), m.tolist()))
    return out
