"""Analytic bath functions of the overdamped Brownian oscillator WITH Matsubara terms,
and the a-priori error bound of a first-order time-local propagation of pure dephasing.

Pure numpy/scipy, NO quantarhei import.  Units of the package under test: time in fs,
energies as angular frequencies in rad/fs (hbar = 1), temperature in K.

Bath correlation function (Mukamel, Principles of Nonlinear Optical Spectroscopy, Eq. 8.49;
spectral density J(w) = 2 lam w gam / (w^2 + gam^2), gam = 1/tau_c), truncated after M
Matsubara terms -- this is the function the package documents for ftype "OverdampedBrownian"
(parameter "matsubara", default 10):

    C(t) = lam gam [cot(gam / 2kT) - i] e^{-gam t}
           + 4 lam gam kT  sum_{n=1..M}  nu_n e^{-nu_n t} / (nu_n^2 - gam^2),   nu_n = 2 pi kT n

i.e. a finite sum of exponentials  C(t) = sum_j a_j e^{-r_j t}.  Then, term by term,

    gdot(t) = int_0^t C          = sum_j a_j (1 - e^{-r_j t}) / r_j
    g(t)    = int_0^t gdot       = sum_j a_j (e^{-r_j t} + r_j t - 1) / r_j^2

For a system whose Hamiltonian commutes with every system-bath coupling operator (uncoupled
sites, K_m = |m><m|, independent baths) the second-order time-local (TCL2 = time-dependent
Redfield) equation is exact and reads, for the coherence between site m and the ground state,

    d/dt rho_m0 = -(i w_m + gdot_m(t)) rho_m0    ->   rho_m0(t) = rho_m0(0) exp(-i w_m t - g_m(t))

and for the coherence between two sites   rho_mn(t) = rho_mn(0) exp(-i w_mn t - g_m(t) - conj(g_n(t))).

Error bound of the numerical scheme "one Taylor polynomial of degree L per step of length dt
with the rate sampled at ONE point of the step" (any point: left end, right end, ...):

    rho_k = P_L(z_k) rho_{k-1},   z_k = -(i w + gdot(s_k)) dt,   s_k in [t_{k-1}, t_k]

    exact:  rho(t_k) = exp(w_k) rho(t_{k-1}),   w_k = -i w dt - (g(t_k) - g(t_{k-1}))

    z_k - w_k = int_{t_{k-1}}^{t_k} (gdot(u) - gdot(s_k)) du ,  |gdot(u) - gdot(s_k)| <= int_step |C|
        ->  |z_k - w_k| <= dt * int_{t_{k-1}}^{t_k} |C(u)| du            (total variation of gdot)
    P_L(z) = e^z (1 + eps),  |eps| <= e^{2|z|} |z|^{L+1} / (L+1)!        (Taylor remainder)

    =>  | rho_num(t_i) / rho_exact(t_i) - 1 |  <=  exp( D_i + E_i ) - 1
        D_i = dt * int_0^{t_i} |C(u)| du   <=  dt * sum_j |a_j| (1 - e^{-r_j t_i}) / r_j
        E_i = sum_{k<=i} e^{2 Z_k} Z_k^{L+1} / (L+1)!,   Z_k = (|w| + sum_j |a_j| (1-e^{-r_j t_k})/r_j) dt

The bound depends only on (lam, tau_c, T, M, w, dt, L), never on the code under test.  It is
first order in dt (D) -- halving dt must roughly halve the error.

Not bounded a priori: the package obtains gdot(t_k) by integrating a cubic spline through the
SAMPLES of C(t) instead of C itself.  For end-point sampling the sharp version of the step bound
is  int_step (u - t_{k-1}) |C(u)| du  ~ D/2, so the bound above leaves a factor ~2 for that
quadrature deviation (measured: the error of the unchanged package is 0.46-0.52 of the bound for
every admissible grid point, i.e. the spline deviation is far below the first-order term).
"""
import math

import numpy
import scipy.constants as const

CM2INT = 2.0 * numpy.pi * const.c * 1.0e-13          # rad/fs per cm^-1
KB_INT = const.k / const.hbar * 1.0e-15              # rad/(fs K)
# the package enters kB by hand (older CODATA): 6e-8 relative off scipy's value
UNIT_RTOL = 1.0e-6


def exponentials(lam_cm, tau, T, M=10):
    """C(t) = sum_j a_j exp(-r_j t): returns (a, r) as complex / real arrays.
    lam_cm in 1/cm, tau in fs, T in K, M = number of Matsubara terms, or M = "ht" for the
    high-temperature form C(t) = lam (2kT - i gam) e^{-gam t}."""
    lam = float(lam_cm) * CM2INT
    gam = 1.0 / float(tau)
    kT = KB_INT * float(T)
    if M == "ht":
        # ftype "OverdampedBrownian-HighTemperature": cot(x) -> 1/x, no Matsubara terms
        return (numpy.array([lam * (2.0 * kT - 1.0j * gam)], dtype=complex),
                numpy.array([gam], dtype=float))
    a = [lam * gam * (1.0 / math.tan(gam / (2.0 * kT)) - 1.0j)]
    r = [gam]
    for n in range(1, int(M) + 1):
        nu = 2.0 * numpy.pi * kT * n
        a.append(4.0 * lam * gam * kT * nu / (nu * nu - gam * gam))
        r.append(nu)
    return numpy.array(a, dtype=complex), numpy.array(r, dtype=float)


def corfce(t, lam_cm, tau, T, M=10):
    t = numpy.asarray(t, dtype=float)
    a, r = exponentials(lam_cm, tau, T, M)
    return numpy.sum(a[:, None] * numpy.exp(-r[:, None] * t[None, :]), axis=0)


def _f1(x):
    """(1 - e^{-x})"""
    return -numpy.expm1(-x)


def _f2(x):
    """e^{-x} + x - 1 without cancellation at small x."""
    x = numpy.asarray(x, dtype=float)
    small = x < 1.0e-3
    ser = x * x / 2.0 - x ** 3 / 6.0 + x ** 4 / 24.0 - x ** 5 / 120.0
    return numpy.where(small, ser, numpy.expm1(-x) + x)


def gdot(t, lam_cm, tau, T, M=10):
    t = numpy.asarray(t, dtype=float)
    a, r = exponentials(lam_cm, tau, T, M)
    return numpy.sum((a / r)[:, None] * _f1(r[:, None] * t[None, :]), axis=0)


def g(t, lam_cm, tau, T, M=10):
    t = numpy.asarray(t, dtype=float)
    a, r = exponentials(lam_cm, tau, T, M)
    return numpy.sum((a / (r * r))[:, None] * _f2(r[:, None] * t[None, :]), axis=0)


def abs_integral_bound(t, lam_cm, tau, T, M=10):
    """Upper bound of int_0^t |C(u)| du (triangle inequality over the exponentials)."""
    t = numpy.asarray(t, dtype=float)
    a, r = exponentials(lam_cm, tau, T, M)
    return numpy.sum((numpy.abs(a) / r)[:, None] * _f1(r[:, None] * t[None, :]), axis=0)


def coherence(t, w_cm, baths_plus, baths_minus=()):
    """exp(-i w t - sum_plus g(t) - sum_minus conj(g(t))); w in 1/cm, baths = (lam, tau, T, M)."""
    t = numpy.asarray(t, dtype=float)
    ex = -1.0j * float(w_cm) * CM2INT * t
    for b in baths_plus:
        ex = ex - g(t, *b)
    for b in baths_minus:
        ex = ex - numpy.conj(g(t, *b))
    return numpy.exp(ex)


def first_order_bound(t, dt, w_cm, baths, L=4):
    """exp(D_i + E_i) - 1 of the module docstring at every time of t (t = k*dt, k = 0, 1, ...);
    `baths` = all baths (lam, tau, T, M) whose g or conj(g) enters the coherence."""
    t = numpy.asarray(t, dtype=float)
    I = numpy.zeros(t.shape)
    for b in baths:
        I = I + abs_integral_bound(t, *b)
    D = float(dt) * I
    Z = (abs(float(w_cm)) * CM2INT + I) * float(dt)
    eps = numpy.exp(2.0 * Z) * Z ** (L + 1) / math.factorial(L + 1)
    eps[0] = 0.0
    E = numpy.cumsum(eps)
    return numpy.expm1(D + E), D, E
