"""Independent energy-unit conversion table (no quantarhei import).

Internal unit: angular frequency in rad/fs (E/hbar).  All factors recomputed from
scipy.constants (current CODATA); reciprocal handling for wavelengths in nm.
"""
import math

import scipy.constants as C

TWO_PI = 2.0 * math.pi
HARTREE_J = C.physical_constants["Hartree energy"][0]

# energy of one unit, in rad/fs
FACTOR = {
    "1/fs": 1.0,
    "int": 1.0,
    "1/cm": TWO_PI * C.c * 100.0 * 1e-15,          # omega = 2 pi c nu~
    "THz": TWO_PI * 1e12 * 1e-15,
    "eV": C.e / C.hbar * 1e-15,
    "meV": 1e-3 * C.e / C.hbar * 1e-15,
    "J": 1.0 / C.hbar * 1e-15,
    "SI": 1.0 / C.hbar * 1e-15,
    "Ha": HARTREE_J / C.hbar * 1e-15,
    "a.u.": HARTREE_J / C.hbar * 1e-15,
}
# wavelength: omega = 2 pi c / lambda ; with lambda in nm and c in nm/fs
NM_CONST = TWO_PI * C.c * 1e9 * 1e-15

ENERGY_UNITS = ["1/fs", "int", "1/cm", "eV", "meV", "THz", "J", "SI", "nm", "Ha", "a.u."]


def to_internal(x, unit):
    if unit == "nm":
        return 0.0 if x == 0 else NM_CONST / x
    return x * FACTOR[unit]


def from_internal(e, unit):
    if unit == "nm":
        return 0.0 if e == 0 else NM_CONST / e
    return e / FACTOR[unit]


def convert(x, u_in, u_out):
    return from_internal(to_internal(x, u_in), u_out)
