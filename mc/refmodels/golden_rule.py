"""Reference model for C06: golden-rule rates, Boltzmann factors, overdamped
Brownian bath functions.  Plain numpy/scipy, written from the physics definitions;
does NOT import quantarhei.

Units: energies/frequencies are angular frequencies in rad/fs ("internal"), times in
fs, temperature in K.  The unit factors are recomputed here from scipy.constants:

    1 cm^-1  -> 2 pi c [cm/s] * 1e-15 s/fs           = 2 pi c[m/s] * 1e-13  rad/fs
    k_B T    -> k_B[J/K] / hbar[J s] * 1e-15 s/fs * T                     rad/fs

(quantarhei's own Boltzmann constant is an older CODATA value entered by hand,
kB = 0.69503476 cm^-1/K; it differs from scipy's by 6e-8 relative.  UNIT_RTOL is the
allowance every oracle built on these factors has to grant.)
"""
import numpy
import scipy.constants as const

CM2INT = 2.0 * numpy.pi * const.c * 1.0e-13          # rad/fs per cm^-1
KB_INT = const.k / const.hbar * 1.0e-15              # rad/fs per K
UNIT_RTOL = 1.0e-6


def kBT(T):
    return KB_INT * float(T)


# ---------------------------------------------------------------------------
# bath functions of the overdamped Brownian oscillator
# ---------------------------------------------------------------------------
def J_overdamped(w, lam, tau):
    """J(w) = 2 lam (w/tau) / (w^2 + tau^-2); lam in rad/fs, tau in fs."""
    w = numpy.asarray(w, dtype=float)
    return 2.0 * lam * (w / tau) / (w * w + tau ** -2)


def ft_corfce(w, lam, tau, T):
    """C(w) = (1 + coth(w / 2kT)) J(w); at w = 0 the limit 2 kT J'(0) = 4 lam kT tau."""
    w = numpy.asarray(w, dtype=float)
    kt = kBT(T)
    out = numpy.empty(w.shape, dtype=float)
    small = numpy.abs(w) < 1.0e-12
    ws = numpy.where(small, 1.0, w)
    out = (1.0 + 1.0 / numpy.tanh(ws / (2.0 * kt))) * J_overdamped(ws, lam, tau)
    out = numpy.where(small, 4.0 * lam * kt * tau, out)
    return out


def boltzmann(dE, T):
    """exp(-dE/kT), dE in rad/fs."""
    return float(numpy.exp(-dE / kBT(T)))


def matsubara_terms_for_grid(T, dt):
    """Number of Matsubara terms of the analytic C(t) that a time grid of step dt can
    represent: all nu_n = 2 pi n kT  up to  2 pi / dt  ->  n <= 1/(kT dt).

    Fewer terms: C(t) is not the Fourier image of (1+coth) J (truncation of a 1/n^2
    series in the frequency domain).  More terms: exp(-nu_n t) decays inside one step
    and the quadrature sees a one-point spike."""
    return int(numpy.ceil(1.0 / (kBT(T) * float(dt))))


# ---------------------------------------------------------------------------
# Frenkel single-exciton block and golden-rule rates
# ---------------------------------------------------------------------------
def site_hamiltonian(energies_cm, J_cm):
    """(n x n) single-exciton block in rad/fs."""
    n = len(energies_cm)
    h = numpy.zeros((n, n))
    for i in range(n):
        h[i, i] = float(energies_cm[i]) * CM2INT
        for j in range(n):
            if i != j:
                h[i, j] = float(J_cm[i][j]) * CM2INT
    if not numpy.allclose(h, h.T):
        raise ValueError("coupling matrix must be symmetric")
    return h


def eigensystem(energies_cm, J_cm):
    """Eigenenergies (ascending, rad/fs) and eigenvectors c[n, a] of the exciton block."""
    ev, S = numpy.linalg.eigh(site_hamiltonian(energies_cm, J_cm))
    return ev, S


def golden_rule_rates(energies_cm, J_cm, baths, T):
    """K[a, b] = rate of the transfer b -> a between exciton eigenstates,

        K[a,b] = sum_n |c_na|^2 |c_nb|^2 (1 + coth(w/2kT)) J_n(w),   w = E_b - E_a,

    for every pair a != b (w > 0 downhill, w < 0 uphill; the uphill value is the
    analytic continuation and satisfies detailed balance identically).
    baths: list of (lam_cm, tau_fs) per site.  Diagonal left zero.
    Returns (K, ev, S)."""
    ev, S = eigensystem(energies_cm, J_cm)
    n = len(ev)
    K = numpy.zeros((n, n))
    for a in range(n):
        for b in range(n):
            if a == b:
                continue
            w = ev[b] - ev[a]
            s = 0.0
            for m in range(n):
                lam, tau = baths[m]
                s += (S[m, a] ** 2) * (S[m, b] ** 2) * float(
                    ft_corfce(numpy.array([w]), lam * CM2INT, tau, T)[0])
            K[a, b] = s
    return K, ev, S


def degenerate_pairs(ev, tol_cm=1.0e-6):
    """Pairs whose eigenvectors (hence |c_na|^2 |c_nb|^2) are not unique."""
    n = len(ev)
    return {(a, b) for a in range(n) for b in range(n)
            if a != b and abs(ev[a] - ev[b]) < tol_cm * CM2INT}


# ---------------------------------------------------------------------------
# Foerster: detailed balance with respect to relaxed site energies
# ---------------------------------------------------------------------------
def foerster_boltzmann(Ea_cm, lam_a_cm, Eb_cm, lam_b_cm, T):
    """k(a<-b)/k(b<-a) = exp(-((E_a - lam_a) - (E_b - lam_b))/kT)."""
    d = ((float(Ea_cm) - float(lam_a_cm)) - (float(Eb_cm) - float(lam_b_cm))) * CM2INT
    return boltzmann(d, T)


def dephasing_exponent(lam_cm, tau, T, t):
    """Re g(t) of the overdamped oscillator in the high-temperature form
    2 lam kT tau^2 (exp(-t/tau) + t/tau - 1); used only to decide whether a time
    window is long enough for the Foerster integrand exp(-g_d - g_a) to have decayed."""
    lam = lam_cm * CM2INT
    return 2.0 * lam * kBT(T) * tau * tau * (numpy.exp(-t / tau) + t / tau - 1.0)
