"""Reference census of third-order Liouville pathways (no quantarhei import; used by checks/c12.py).

Counted from the physics of the six diagram classes of a system with one ground state g, a
one-exciton band B1 and (optionally) a two-exciton band B2, given
  U[a, b, c, d]  the waiting-time evolution superoperator in the exciton basis: the amplitude with
                 which the density-matrix element |c><d| present after the second interaction has
                 become |a><b| at the end of the waiting time, and
  D2[a, b]       the squared transition dipoles.

 ground-state bleach (R3g rephasing, R4g non-rephasing): the waiting time is spent in |g><g|; one
     pathway for every ordered pair (e, e') of one-exciton states reachable from g.
 stimulated emission (R2g rephasing, R1g non-rephasing): the first two interactions create the
     element (e2, e3) of the one-exciton block (for R2g its Hermitian conjugate), which evolves
     into the element (d2, d3); one pathway for every such quadruple whose evolution element is
     non-zero and whose four transitions g-e2, g-e3, g-d2, g-d3 are allowed.
 excited-state absorption (R1f* rephasing, R2f* non-rephasing): as stimulated emission, but the
     last two interactions go through a two-exciton state f connected to both d2 and d3; one
     pathway per such f.
Because |U[a,b,c,d]| = |U[b,a,d,c]| (Hermiticity is preserved) the rephasing and the
non-rephasing member of each pair have the same count.

To be independent of the library's screening tolerances the model only speaks when every element
is either clearly zero or clearly non-zero: an evolution element with ZERO < |U| < NONZERO (or a
relative squared dipole in the corresponding window) makes the point `ambiguous` and no census is
returned.
"""
import itertools

import numpy

U_ZERO, U_NONZERO = 1e-12, 1e-4        # the library screens |U| at 1e-6
D_ZERO, D_NONZERO = 1e-20, 1e-9        # relative to max D2; the library screens at 1e-12 .. 1e-4


def expected_census(U, D2, n1, ntot):
    """(census dict {type: count} without zero entries, number of ambiguous elements).
    States: 0 = ground state, 1..n1 = one-exciton band, n1+1..ntot-1 = two-exciton band.
    U needs to cover the states 0..n1 only.  Census is None if some element is ambiguous."""
    U = numpy.asarray(U)
    D2 = numpy.asarray(D2, dtype=float)
    b1 = list(range(1, n1 + 1))
    b2 = list(range(n1 + 1, ntot))
    a = numpy.abs(U[1:n1 + 1, 1:n1 + 1, 1:n1 + 1, 1:n1 + 1])
    amb = int(numpy.sum((a > U_ZERO) & (a < U_NONZERO))) + int(numpy.sum(~numpy.isfinite(a)))
    u = numpy.zeros((ntot,) * 4, dtype=bool)
    u[1:n1 + 1, 1:n1 + 1, 1:n1 + 1, 1:n1 + 1] = a >= U_NONZERO
    d = D2 / numpy.max(D2)
    d = numpy.maximum(d, d.T)               # a transition is allowed in both directions
    amb += int(numpy.sum((d > D_ZERO) & (d < D_NONZERO)))
    if amb:
        return None, amb
    m = d >= D_NONZERO
    g = 0
    se = esa = 0
    for e2, e3, d2, d3 in itertools.product(b1, repeat=4):
        if u[d2, d3, e2, e3] and m[e2, g] and m[e3, g]:
            if m[g, d2] and m[g, d3]:
                se += 1
            esa += sum(1 for f in b2 if m[f, d2] and m[f, d3])
    gsb = sum(1 for e, e1 in itertools.product(b1, repeat=2) if m[e, g] and m[e1, g])
    out = {"R1g": se, "R2g": se, "R3g": gsb, "R4g": gsb}
    if b2:
        out.update({"R1f*": esa, "R2f*": esa})
    return {k: v for k, v in out.items() if v}, 0


def selfcheck():
    """Two uncoupled two-level molecules, free evolution: 4 non-zero block elements."""
    n1, ntot = 2, 4
    U = numpy.zeros((3, 3, 3, 3), dtype=complex)
    for x in range(3):
        for y in range(3):
            U[x, y, x, y] = numpy.exp(-1j * (x - y) * 2.0)
    D2 = numpy.zeros((4, 4))
    D2[0, 1] = D2[1, 0] = 1.0
    D2[0, 2] = D2[2, 0] = 0.5
    D2[1, 3] = D2[3, 1] = 0.5
    D2[2, 3] = D2[3, 2] = 1.0
    cen, amb = expected_census(U, D2, n1, ntot)
    assert amb == 0 and cen == {"R1g": 4, "R2g": 4, "R3g": 4, "R4g": 4, "R1f*": 4, "R2f*": 4}, cen
    U[1, 2, 1, 2] = 1e-7
    assert expected_census(U, D2, n1, ntot)[0] is None
    return True
