"""Reference ledger for the two-dimensional response storage (no quantarhei import).

The tables which pathway type belongs to which process / signal are data published by
the library (Feynman-diagram classes); they are copied here and checked for being
partitions of the eight types.
"""
import numpy

PTYPES = ["R1g", "R2g", "R3g", "R4g", "R1fs", "R2fs", "R3fs", "R4fs"]
PROCESSES = {"GSB": ["R1g", "R2g"], "SE": ["R3g", "R4g"], "ESA": ["R1fs", "R2fs"],
             "DC": ["R3fs", "R4fs"]}
# signal names are passed in (the library's constants) in this order
SIGNAL_TYPES = [["R2g", "R3g", "R1fs"], ["R1g", "R4g", "R2fs"], ["R3fs", "R4fs"]]
RESOLUTIONS = ["off", "signals", "processes", "types", "pathways"]
# admissible one-step-or-more reductions (old -> set of reachable new)
REACH = {4: {3, 2, 1, 0}, 3: {2, 1, 0}, 2: {0}, 1: {0}, 0: set()}


def assert_partitions():
    for tab in (list(PROCESSES.values()), SIGNAL_TYPES):
        flat = sorted(t for grp in tab for t in grp)
        assert flat == sorted(PTYPES), tab


class Ledger:
    """Accepted additions, keyed by the finest category they name."""

    def __init__(self, signals, total):
        assert_partitions()
        self.sig = list(signals)          # [REPH, NONR, DC] names
        self.total_name = total
        self.sigtypes = dict(zip(self.sig, SIGNAL_TYPES))
        self.entries = []                 # (level, dtype, tag, array)
        self.resolution = None            # unknown until the first accepted op

    # -- which level does a dtype belong to
    def level_of(self, dtype):
        if dtype in PTYPES:
            return "types"
        if dtype in PROCESSES:
            return "processes"
        if dtype in self.sig:
            return "signals"
        if dtype == self.total_name:
            return "off"
        return None

    def admissible_add(self, cur_res, initialized, resolution, dtype, tag):
        """True: must be accepted; False: must be refused; None: unspecified."""
        eff = resolution
        if not initialized:
            eff = resolution if resolution is not None else cur_res
            store = eff
        else:
            store = cur_res
            if eff is None:
                eff = cur_res
        if eff not in RESOLUTIONS:
            return False
        if store not in RESOLUTIONS:
            return None                       # corrupted bookkeeping is reported separately
        if RESOLUTIONS.index(eff) > RESOLUTIONS.index(store):
            return False                      # more resolution than the storage has
        if RESOLUTIONS.index(eff) < RESOLUTIONS.index(store):
            return False                      # cannot be represented: would lose or double count
        if eff == "pathways":
            if dtype not in PTYPES or tag is None:
                return False
            if any(e[0] == "pathways" and e[1] == dtype and e[2] == tag for e in self.entries):
                return None                   # re-adding to an existing tag: either way
            return True
        if tag is not None:
            return False
        return self.level_of(dtype) == eff

    def add(self, level, dtype, tag, arr):
        self.entries.append((level, dtype, tag, numpy.array(arr, dtype=complex)))

    def _sum(self, pred, shape):
        out = numpy.zeros(shape, dtype=complex)
        for (lev, d, t, a) in self.entries:
            if pred(lev, d, t):
                out += a
        return out

    def types_of(self, lev, d):
        """Set of pathway types an entry covers, or None if not type-resolved."""
        if lev in ("pathways", "types"):
            return {d}
        return None

    def view(self, kind, name, shape, tag=None):
        """Expected array of a view or None if the ledger cannot derive it."""
        if kind == "total":
            return self._sum(lambda l, d, t: True, shape)
        if kind == "pathway":
            return self._sum(lambda l, d, t: l == "pathways" and d == name and t == tag, shape)
        if kind == "type":
            if any(l not in ("pathways", "types") for (l, d, t, a) in self.entries):
                return None
            return self._sum(lambda l, d, t: d == name, shape)
        if kind == "process":
            if any(l in ("signals", "off") for (l, d, t, a) in self.entries):
                return None
            members = PROCESSES[name]
            return self._sum(lambda l, d, t: (d in members) if l in ("pathways", "types")
                             else d == name, shape)
        if kind == "signal":
            if any(l in ("processes", "off") for (l, d, t, a) in self.entries):
                return None
            members = self.sigtypes[name]
            return self._sum(lambda l, d, t: (d in members) if l in ("pathways", "types")
                             else d == name, shape)
        raise ValueError(kind)

    def summary(self):
        return sorted((l, d, str(t), a.tobytes().hex()) for (l, d, t, a) in self.entries)
