"""Reference model of the index structure of a Kubo-Tanimura hierarchy.

Pure python/numpy, NO quantarhei import.  Written from the definition:

* a multi-index over K baths is a K-tuple of non-negative integers n = (n_1..n_K);
  its order (level) is |n| = n_1 + ... + n_K;
* the hierarchy of depth D holds every multi-index with |n| <= D exactly once, stored
  level by level (all of level 0, then all of level 1, ...); the order INSIDE a level
  is not prescribed;
* number of multi-indices of level l: C(l+K-1, K-1) ("stars and bars");
  total: sum_{l<=D} C(l+K-1, K-1) = C(D+K, K);
* lowering link  (n,k) -> position of n - e_k,  absent (-1) iff n_k == 0;
* raising link   (n,k) -> position of n + e_k,  absent (-1) iff |n| == D;
* decay factor   Gamma_n = sum_k n_k * gamma_k.
"""
import itertools
from math import comb

import numpy


def compositions(K, level):
    """All K-tuples of non-negative integers with sum == level (set of tuples).

    Stars and bars: choose the K-1 bar positions among level+K-1 slots."""
    if K < 1:
        raise ValueError("K >= 1")
    out = set()
    for bars in itertools.combinations(range(level + K - 1), K - 1):
        prev = -1
        parts = []
        for b in bars:
            parts.append(b - prev - 1)
            prev = b
        parts.append(level + K - 1 - prev - 1)
        out.add(tuple(parts))
    return out


def level_length(K, level):
    return comb(level + K - 1, K - 1)


def hierarchy_size(K, depth):
    return comb(depth + K, K)


def level_starts(K, depth):
    s, out = 0, []
    for l in range(depth + 1):
        out.append(s)
        s += level_length(K, l)
    return out


def check_index_set(hinds, levels, levlengths, hsize, K, depth):
    """Compare an index table with the definition.

    Returns a list of (defect, detail) pairs; defect names are stable strings:
      shape, hsize, negative, duplicate, levels, levlengths,
      level-content (a level's rows are not exactly the compositions of that
      level: something is missing, foreign or misplaced)."""
    bad = []
    hinds = numpy.asarray(hinds)
    want_size = hierarchy_size(K, depth)
    if hinds.ndim != 2 or hinds.shape[1] != K:
        return [("shape", "hinds has shape %s, expected (*, %d)" % (hinds.shape, K))]
    if int(hsize) != want_size or hinds.shape[0] != want_size:
        bad.append(("hsize", "hsize=%s, rows=%d, expected C(%d+%d,%d)=%d"
                    % (hsize, hinds.shape[0], depth, K, K, want_size)))
    rows = [tuple(int(x) for x in r) for r in hinds]
    if any(x < 0 for r in rows for x in r):
        bad.append(("negative", "negative entry in a multi-index"))
    if len(set(rows)) != len(rows):
        seen, dup = set(), None
        for r in rows:
            if r in seen:
                dup = r
                break
            seen.add(r)
        bad.append(("duplicate", "multi-index %s occurs more than once" % (dup,)))
    starts = level_starts(K, depth)
    lens = [level_length(K, l) for l in range(depth + 1)]
    lv = [int(x) for x in numpy.asarray(levels).ravel()]
    ll = [int(x) for x in numpy.asarray(levlengths).ravel()]
    if lv != starts:
        bad.append(("levels", "levels=%s expected %s" % (lv, starts)))
    if ll != lens:
        bad.append(("levlengths", "levlengths=%s expected %s" % (ll, lens)))
    # content level by level, located by the REFERENCE offsets (so that a wrong
    # `levels` array and a wrong ordering are distinct defects)
    for l in range(depth + 1):
        got = rows[starts[l]:starts[l] + lens[l]]
        want = compositions(K, l)
        if set(got) != want or len(got) != len(want):
            missing = sorted(want - set(got))[:3]
            foreign = sorted(set(got) - want)[:3]
            bad.append(("level-content",
                        "level %d: missing %s, foreign %s, %d rows for %d compositions"
                        % (l, missing, foreign, len(got), len(want))))
            break
    # union: every multi-index with |n| <= depth somewhere (exactly once is covered
    # by 'duplicate' + 'hsize')
    allwant = set()
    for l in range(depth + 1):
        allwant |= compositions(K, l)
    if set(rows) != allwant and not any(b[0] == "level-content" for b in bad):
        bad.append(("level-content", "index set differs from all |n|<=%d" % depth))
    return bad


def neighbour_tables(hinds, depth):
    """Reference lowering / raising tables for a given row order of hinds."""
    hinds = numpy.asarray(hinds)
    n, K = hinds.shape
    pos = {}
    for i, r in enumerate(hinds):
        pos.setdefault(tuple(int(x) for x in r), i)
    nm1 = -numpy.ones((n, K), dtype=int)
    np1 = -numpy.ones((n, K), dtype=int)
    for i, r in enumerate(hinds):
        r = [int(x) for x in r]
        for k in range(K):
            if r[k] > 0:
                lo = list(r)
                lo[k] -= 1
                nm1[i, k] = pos.get(tuple(lo), -1)
            if sum(r) < depth:
                up = list(r)
                up[k] += 1
                np1[i, k] = pos.get(tuple(up), -1)
    return nm1, np1


def check_links(hinds, nm1, np1, depth):
    """Link consistency.  Returns list of (defect, detail); defects:
      shape,
      lower-present-at-boundary  (n_k == 0 but nm1 != -1),
      lower-absent-inside        (n_k  > 0 but nm1 == -1),
      lower-target               (hinds[nm1[n,k]] != n - e_k),
      raise-present-at-boundary  (|n| == depth but np1 != -1),
      raise-absent-inside        (|n|  < depth but np1 == -1),
      raise-target               (hinds[np1[n,k]] != n + e_k),
      raise-lower-not-inverse    (nm1[np1[n,k],k] != n),
      lower-raise-not-inverse    (np1[nm1[n,k],k] != n)."""
    hinds = numpy.asarray(hinds)
    nm1 = numpy.asarray(nm1)
    np1 = numpy.asarray(np1)
    n, K = hinds.shape
    if nm1.shape != (n, K) or np1.shape != (n, K):
        return [("shape", "nm1 %s / np1 %s, expected %s" % (nm1.shape, np1.shape, (n, K)))]
    bad = {}

    def add(name, detail):
        bad.setdefault(name, detail)

    for i in range(n):
        r = [int(x) for x in hinds[i]]
        for k in range(K):
            lo, up = int(nm1[i, k]), int(np1[i, k])
            # ---- lowering
            if r[k] == 0:
                if lo != -1:
                    add("lower-present-at-boundary",
                        "n=%s k=%d: nm1=%d although n_k=0" % (r, k, lo))
            else:
                if lo == -1:
                    add("lower-absent-inside", "n=%s k=%d: nm1=-1 although n_k>0" % (r, k))
                elif not (0 <= lo < n):
                    add("lower-target", "n=%s k=%d: nm1=%d out of range" % (r, k, lo))
                else:
                    want = list(r)
                    want[k] -= 1
                    if [int(x) for x in hinds[lo]] != want:
                        add("lower-target", "n=%s k=%d: nm1 points to %s"
                            % (r, k, [int(x) for x in hinds[lo]]))
                    if int(np1[lo, k]) != i:
                        add("lower-raise-not-inverse",
                            "n=%s k=%d: np1[nm1[n,k],k]=%d != %d" % (r, k, int(np1[lo, k]), i))
            # ---- raising
            if sum(r) >= depth:
                if up != -1:
                    add("raise-present-at-boundary",
                        "n=%s k=%d: np1=%d although |n|=depth" % (r, k, up))
            else:
                if up == -1:
                    add("raise-absent-inside", "n=%s k=%d: np1=-1 although |n|<depth" % (r, k))
                elif not (0 <= up < n):
                    add("raise-target", "n=%s k=%d: np1=%d out of range" % (r, k, up))
                else:
                    want = list(r)
                    want[k] += 1
                    if [int(x) for x in hinds[up]] != want:
                        add("raise-target", "n=%s k=%d: np1 points to %s"
                            % (r, k, [int(x) for x in hinds[up]]))
                    if int(nm1[up, k]) != i:
                        add("raise-lower-not-inverse",
                            "n=%s k=%d: nm1[np1[n,k],k]=%d != %d" % (r, k, int(nm1[up, k]), i))
    return sorted(bad.items())


def decay_factors(hinds, gammas):
    """Gamma_n = sum_k n_k gamma_k."""
    return numpy.asarray(hinds, dtype=float) @ numpy.asarray(gammas, dtype=float)
