"""Element-level oracles for relaxation tensors (numpy only, no quantarhei import).

A relaxation tensor is an array R[a,b,c,d] (or R[t,a,b,c,d]) acting as
d/dt rho_ab = sum_cd R_abcd rho_cd.

* trace preservation        sum_a R[a,a,c,d] = 0                 for every (t,) c, d
* Hermiticity preservation  conj(R[a,b,c,d]) = R[b,a,d,c]        for every (t,) a, b, c, d
* secular form              kept = {[a,a,b,b]} u {[a,b,a,b]}; everything else is zero

Every function works on the last four axes, so a leading time axis is covered index by
index (nothing is reduced over time before the comparison).
"""
import numpy


def finite(R):
    return bool(numpy.all(numpy.isfinite(R)))


def scale(R):
    """max |entry| over the whole array (all time indices)."""
    R = numpy.asarray(R)
    if R.size == 0:
        return 0.0
    return float(numpy.max(numpy.abs(R)))


def trace_defect(R):
    """D[..., c, d] = sum_a R[..., a, a, c, d]."""
    R = numpy.asarray(R)
    return numpy.einsum("...aacd->...cd", R)


def hermiticity_defect(R):
    """D[..., a, b, c, d] = conj(R[..., a, b, c, d]) - R[..., b, a, d, c]."""
    R = numpy.asarray(R)
    sw = numpy.swapaxes(numpy.swapaxes(R, -4, -3), -2, -1)
    return numpy.conj(R) - sw


def worst(D):
    """(max |D|, index of the first element reaching it) ; (0.0, None) for empty arrays."""
    D = numpy.asarray(D)
    if D.size == 0:
        return 0.0, None
    A = numpy.abs(D)
    k = int(numpy.argmax(A))
    return float(A.flat[k]), [int(i) for i in numpy.unravel_index(k, A.shape)]


def first_over(D, tol):
    """Smallest index (lexicographic: earliest time, then a,b,c,d) with |D| > tol."""
    A = numpy.abs(numpy.asarray(D)) > tol
    if not A.any():
        return None
    k = int(numpy.argmax(A))
    return [int(i) for i in numpy.unravel_index(k, A.shape)]


def secular_mask(N):
    """True for the elements a secular tensor may keep: [a,a,b,b] and [a,b,a,b]."""
    m = numpy.zeros((N, N, N, N), dtype=bool)
    for a in range(N):
        for b in range(N):
            m[a, a, b, b] = True
            m[a, b, a, b] = True
    return m


def trace_signature(D, tol):
    """Where the trace identity fails: population columns (c == d), coherence columns
    (c != d) or both."""
    A = numpy.abs(numpy.asarray(D)) > tol
    N = A.shape[-1]
    eye = numpy.eye(N, dtype=bool)
    on = bool((A & eye).any())
    off = bool((A & ~eye).any())
    if on and off:
        return "all-columns"
    if on:
        return "population-columns"
    if off:
        return "coherence-columns"
    return "none"


def hermiticity_signature(R, D, tol):
    """Shape of a Hermiticity violation.

    dephasing-symmetric-not-conjugate : only coherence-decay elements [a,b,a,b], a != b,
        offend, and there R[a,b,a,b] == R[b,a,b,a] (a complex dephasing rate was written
        symmetrically into both elements instead of as a conjugate pair)
    dephasing-elements : only [a,b,a,b] elements offend (not symmetric)
    population-elements : only [a,a,b,b] elements offend (complex transfer rates)
    secular-elements : only kept (secular) elements offend
    general : anything else
    """
    R = numpy.asarray(R)
    A = numpy.abs(numpy.asarray(D)) > tol
    if not A.any():
        return "none"
    N = R.shape[-1]
    abab = numpy.zeros((N, N, N, N), dtype=bool)
    aabb = numpy.zeros((N, N, N, N), dtype=bool)
    for a in range(N):
        for b in range(N):
            aabb[a, a, b, b] = True
            if a != b:
                abab[a, b, a, b] = True
    if not (A & ~abab).any():
        sw = numpy.swapaxes(numpy.swapaxes(R, -4, -3), -2, -1)
        sym = numpy.abs(R - sw) <= tol
        if bool(numpy.all(sym | ~A)):
            return "dephasing-symmetric-not-conjugate"
        return "dephasing-elements"
    if not (A & ~aabb).any():
        return "population-elements"
    if not (A & ~(aabb | abab)).any():
        return "secular-elements"
    return "general"


def expected_secular(pre):
    """The secular projection of `pre`, from the definition."""
    pre = numpy.asarray(pre)
    m = secular_mask(pre.shape[-1])
    return numpy.where(m, pre, 0.0)


def secular_compare(pre, post, tol=0.0):
    """Compare `post` with the secular projection of `pre`.

    Returns dict(kept_err, kept_idx, zero_err, zero_idx, removed): worst change of a
    kept element, worst magnitude of an element that should be zero (with the index of
    the first offender above tol), and the weight (max |entry|) that the projection
    removes from `pre` (non-vacuity: > 0 means the tensor was not secular already)."""
    pre = numpy.asarray(pre)
    post = numpy.asarray(post)
    if pre.shape != post.shape:
        return {"shape": [list(pre.shape), list(post.shape)]}
    m = secular_mask(pre.shape[-1])
    mb = numpy.broadcast_to(m, pre.shape)
    dk = numpy.where(mb, post - pre, 0.0)
    dz = numpy.where(mb, 0.0, post)
    rem = numpy.where(mb, 0.0, pre)
    out = {"kept_err": float(numpy.max(numpy.abs(dk))) if dk.size else 0.0,
           "zero_err": float(numpy.max(numpy.abs(dz))) if dz.size else 0.0,
           "removed": float(numpy.max(numpy.abs(rem))) if rem.size else 0.0,
           "kept_idx": first_over(dk, tol), "zero_idx": first_over(dz, tol)}
    if not (numpy.all(numpy.isfinite(post))):
        out["kept_err"] = out["zero_err"] = float("inf")
    return out
