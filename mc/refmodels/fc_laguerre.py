"""Displaced harmonic oscillator: closed-form reference (numpy only, NO quantarhei).

Conventions (the ones documented in quantarhei/qm/oscillators/ho.py):

    D(d) = exp( (d a^+ - d* a)/sqrt(2) ),      alpha = d/sqrt(2),   S = |alpha|^2 = d^2/2

    <m|D(d)|n> = sqrt(n!/m!) alpha^(m-n) exp(-S/2) L_n^(m-n)(S)              (m >= n)
               = sqrt(m!/n!) (-alpha*)^(n-m) exp(-S/2) L_m^(n-m)(S)          (m <  n)

with the generalised Laguerre polynomials L_n^(k) evaluated by their three-term recurrence.
D(d) psi(Q) = psi(Q - d); the Huang-Rhys factor of a potential displaced by d is S = d^2/2.

Everything below follows from this formula plus Kronecker products over modes; nothing is
obtained by diagonalising a truncated generator.
"""
import itertools
from functools import lru_cache
from math import lgamma

import numpy

MAXLEV = 20          # size of the cached reference blocks


# --------------------------------------------------------------------------
# single mode
# --------------------------------------------------------------------------
def genlaguerre(n, k, x):
    """L_n^(k)(x), integer n >= 0, real k >= 0, by the forward recurrence
    (j+1) L_{j+1} = (2j+1+k-x) L_j - (j+k) L_{j-1}."""
    l0 = 1.0
    if n == 0:
        return l0
    l1 = 1.0 + k - x
    for j in range(1, n):
        l0, l1 = l1, ((2 * j + 1 + k - x) * l1 - (j + k) * l0) / (j + 1)
    return l1


def disp_element(m, n, d):
    """<m|D(d)|n> for real or complex shift d."""
    d = complex(d)
    al = d / numpy.sqrt(2.0)
    s = abs(al) ** 2
    if m >= n:
        pref = numpy.exp(0.5 * (lgamma(n + 1) - lgamma(m + 1)))
        val = pref * al ** (m - n) * numpy.exp(-s / 2.0) * genlaguerre(n, m - n, s)
    else:
        pref = numpy.exp(0.5 * (lgamma(m + 1) - lgamma(n + 1)))
        val = pref * (-numpy.conj(al)) ** (n - m) * numpy.exp(-s / 2.0) * genlaguerre(m, n - m, s)
    return val


@lru_cache(maxsize=4096)
def _disp_block(d, M):
    D = numpy.zeros((M, M), dtype=complex)
    for m in range(M):
        for n in range(M):
            D[m, n] = disp_element(m, n, d)
    if abs(complex(d).imag) == 0.0:
        D = D.real.copy()
    D.setflags(write=False)
    return D


def disp_matrix(d, M=MAXLEV):
    """M x M upper-left block of the (infinite) matrix <m|D(d)|n>; real for real d."""
    if isinstance(d, complex) and d.imag == 0.0:
        d = d.real
    return _disp_block(d, int(M))


def poisson(S, M):
    """Poisson probabilities p_m = exp(-S) S^m / m!, m = 0..M-1 (independent of the
    Laguerre code: direct evaluation through lgamma)."""
    S = float(S)
    p = numpy.zeros(M)
    if S == 0.0:
        p[0] = 1.0
        return p
    for m in range(M):
        p[m] = numpy.exp(-S + m * numpy.log(S) - lgamma(m + 1))
    return p


@lru_cache(maxsize=65536)
def row_tail(d, m, N, extra=90):
    """t_m(N) = sum_{k >= N} |<m|D(d)|k>|^2 (= 1 - sum_{k<N} |<m|D|k>|^2), summed directly
    as a series of positive terms (no cancellation for tiny tails); the terms decay like
    S^k/k!, `extra` terms are more than enough for S <= 10 and m <= 25."""
    t = 0.0
    for k in range(N, N + extra):
        t += abs(disp_element(m, k, d)) ** 2
    return float(t)


def ground_energy_bound(S, N):
    """Upper bound (units of omega) on lambda_0(N) - 1/2, the excess of the lowest
    eigenvalue of the displaced oscillator truncated to N number states of the
    UNdisplaced oscillator.  Trial vector P_N|0;d>:  (a - alpha) P_N |0;d> =
    -alpha c_{N-1} |N-1>, hence   lambda_0(N) - 1/2 <= S p_{N-1} / (1 - t_N)."""
    p = poisson(S, N)
    norm = float(numpy.sum(p))
    if norm <= 0:
        return float("inf")
    return float(S * p[N - 1] / norm)


def truncated_oscillator(omega, d, N):
    """N x N matrix of omega (a^+ a - d Q + d^2/2 + 1/2), Q = (a + a^+)/sqrt(2), in the
    number basis of the undisplaced oscillator (potential minimum at Q = d)."""
    h = numpy.zeros((N, N))
    for k in range(N):
        h[k, k] = omega * (k + 0.5 + d * d / 2.0)
        if k + 1 < N:
            h[k, k + 1] = h[k + 1, k] = -omega * d * numpy.sqrt((k + 1) / 2.0)
    return h


def mode_w(md, e):
    """frequency of the mode in electronic state e: md["ws"][e] if the mode has its own
    frequency in every electronic state, md["w"] otherwise"""
    if md.get("ws") is not None:
        return float(md["ws"][e])
    return float(md["w"])


def molecule_spectrum(elenergies, modes):
    """Reference spectrum of one molecule.

    modes: list of dicts {"w": omega (or "ws": [omega per electronic state]),
    "d": [shift per electronic state], "n": [levels per electronic state]}.
    Returns (per-state list of sorted eigenvalues of the truncated model,
             per-state list of the sorted lowest levels of the untruncated ladder,
             per-state upper bound on the truncation excess of the lowest level,
             per-state ladder E + sum (k_j+1/2) w_j restricted to k_j < N_j)."""
    trunc, exact, gbound, box = [], [], [], []
    for e, en in enumerate(elenergies):
        ev = numpy.array([float(en)])
        ex = numpy.array([float(en)])
        gb = 0.0
        for md in modes:
            w, d, N = mode_w(md, e), float(md["d"][e]), int(md["n"][e])
            lam = numpy.linalg.eigvalsh(truncated_oscillator(w, d, N))
            ev = numpy.add.outer(ev, lam).ravel()
            ex = numpy.add.outer(ex, w * (numpy.arange(N) + 0.5)).ravel()
            gb += w * ground_energy_bound(d * d / 2.0, N)
        trunc.append(numpy.sort(ev))
        # ladder restricted to the declared levels (what an UNdisplaced state must show)
        box.append(numpy.sort(ex))
        # the len(ev) lowest levels of the full (untruncated) ladder: lower bounds of the
        # Ritz values of any truncation (min-max theorem)
        exact.append(_lowest_ladder(en, modes, e, len(ev)))
        gbound.append(gb)
    return trunc, exact, gbound, box


def molecule_hamiltonian(elenergies, modes, sigma=1):
    """Element-wise reference of the Hamiltonian of one molecule in the number basis of the
    UNdisplaced oscillators: block diagonal over the electronic states; the block of state e is

        E_e 1  +  sum_k  1 x ... x h_k(e) x ... x 1 ,      h_k(e) = truncated_oscillator(
                                                             w_k, sigma d_k(e), N_k(e))

    i.e. the SUM over the modes of one-mode displaced-oscillator Hamiltonians, every one
    acting as the identity on all other modes (Kronecker products, C order of the quantum
    number tuples = itertools.product order).  sigma = -1 mirrors every coordinate.
    Returns (labels [(e, tuple of quantum numbers)], H)."""
    labels, blocks = [], []
    for e, en in enumerate(elenergies):
        dims = [int(md["n"][e]) for md in modes]
        size = 1
        for n in dims:
            size *= n
        B = float(en) * numpy.eye(size)
        for k, md in enumerate(modes):
            h = truncated_oscillator(mode_w(md, e), sigma * float(md["d"][e]), dims[k])
            left = 1
            for n in dims[:k]:
                left *= n
            right = 1
            for n in dims[k + 1:]:
                right *= n
            B = B + numpy.kron(numpy.eye(left), numpy.kron(h, numpy.eye(right)))
        blocks.append(B)
        for vs in itertools.product(*[range(n) for n in dims]):
            labels.append((e, tuple(vs)))
    ntot = len(labels)
    H = numpy.zeros((ntot, ntot))
    off = 0
    for B in blocks:
        H[off:off + B.shape[0], off:off + B.shape[0]] = B
        off += B.shape[0]
    return labels, H


def _lowest_ladder(en, modes, e, count):
    """count lowest values of en + sum_j w_j (k_j + 1/2), k_j >= 0."""
    if not modes:
        return numpy.array([float(en)])
    ws = [mode_w(md, e) for md in modes]
    wmin = min(ws)
    # a box that certainly contains the `count` lowest levels
    kmax = [int(numpy.ceil(count * wmin / w)) + 1 for w in ws]
    vals = numpy.array([float(en) + sum(w * 0.5 for w in ws)])
    for w, km in zip(ws, kmax):
        vals = numpy.add.outer(vals, w * numpy.arange(km + 1)).ravel()
    return numpy.sort(vals)[:count]


# --------------------------------------------------------------------------
# aggregates of molecules (two electronic levels by default) with modes
# --------------------------------------------------------------------------
def el_signatures(nmol, mult, nlev=None):
    """All electronic signatures with at most `mult` excitations (as a set-like sorted
    list).  Two-level molecules by default; nlev = number of electronic levels of every
    molecule: molecule i can be in level 0..nlev[i]-1, the number of excitations of a
    signature is the sum of its levels."""
    if nlev is None or all(int(n) == 2 for n in nlev):
        sigs = []
        for m in range(0, mult + 1):
            for exc in itertools.combinations(range(nmol), m):
                sigs.append(tuple(1 if i in exc else 0 for i in range(nmol)))
        return sigs
    allsigs = itertools.product(*[range(int(n)) for n in nlev])
    return sorted((s for s in allsigs if sum(s) <= mult), key=lambda s: (sum(s), s))


def state_count(spec, elsig):
    """Number of vibronic states of an electronic state = product of the declared
    level counts of all modes of all molecules (each in the electronic state the
    molecule is in)."""
    n = 1
    for i, mol in enumerate(spec["mols"]):
        for md in mol["modes"]:
            n *= int(md["n"][elsig[i]])
    return n


def vib_signatures(spec, elsig):
    rng = []
    for i, mol in enumerate(spec["mols"]):
        for md in mol["modes"]:
            rng.append(range(int(md["n"][elsig[i]])))
    return list(itertools.product(*rng))      # C order, () when there is no mode


def el_coupling(spec, ea, eb, full=False):
    """Frenkel resonance coupling between two different electronic signatures of two-level
    molecules: J_kl between signatures that differ on exactly the two molecules k, l and

    * belong to the same band (one excitation hops from l to k), or
    * full=True only: belong to bands that differ by two (both molecules are excited or
      de-excited at once: the non-secular terms J_kl (s_k^+ s_l^+ + s_k s_l) of the dipole-dipole
      interaction, which the package includes on request: build(fem_full=True) /
      coupling(.., full=True)).

    Everything else is zero.  Pairs in which a differing molecule is in its second or a
    higher excited level have no electronic quantity defined by the inputs (one resonance
    coupling per pair of molecules is declared, that of the 0-1 transitions): 0 is returned
    and el_coupling_defined() says so."""
    if ea == eb:
        return 0.0
    diff = [i for i in range(len(ea)) if ea[i] != eb[i]]
    if len(diff) != 2:
        return 0.0
    k, l = diff
    if max(ea[k], eb[k], ea[l], eb[l]) > 1:
        return 0.0
    if sum(ea) == sum(eb) or (full and abs(sum(ea) - sum(eb)) == 2):
        return float(spec["J"][k][l])
    return 0.0


def el_coupling_defined(ea, eb):
    """False for the pairs of signatures that differ on exactly two molecules one of which
    is in its second or a higher excited level (see el_coupling)."""
    diff = [i for i in range(len(ea)) if ea[i] != eb[i]]
    if len(diff) != 2:
        return True
    k, l = diff
    return max(ea[k], eb[k], ea[l], eb[l]) <= 1


def el_dipole(spec, ea, eb):
    """Electronic transition dipole between two signatures: they differ on exactly one
    molecule k, which goes from level a to level b; the dipole is the one declared for the
    transition a <-> b of that molecule (mol["dips"]["a-b"], a < b; two-level molecules:
    mol["dip"] for 0 <-> 1), for |a - b| = 1 or 2; zero otherwise."""
    diff = [i for i in range(len(ea)) if ea[i] != eb[i]]
    if len(diff) != 1 or abs(sum(ea) - sum(eb)) not in (1, 2):
        return numpy.zeros(3)
    mol = spec["mols"][diff[0]]
    a, b = sorted((int(ea[diff[0]]), int(eb[diff[0]])))
    if mol.get("dips") is not None:
        return numpy.array(mol["dips"].get("%d-%d" % (a, b), [0.0, 0.0, 0.0]), dtype=float)
    if (a, b) != (0, 1):
        return numpy.zeros(3)
    return numpy.array(mol["dip"], dtype=float)


def fc_block(spec, ea, eb, sigma=1):
    """Matrix of Franck-Condon overlaps between all vibrational signatures of the
    electronic states ea (rows) and eb (columns), both in C order:
    Kronecker product over all modes of D(sigma (d_a - d_b))[:n_a, :n_b].

    sigma = +1 is the orientation of the coordinate used by quantarhei's aggregate
    (overlap = <n_a|D(d_a - d_b)|n_b>), sigma = -1 the mirrored one (Q -> -Q for every
    mode, a unitarily equivalent description: all operators are conjugated by the diagonal
    sign matrix (-1)^(total vibrational quantum number))."""
    B = numpy.ones((1, 1))
    for i, mol in enumerate(spec["mols"]):
        for md in mol["modes"]:
            da, db = float(md["d"][ea[i]]), float(md["d"][eb[i]])
            na, nb = int(md["n"][ea[i]]), int(md["n"][eb[i]])
            D = disp_matrix(sigma * (da - db), max(na, nb, 1))[:na, :nb]
            B = numpy.kron(B, D)
    return B


def block_tails(spec, ea, eb):
    """T_i = 1 - sum_b |FC[i,b]|^2 for every row of fc_block (C order of ea's vibrational
    signatures; independent of sigma): 1 - prod_modes (1 - t_mode), evaluated without
    cancellation."""
    logs = numpy.zeros(1)
    for i, mol in enumerate(spec["mols"]):
        for md in mol["modes"]:
            da, db = float(md["d"][ea[i]]), float(md["d"][eb[i]])
            na, nb = int(md["n"][ea[i]]), int(md["n"][eb[i]])
            t = numpy.array([min(row_tail(da - db, m, nb), 1.0 - 1e-300) for m in range(na)])
            logs = numpy.add.outer(logs, numpy.log1p(-t)).ravel()
    return -numpy.expm1(logs)


def aggregate_reference(spec, elsigs, sigma=1, full=False):
    """Reference FC, H and dipole matrices for the electronic signatures `elsigs` (in
    the given order), vibrational signatures in C order inside each electronic state.
    full=True: the Hamiltonian also carries the couplings between bands that differ by two
    excitations (see el_coupling).

    spec = {"mols": [{"E": [e0, e1], "dip": [x,y,z], "modes": [{"w","d":[d0,d1],
            "n":[n0,n1]}]}], "J": matrix}
    Returns labels, FC, H, DD."""
    labels = []
    offs = []
    for es in elsigs:
        offs.append(len(labels))
        for vs in vib_signatures(spec, es):
            labels.append((tuple(es), tuple(vs)))
    ntot = len(labels)
    offs.append(ntot)
    FC = numpy.zeros((ntot, ntot))
    H = numpy.zeros((ntot, ntot))
    DD = numpy.zeros((ntot, ntot, 3))
    for ia, ea in enumerate(elsigs):
        sa = slice(offs[ia], offs[ia + 1])
        for ib, eb in enumerate(elsigs):
            sb = slice(offs[ib], offs[ib + 1])
            B = fc_block(spec, ea, eb, sigma)
            FC[sa, sb] = B
            H[sa, sb] = el_coupling(spec, tuple(ea), tuple(eb), full) * B
            DD[sa, sb, :] = B[:, :, None] * el_dipole(spec, tuple(ea), tuple(eb))[None, None, :]
    # diagonal: electronic energy + vibrational ladder
    for a, (es, vs) in enumerate(labels):
        en = 0.0
        k = 0
        for i, mol in enumerate(spec["mols"]):
            en += float(mol["E"][es[i]])
            for md in mol["modes"]:
                en += vs[k] * float(md["w"])
                k += 1
        H[a, a] = en
    return labels, FC, H, DD


# --------------------------------------------------------------------------
def selfcheck():
    """Internal consistency of the reference (not used as an oracle for itself in the
    checks; run by the driver once per process): unitarity of a large block, group law
    D(a)D(b) = D(a+b) for real shifts, Poisson column, agreement with scipy if present."""
    worst = 0.0
    for d in (0.3, -1.1, 2.0):
        D = disp_matrix(d, 60)
        worst = max(worst, float(numpy.max(numpy.abs((D @ D.T)[:20, :20] - numpy.eye(20)))))
        p = poisson(d * d / 2.0, 20)
        worst = max(worst, float(numpy.max(numpy.abs(D[:20, 0] ** 2 - p))))
    A, B, C = disp_matrix(0.4, 60), disp_matrix(0.7, 60), disp_matrix(0.4 + 0.7, 60)
    worst = max(worst, float(numpy.max(numpy.abs((A @ B)[:15, :15] - C[:15, :15]))))
    try:
        from scipy.special import eval_genlaguerre
        for n in range(0, 20):
            for k in range(0, 20):
                for x in (0.01, 0.5, 2.0, 8.0):
                    a, b = genlaguerre(n, k, x), float(eval_genlaguerre(n, k, x))
                    worst = max(worst, abs(a - b) / max(1.0, abs(b)))
    except ImportError:
        pass
    return worst
