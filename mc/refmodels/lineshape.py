"""Line-shape function of the overdamped Brownian oscillator, high-temperature form.

Pure numpy/scipy, NO quantarhei import.  Internal units of the package under test:
time in fs, energies as angular frequencies in rad/fs (hbar = 1).

High-temperature (classical-fluctuation) bath correlation function of an overdamped
Brownian oscillator with reorganisation energy lam, correlation time tau = 1/gamma,
temperature T:

    C(t) = lam * (2 kB T / hbar - i gamma) * exp(-gamma t),   t >= 0

This single exponential is exactly the bath the Kubo-Tanimura hierarchy without
Matsubara/low-temperature correction terms represents (one auxiliary index per bath,
decay rate gamma, coefficient c = lam (2 kB T - i gamma)).  Its line-shape function

    g(t) = int_0^t dt' int_0^t' dt'' C(t'')
         = lam (2 kB T - i gamma) / gamma^2 * (exp(-gamma t) + gamma t - 1)

For a system whose Hamiltonian commutes with all system-bath coupling operators
(uncoupled sites, V_k = |k><k|, independent baths) the second cumulant is exact:

    rho_k0(t) = rho_k0(0) exp(-i w_k0 t - g_k(t))                   optical coherence
    rho_kl(t) = rho_kl(0) exp(-i w_kl t - g_k(t) - conj(g_l(t)))    k != l, both excited
    rho_kk(t) = rho_kk(0)

(site energies are vertical/Franck-Condon energies: Im g(t) -> -lam t at long times
shifts the line to the 0-0 position).
"""
import numpy
import scipy.constants as const

# 1 cm^-1 as angular frequency in rad/fs
CM2INT = 2.0 * numpy.pi * const.c * 100.0 * 1.0e-15
# kB/hbar in rad/(fs K)
KB_INT = const.k / const.hbar * 1.0e-15


def to_int(e_cm):
    return float(e_cm) * CM2INT


def kBT_int(T):
    return float(T) * KB_INT


def corfce_ht(t, lam, gamma, kBT):
    """C(t) = lam (2 kBT - i gamma) exp(-gamma t); all in internal units."""
    t = numpy.asarray(t, dtype=float)
    return lam * (2.0 * kBT - 1j * gamma) * numpy.exp(-gamma * t)


def g_ht(t, lam, gamma, kBT):
    """g(t) of the high-temperature overdamped Brownian oscillator."""
    t = numpy.asarray(t, dtype=float)
    if lam == 0.0:
        return numpy.zeros(t.shape, dtype=complex)
    x = gamma * t
    # exp(-x) + x - 1 evaluated without cancellation for small x
    small = x < 1e-3
    f = numpy.where(small, x * x / 2.0 - x ** 3 / 6.0 + x ** 4 / 24.0,
                    numpy.exp(-x) + x - 1.0)
    return lam * (2.0 * kBT - 1j * gamma) / gamma ** 2 * f


def g_from_samples(t, c):
    """Numerical double integral (cumulative trapezoid, twice) of sampled C(t);
    error O(dt^2 |C''| t^2); used only as a guard that the analytic g belongs to
    the bath that was actually attached."""
    t = numpy.asarray(t, dtype=float)
    c = numpy.asarray(c, dtype=complex)
    dt = numpy.diff(t)
    h = numpy.concatenate(([0.0], numpy.cumsum(0.5 * (c[1:] + c[:-1]) * dt)))
    g = numpy.concatenate(([0.0], numpy.cumsum(0.5 * (h[1:] + h[:-1]) * dt)))
    return g


def bath_params_int(bath):
    """(lam, gamma, kBT) in internal units from a spec {"reorg" [1/cm], "cortime" [fs],
    "T" [K]}."""
    return to_int(bath["reorg"]), 1.0 / float(bath["cortime"]), kBT_int(bath["T"])


def pure_dephasing_solution(rho0, t, H_rot_diag, gs, site_of_state):
    """Exact reduced dynamics for a diagonal Hamiltonian with site-projector coupling.

    rho0            (N,N) initial reduced density matrix
    t               (Nt,) times
    H_rot_diag      (N,)  diagonal of H - Omega (rotating frame), rad/fs
    gs              list of g_k(t) arrays, one per bath
    site_of_state   length-N list: index of the bath coupled to state a (projector
                    |a><a|), or None for a state without bath (ground state)
    returns (Nt,N,N)
    """
    rho0 = numpy.asarray(rho0, dtype=complex)
    t = numpy.asarray(t, dtype=float)
    N = rho0.shape[0]
    out = numpy.zeros((t.shape[0], N, N), dtype=complex)
    zero = numpy.zeros(t.shape[0], dtype=complex)
    for a in range(N):
        for b in range(N):
            if a == b:
                out[:, a, b] = rho0[a, b]
                continue
            ga = gs[site_of_state[a]] if site_of_state[a] is not None else zero
            gb = gs[site_of_state[b]] if site_of_state[b] is not None else zero
            w = H_rot_diag[a] - H_rot_diag[b]
            out[:, a, b] = rho0[a, b] * numpy.exp(-1j * w * t - ga - numpy.conj(gb))
    return out
