"""Direct Fourier sums and conjugate-axis formulas (no quantarhei import)."""
import numpy


def conjugate_axis(N, step, atype, direction="t"):
    """(length, step, start-for-zero-offset) of the axis conjugate to one of N points."""
    if atype == "complete":
        dw = 2.0 * numpy.pi / (N * step)
        return N, dw, -(N // 2) * dw
    if direction == "t":
        dw = 2.0 * numpy.pi / (2 * N * step)
        return 2 * N, dw, -N * dw
    dt = 2.0 * numpy.pi / (N * step)
    return N // 2, dt, 0.0


def direct_sum(t, y, dt, w, atype):
    """sum_n f(t_n) exp(i w t_n) dt at every w; Hermitian extension f(-t)=conj f(t)
    for upper-half axes (the point t=0 is counted once)."""
    t = numpy.asarray(t, dtype=float)
    y = numpy.asarray(y, dtype=complex)
    w = numpy.asarray(w, dtype=float)
    E = numpy.exp(1j * numpy.outer(w, t))
    if atype == "complete":
        return E.dot(y) * dt
    out = y[0] * E[:, 0] + E[:, 1:].dot(y[1:]) + numpy.conj(E[:, 1:]).dot(numpy.conj(y[1:]))
    return out * dt
