"""Reference model of a Frenkel-exciton aggregate of two-level molecules.

Pure numpy/scipy, NO quantarhei import.  Everything is written from the textbook
definition:

* many-body states = subsets S of the molecule set with |S| <= mult, listed band by
  band (|S| = 0, 1, 2, ...);
* <S|H|S>  = sum of the transition energies of the molecules in S;
* <S|H|T>  = J[k,l]  iff |S| = |T| and T is S with ONE excitation moved from k to l
             (S \\ T = {k}, T \\ S = {l});  0 otherwise, in particular between bands;
* <S|mu|T> = d_k     iff | |S|-|T| | = 1 and the larger set is the smaller one plus
             molecule k;  0 otherwise;
* point-dipole coupling (d1.d2 - 3 (d1.n)(d2.n)) / (4 pi eps0 eps_r R^3) evaluated in SI
  from Debye and Angstrom and expressed as a wavenumber (E = h c nu~);
* energy-unit factors recomputed from scipy.constants (CODATA of the installed scipy);
* molecules with more than two levels (functions ml_*): states = occupation tuples with at most
  `mult` quanta ordered by band, <s|H|s> = sum of the molecular level energies, and the
  classification of pairs of states (which elements may be non-zero at all).
"""
import itertools
import math

import numpy
import scipy.constants as const


# ---------------------------------------------------------------------------
# states
# ---------------------------------------------------------------------------
def excitation_sets(nmol, mult):
    """All subsets with at most `mult` excited molecules, band by band; inside a band in
    itertools.combinations (lexicographic) order."""
    out = []
    for b in range(mult + 1):
        out.extend(itertools.combinations(range(nmol), b))
    return [tuple(s) for s in out]


def band_sizes(nmol, mult):
    return [math.comb(nmol, b) for b in range(mult + 1)]


def signature(exc, nmol):
    """Occupation tuple (0/1 per molecule) of an excitation set."""
    s = [0] * nmol
    for k in exc:
        s[k] = 1
    return tuple(s)


def set_of_signature(sig):
    """Excitation set of an occupation tuple; None if it is not a 0/1 tuple."""
    if any(x not in (0, 1) for x in sig):
        return None
    return tuple(i for i, x in enumerate(sig) if x == 1)


def check_signatures(sigs, nmol, mult):
    """Defects of a list of occupation tuples that is supposed to enumerate every state with
    <= mult excitations exactly once, ordered by band.  Returns a list of defect names."""
    bad = []
    sets = []
    for s in sigs:
        if s is None or len(s) != nmol or set_of_signature(tuple(s)) is None:
            bad.append("malformed")
            return bad
        sets.append(set_of_signature(tuple(s)))
    if len(set(sets)) != len(sets):
        bad.append("duplicate")
    if set(sets) != set(excitation_sets(nmol, mult)):
        bad.append("incomplete")
    bands = [len(s) for s in sets]
    if bands != sorted(bands):
        bad.append("not-ordered-by-band")
    return bad


# ---------------------------------------------------------------------------
# molecules with more than two electronic levels (occupation tuples instead of subsets)
#
# state = tuple s with 0 <= s[k] <= nlev[k]-1 (level in which molecule k is), band = sum(s);
# <s|H|s> = sum_k E_k[s[k]].  Only what does not depend on a model of the higher transitions
# is defined here: which pairs of states may be connected at all.
# ---------------------------------------------------------------------------
def ml_signatures(nlev, mult):
    """All occupation tuples with at most `mult` quanta, band by band (independent
    construction: filter of the full cartesian product, stable sort by the number of quanta)."""
    full = [s for s in itertools.product(*[range(int(n)) for n in nlev]) if sum(s) <= mult]
    return sorted(full, key=lambda s: sum(s))


def ml_band_sizes(nlev, mult):
    sigs = ml_signatures(nlev, mult)
    return [sum(1 for s in sigs if sum(s) == b) for b in range(mult + 1)]


def ml_check_signatures(sigs, nlev, mult):
    """Defects of a list that is supposed to enumerate every occupation tuple with <= mult
    quanta exactly once, ordered by band.  Returns (defect names, missing, unexpected)."""
    bad = []
    tup = []
    for s in sigs:
        if s is None or len(s) != len(nlev) or \
                any((int(x) != x) or x < 0 or x >= n for x, n in zip(s, nlev)):
            return ["malformed"], [], []
        tup.append(tuple(int(x) for x in s))
    want = ml_signatures(nlev, mult)
    if len(set(tup)) != len(tup):
        bad.append("duplicate")
    missing = [s for s in want if s not in set(tup)]
    extra = sorted(set(tup) - set(want))
    if missing or extra:
        bad.append("incomplete")
    bands = [sum(s) for s in tup]
    if bands != sorted(bands):
        bad.append("not-ordered-by-band")
    return bad, missing, extra


def ml_energy(levels, sig):
    """Sum of the molecular level energies of an occupation tuple."""
    return sum(float(levels[k][int(n)]) for k, n in enumerate(sig))


def ml_classify_pair(sa, sb):
    """(kind, two_level, k, l) for the Hamiltonian element between two occupation tuples:
    kind 'diag' | 'interband' | 'move' (exactly one quantum moved from molecule k to molecule
    l) | 'inband-zero'; two_level = neither state has a molecule above its first excited
    level (the element is then fixed by the two-level Frenkel rule)."""
    two = max(max(sa, default=0), max(sb, default=0)) <= 1
    if tuple(sa) == tuple(sb):
        return "diag", two, -1, -1
    if sum(sa) != sum(sb):
        return "interband", two, -1, -1
    diff = [(k, b - a) for k, (a, b) in enumerate(zip(sa, sb)) if a != b]
    if len(diff) == 2 and sorted(d for _, d in diff) == [-1, 1]:
        k = [i for i, d in diff if d == -1][0]
        l = [i for i, d in diff if d == 1][0]
        return "move", two, k, l
    return "inband-zero", two, -1, -1


def ml_classify_dipole_pair(sa, sb):
    """(kind, two_level, k, lo, hi): 'adjacent-one' = bands differ by one and exactly one
    molecule k changes its level (lo -> hi = lo+1); 'adjacent-zero', 'same-band', 'distant'
    as for two-level molecules."""
    two = max(max(sa, default=0), max(sb, default=0)) <= 1
    d = abs(sum(sa) - sum(sb))
    if d == 0:
        return "same-band", two, -1, -1, -1
    if d >= 2:
        return "distant", two, -1, -1, -1
    diff = [k for k, (a, b) in enumerate(zip(sa, sb)) if a != b]
    if len(diff) == 1:
        k = diff[0]
        return "adjacent-one", two, k, min(sa[k], sb[k]), max(sa[k], sb[k])
    return "adjacent-zero", two, -1, -1, -1


# ---------------------------------------------------------------------------
# operators
# ---------------------------------------------------------------------------
H_KINDS = ("diag", "move", "inband-zero", "interband")
D_KINDS = ("adjacent-one", "adjacent-zero", "same-band", "distant")
_STRUCTURE = {}


def structure(states):
    """Combinatorial structure of an ordered list of excitation sets (cached):
    moves = rows (a, b, k, l): state b is state a with the excitation moved from k to l;
    adds  = rows (a, b, k):    state b is state a plus an excitation on molecule k;
    hkind / dkind = integer matrices indexing H_KINDS / D_KINDS for every pair of states."""
    key = tuple(tuple(s) for s in states)
    st = _STRUCTURE.get(key)
    if st is not None:
        return st
    n = len(key)
    ssets = [frozenset(s) for s in key]
    moves, adds = [], []
    hkind = numpy.zeros((n, n), dtype=int)
    dkind = numpy.zeros((n, n), dtype=int)
    for a in range(n):
        for b in range(n):
            hkind[a, b] = H_KINDS.index(classify_pair(ssets[a], ssets[b]))
            dkind[a, b] = D_KINDS.index(classify_dipole_pair(ssets[a], ssets[b]))
            if a == b:
                continue
            if len(ssets[a]) == len(ssets[b]):
                gone = ssets[a] - ssets[b]
                come = ssets[b] - ssets[a]
                if len(gone) == 1 and len(come) == 1:
                    moves.append((a, b, tuple(gone)[0], tuple(come)[0]))
            elif len(ssets[b]) == len(ssets[a]) + 1 and ssets[a] < ssets[b]:
                adds.append((a, b, tuple(ssets[b] - ssets[a])[0]))
    st = {"moves": numpy.array(moves, dtype=int).reshape(-1, 4),
          "adds": numpy.array(adds, dtype=int).reshape(-1, 3),
          "hkind": hkind, "dkind": dkind,
          "bands": numpy.array([len(s) for s in key], dtype=int)}
    if len(_STRUCTURE) > 4096:
        _STRUCTURE.clear()
    _STRUCTURE[key] = st
    return st


def hamiltonian(energies, coupling, states):
    """Frenkel Hamiltonian on the given ordered list of excitation sets."""
    n = len(states)
    hh = numpy.zeros((n, n), dtype=float)
    for a, s in enumerate(states):
        hh[a, a] = sum(float(energies[k]) for k in s)
    mv = structure(states)["moves"]
    if mv.shape[0]:
        jj = numpy.asarray(coupling, dtype=float)
        hh[mv[:, 0], mv[:, 1]] = jj[mv[:, 2], mv[:, 3]]
    return hh


def classify_pair(sa, sb):
    """Name of the rule that applies to the matrix element between two excitation sets:
    'diag', 'move' (one excitation moved inside a band), 'inband-zero', 'interband'."""
    sa, sb = frozenset(sa), frozenset(sb)
    if sa == sb:
        return "diag"
    if len(sa) != len(sb):
        return "interband"
    if len(sa - sb) == 1:
        return "move"
    return "inband-zero"


def dipole_operator(dipoles, states):
    """Transition-dipole operator (n, n, 3) on the given ordered list of excitation sets."""
    n = len(states)
    dd = numpy.zeros((n, n, 3), dtype=float)
    ad = structure(states)["adds"]
    if ad.shape[0]:
        dv = numpy.asarray(dipoles, dtype=float)
        dd[ad[:, 0], ad[:, 1], :] = dv[ad[:, 2], :]
        dd[ad[:, 1], ad[:, 0], :] = dv[ad[:, 2], :]
    return dd


def classify_dipole_pair(sa, sb):
    """'adjacent-one' (bands differ by one and exactly one molecule changes state),
    'adjacent-zero' (bands differ by one, more than one molecule changes), 'same-band',
    'distant' (bands differ by two or more)."""
    sa, sb = frozenset(sa), frozenset(sb)
    d = abs(len(sa) - len(sb))
    if d == 0:
        return "same-band"
    if d >= 2:
        return "distant"
    lo, hi = (sa, sb) if len(sa) < len(sb) else (sb, sa)
    return "adjacent-one" if lo < hi else "adjacent-zero"


# ---------------------------------------------------------------------------
# relabelling invariants: stick spectrum and dipole strengths
# ---------------------------------------------------------------------------
def _clusters(ev, gap):
    """Group sorted eigenvalues: a new cluster starts where the spacing exceeds gap."""
    groups = []
    for i, e in enumerate(ev):
        if i == 0 or e - ev[i - 1] > gap:
            groups.append([i])
        else:
            groups[-1].append(i)
    return groups


def invariants(hh, dd, bands, cluster_gap):
    """Label-independent content of (H, mu).

    hh: (n,n) block-diagonal in the bands; dd: (n,n,3); bands: band index of every state.
    Returns {"levels": per band [(mean energy, multiplicity), ...],
             "strengths": per pair of adjacent bands the matrix of summed squared
                          transition dipoles between the level clusters,
             "min_gap": smallest spacing between different clusters of one band}.
    Degenerate subspaces enter only through sums over the whole subspace, which do not
    depend on the eigenvector basis chosen inside it."""
    bands = numpy.asarray(bands)
    nb = int(bands.max()) + 1 if bands.size else 0
    levels, vecs, groups = [], [], []
    min_gap = float("inf")
    for b in range(nb):
        idx = numpy.where(bands == b)[0]
        if idx.size == 0:
            levels.append([])
            vecs.append((idx, numpy.zeros((0, 0))))
            groups.append([])
            continue
        blk = hh[numpy.ix_(idx, idx)]
        blk = 0.5 * (blk + blk.T)
        ev, uu = numpy.linalg.eigh(blk)
        gr = _clusters(ev, cluster_gap)
        for g1, g2 in zip(gr[:-1], gr[1:]):
            min_gap = min(min_gap, float(ev[g2[0]] - ev[g1[-1]]))
        levels.append([(float(numpy.mean(ev[g])), len(g)) for g in gr])
        vecs.append((idx, uu))
        groups.append(gr)
    strengths = []
    for b in range(nb - 1):
        ia, ua = vecs[b]
        ib, ub = vecs[b + 1]
        if ia.size == 0 or ib.size == 0:
            strengths.append(numpy.zeros((len(groups[b]), len(groups[b + 1]))))
            continue
        m2 = numpy.zeros((ia.size, ib.size))
        for c in range(3):
            m = ua.T @ dd[numpy.ix_(ia, ib)][:, :, c] @ ub
            m2 += m * m
        cs = numpy.zeros((len(groups[b]), len(groups[b + 1])))
        for i, ga in enumerate(groups[b]):
            for j, gb in enumerate(groups[b + 1]):
                cs[i, j] = m2[numpy.ix_(ga, gb)].sum()
        strengths.append(cs)
    return {"levels": levels, "strengths": strengths, "min_gap": min_gap}


def compare_invariants(a, b, etol, stol):
    """Returns (defect name or None, worst level deviation, worst strength deviation)."""
    we, ws = 0.0, 0.0
    if len(a["levels"]) != len(b["levels"]):
        return "band-count", float("inf"), float("inf")
    for la, lb in zip(a["levels"], b["levels"]):
        if [m for _, m in la] != [m for _, m in lb]:
            return "level-multiplicities", float("inf"), float("inf")
        for (ea, _), (eb, _) in zip(la, lb):
            we = max(we, abs(ea - eb))
    for sa, sb in zip(a["strengths"], b["strengths"]):
        if sa.shape != sb.shape:
            return "strength-shape", we, float("inf")
        if sa.size:
            ws = max(ws, float(numpy.max(numpy.abs(sa - sb))))
    if not we <= etol:
        return "spectrum", we, ws
    if not ws <= stol:
        return "dipole-strengths", we, ws
    return None, we, ws


def eigen_strength_table(hh, dd, bands, cluster_gap):
    """Dipole strengths |<a|mu|b>|^2 between ALL pairs of exciton levels of (H, mu), levels in
    ascending order of energy over the whole state space (what one reads from an operator
    represented in the eigenbasis of H, whose states are sorted by energy).

    Returns (levels, table): levels = [(energy, multiplicity, band), ...] ascending;
    table[i, j] = sum of |<a|mu|b>|^2 over the states a of level i and b of level j
    (sums over whole degenerate subspaces are independent of the eigenvectors chosen inside).
    H is block diagonal, so the eigenvectors are taken band by band; the table is undefined
    (ValueError) when levels of DIFFERENT bands come closer than cluster_gap, because an
    eigensolver working on the whole matrix may then mix the bands."""
    inv = invariants(hh, dd, bands, cluster_gap)
    entries = []
    for b, lv in enumerate(inv["levels"]):
        for i, (e, m) in enumerate(lv):
            entries.append((float(e), int(m), b, i))
    entries.sort(key=lambda t: (t[0], t[2], t[3]))
    for p, q in zip(entries[:-1], entries[1:]):
        if p[2] != q[2] and q[0] - p[0] <= cluster_gap:
            raise ValueError("levels of bands %d and %d closer than the cluster gap" % (p[2], q[2]))
    nl = len(entries)
    table = numpy.zeros((nl, nl), dtype=float)
    for x, (_, _, bx, ix) in enumerate(entries):
        for y, (_, _, by, iy) in enumerate(entries):
            if by == bx + 1:
                table[x, y] = table[y, x] = inv["strengths"][bx][ix, iy]
    return [(e, m, b) for e, m, b, _ in entries], table


def cluster_table(energies, table, cluster_gap):
    """Groups the states of an observed (energy per state, strength per pair of states) record
    into levels (states sorted by energy, new level where the spacing exceeds cluster_gap) and
    sums the table over the levels.  Returns (levels [(mean energy, multiplicity)], summed
    table)."""
    en = numpy.asarray(energies, dtype=float)
    order = numpy.argsort(en, kind="stable")
    groups = [[int(order[k]) for k in g] for g in _clusters(en[order], cluster_gap)]
    tt = numpy.asarray(table, dtype=float)
    out = numpy.zeros((len(groups), len(groups)), dtype=float)
    for i, ga in enumerate(groups):
        for j, gb in enumerate(groups):
            out[i, j] = tt[numpy.ix_(ga, gb)].sum()
    return [(float(numpy.mean(en[g])), len(g)) for g in groups], out


# ---------------------------------------------------------------------------
# units (recomputed from scipy.constants; wavenumber in 1/cm is the reference unit)
# ---------------------------------------------------------------------------
def to_wavenumber_factor(unit):
    """f such that  value[unit] * f = value[1/cm]  (E = h c nu~, nu~ in 1/cm)."""
    hc = const.h * const.c * 100.0          # J per (1/cm)
    if unit == "1/cm":
        return 1.0
    if unit in ("int", "1/fs"):             # angular frequency in rad/fs, E = hbar omega
        return const.hbar * 1.0e15 / hc
    if unit == "THz":                       # ordinary frequency, E = h nu
        return const.h * 1.0e12 / hc
    if unit == "eV":
        return const.e / hc
    if unit == "meV":
        return 1.0e-3 * const.e / hc
    if unit in ("J", "SI"):
        return 1.0 / hc
    if unit in ("Ha", "a.u."):
        return const.physical_constants["Hartree energy"][0] / hc
    raise ValueError("unit %r not in the reference table" % (unit,))


def from_wavenumber(value_cm, unit):
    return numpy.asarray(value_cm, dtype=float) / to_wavenumber_factor(unit)


DEBYE_CM = 1.0e-21 / const.c                # 1 D = 1e-18 statC cm = 1e-21/c C m
ANGSTROM_M = 1.0e-10


def point_dipole_coupling_joule(d1_debye, d2_debye, r1_angstrom, r2_angstrom, epsr):
    d1 = numpy.asarray(d1_debye, dtype=float) * DEBYE_CM
    d2 = numpy.asarray(d2_debye, dtype=float) * DEBYE_CM
    rv = (numpy.asarray(r1_angstrom, dtype=float)
          - numpy.asarray(r2_angstrom, dtype=float)) * ANGSTROM_M
    rr = math.sqrt(float(numpy.dot(rv, rv)))
    nn = rv / rr
    geo = float(numpy.dot(d1, d2)) - 3.0 * float(numpy.dot(d1, nn)) * float(numpy.dot(d2, nn))
    return geo / (4.0 * const.pi * const.epsilon_0 * float(epsr) * rr ** 3)


def point_dipole_coupling_cm(d1_debye, d2_debye, r1_angstrom, r2_angstrom, epsr):
    """Point-dipole interaction energy as a wavenumber in 1/cm."""
    return (point_dipole_coupling_joule(d1_debye, d2_debye, r1_angstrom, r2_angstrom, epsr)
            / (const.h * const.c * 100.0))


def point_dipole_magnitude_cm(d1_debye, d2_debye, r1_angstrom, r2_angstrom, epsr):
    """|d1||d2| / (4 pi eps0 eps_r R^3) in 1/cm: the natural size of the coupling (the
    orientational factor itself can cancel to zero)."""
    n1 = float(numpy.linalg.norm(d1_debye)) * DEBYE_CM
    n2 = float(numpy.linalg.norm(d2_debye)) * DEBYE_CM
    rr = float(numpy.linalg.norm(numpy.asarray(r1_angstrom, dtype=float)
                                 - numpy.asarray(r2_angstrom, dtype=float))) * ANGSTROM_M
    return (n1 * n2 / (4.0 * const.pi * const.epsilon_0 * float(epsr) * rr ** 3)
            / (const.h * const.c * 100.0))


def point_dipole_matrix_cm(dipoles, positions, epsr):
    n = len(dipoles)
    jj = numpy.zeros((n, n))
    for k in range(n):
        for l in range(k + 1, n):
            jj[k, l] = jj[l, k] = point_dipole_coupling_cm(dipoles[k], dipoles[l],
                                                           positions[k], positions[l], epsr)
    return jj
