"""Reference action of second-order relaxation generators and the Taylor-polynomial propagation
they generate.  Pure numpy, NO quantarhei import.

1. GKSL (Lindblad) generator of jump operators K_m with rates gamma_m:

       D rho = sum_m gamma_m ( K_m rho K_m^+  -  1/2 { K_m^+ K_m , rho } )

2. Redfield generator in the operator form of May & Kuehn (Charge and Energy Transfer Dynamics
   in Molecular Systems, Eq. 3.8.13 of the 1st edition): system-bath coupling sum_m K_m Phi_m
   with Hermitian K_m, and Lambda_m = int_0^infty dt C_m(t) U(t) K_m U^+(t):

       R rho = - sum_m [ K_m , Lambda_m rho - rho Lambda_m^+ ]
             =   sum_m ( K_m rho Lambda_m^+ + Lambda_m rho K_m^+ - K_m^+ Lambda_m rho - rho Lambda_m^+ K_m )

   (written with K^+ so that the same expression with Lambda_m = gamma_m K_m / 2 is the GKSL form of
   a non-Hermitian jump operator: K rho K^+ gamma/2 * 2 - gamma/2 {K^+K, rho}.)

   The COMPONENTS (K_m, Lambda_m) are inputs here; what is modelled is only how they act.

3. Four-index tensor of a linear map M on N x N matrices:  T[a,b,c,d] = (M E_cd)[a,b].

5. (below) probe operators defining the 'other' bases (real symmetric / complex Hermitian) and
   the rotating frame of a Hamiltonian with blocks of states: Omega = block averages of the
   diagonal, generator H - diag(Omega), rho_lab[a,b](t) = exp(-i(Omega_a-Omega_b)t) rho_rot[a,b](t).

4. Short-exponential propagation (what the package documents as "short-exp-L"):

       rho_{n+1} = sum_{l=0..L} (Liou dt)^l / l!  rho_n ,    Liou rho = -i [H, rho] + R rho

   with `nref` sub-steps of length dt/nref between two stored points.
"""
import numpy


def gksl_action(Ks, rates, rho):
    rho = numpy.asarray(rho, dtype=complex)
    out = numpy.zeros(rho.shape, dtype=complex)
    for K, gam in zip(Ks, rates):
        K = numpy.asarray(K, dtype=complex)
        Kd = K.conj().T
        KdK = Kd @ K
        out += gam * (K @ rho @ Kd - 0.5 * (KdK @ rho + rho @ KdK))
    return out


def redfield_action(Ks, Lams, rho):
    rho = numpy.asarray(rho, dtype=complex)
    out = numpy.zeros(rho.shape, dtype=complex)
    for K, Lam in zip(Ks, Lams):
        K = numpy.asarray(K, dtype=complex)
        Lam = numpy.asarray(Lam, dtype=complex)
        Kd = K.conj().T
        Ld = Lam.conj().T
        out += K @ rho @ Ld + Lam @ rho @ Kd - Kd @ Lam @ rho - rho @ Ld @ K
    return out


def tensor_of(action, N):
    """T[a,b,c,d] = (action(E_cd))[a,b] for all N^2 matrix units."""
    T = numpy.zeros((N, N, N, N), dtype=complex)
    for c in range(N):
        for d in range(N):
            E = numpy.zeros((N, N), dtype=complex)
            E[c, d] = 1.0
            T[:, :, c, d] = action(E)
    return T


def gksl_tensor(Ks, rates, N):
    return tensor_of(lambda r: gksl_action(Ks, rates, r), N)


def redfield_tensor(Ks, Lams, N):
    return tensor_of(lambda r: redfield_action(Ks, Lams, r), N)


def liouvillian(H, T):
    """N^2 x N^2 matrix of rho -> -i[H,rho] + T rho acting on rho.reshape(N*N) (row-major)."""
    H = numpy.asarray(H, dtype=complex)
    N = H.shape[0]
    I = numpy.eye(N)
    L = -1.0j * (numpy.kron(H, I) - numpy.kron(I, H.T))
    return L + numpy.asarray(T, dtype=complex).reshape(N * N, N * N)


def taylor_step_matrix(Liou, dt, L):
    M = numpy.eye(Liou.shape[0], dtype=complex)
    term = numpy.eye(Liou.shape[0], dtype=complex)
    for l in range(1, L + 1):
        term = (Liou * (dt / l)) @ term
        M = M + term
    return M


def taylor_propagate(H, T, rho0, dt, nt, L=4, nref=1):
    """rho at the nt stored times 0, dt, ..., (nt-1) dt; returns array (nt, N, N)."""
    rho0 = numpy.asarray(rho0, dtype=complex)
    N = rho0.shape[0]
    M = taylor_step_matrix(liouvillian(H, T), dt / nref, L)
    M = numpy.linalg.matrix_power(M, nref)
    out = numpy.zeros((nt, N, N), dtype=complex)
    v = rho0.reshape(N * N).copy()
    out[0] = rho0
    for k in range(1, nt):
        v = M @ v
        out[k] = v.reshape(N, N)
    return out


def spanning_states(N):
    """N^2 Hermitian unit-trace matrices spanning all N x N complex matrices:
    |i><i|,  (|i>+|j>)(<i|+<j|)/2,  (|i>+i|j>)(<i|-i<j|)/2  for i < j."""
    out = []
    for i in range(N):
        r = numpy.zeros((N, N), dtype=complex)
        r[i, i] = 1.0
        out.append(("p%d" % i, r))
    for i in range(N):
        for j in range(i + 1, N):
            for tag, ph in (("r", 1.0), ("i", 1.0j)):
                v = numpy.zeros(N, dtype=complex)
                v[i] = 1.0
                v[j] = ph
                out.append(("%s%d%d" % (tag, i, j), numpy.outer(v, v.conj()) / 2.0))
    return out


def spans(mats):
    """True if the matrices span the full N^2-dimensional complex matrix space."""
    A = numpy.array([m.reshape(-1) for m in mats])
    return numpy.linalg.matrix_rank(A) == A.shape[1]


def probe_operator(N):
    """A fixed real symmetric matrix with a simple spectrum and no zero off-diagonal entry,
    generic with respect to any Hamiltonian of the grids (defines the 'other' basis)."""
    X = numpy.zeros((N, N))
    for i in range(N):
        for j in range(N):
            X[i, j] = numpy.cos(1.0 + 1.7 * (i + 1) * (j + 1)) + 0.35 * numpy.sin(0.9 * (i + j))
    X = 0.5 * (X + X.T)
    X = X + numpy.diag(1.3 * numpy.arange(N) - 0.4)
    return X


def probe_operator_complex(N):
    """A fixed complex Hermitian matrix with a simple spectrum, no zero off-diagonal entry and
    imaginary parts of the size of the real ones: its eigenvector matrix S is a complex unitary
    matrix that is NOT a real orthogonal matrix times column phases (S^T S is not diagonal), so
    that S^T != S^-1 and S^+ != S^T (defines the 'complex' basis)."""
    X = probe_operator(N).astype(complex)
    for i in range(N):
        for j in range(i + 1, N):
            a = 0.55 * numpy.sin(1.3 + 2.1 * (i + 1) + 0.8 * (j + 1)) + 0.3
            X[i, j] += 1.0j * a
            X[j, i] -= 1.0j * a
    return X


def complexity_of_eigenbasis(X):
    """max |off-diagonal element of S^T S| for the eigenvector matrix S of the Hermitian X: zero
    iff S is a real orthogonal matrix up to a phase of every column."""
    _, S = numpy.linalg.eigh(numpy.asarray(X, dtype=complex))
    G = S.T @ S
    return float(numpy.max(numpy.abs(G - numpy.diag(numpy.diag(G)))))


# ---------------------------------------------------------------------------
# rotating frame ("RWA") of a Hamiltonian with blocks of states
# ---------------------------------------------------------------------------
def rwa_frequencies(H, blocks):
    """Frame frequency of every state: the average of the diagonal elements of H (site basis)
    over the block the state belongs to; `blocks` = first index of every block (first one 0)."""
    H = numpy.asarray(H)
    N = H.shape[0]
    blocks = [int(b) for b in blocks]
    if blocks[0] != 0 or sorted(set(blocks)) != blocks or blocks[-1] >= N:
        raise ValueError("blocks must start with 0 and ascend inside the matrix")
    om = numpy.zeros(N)
    for k, lo in enumerate(blocks):
        hi = blocks[k + 1] if k + 1 < len(blocks) else N
        om[lo:hi] = float(numpy.mean(numpy.real(numpy.diag(H))[lo:hi]))
    return om


def rwa_hamiltonian(H, omega):
    """generator of the rotating frame: H - diag(omega)"""
    return numpy.asarray(H, dtype=complex) - numpy.diag(numpy.asarray(omega, dtype=float))


def rwa_to_lab(rho_t, omega, times):
    """rho_lab(t)[a,b] = exp(-i (omega_a - omega_b) t) rho_rot(t)[a,b] at the stored times"""
    rho_t = numpy.asarray(rho_t, dtype=complex)
    omega = numpy.asarray(omega, dtype=float)
    out = numpy.zeros(rho_t.shape, dtype=complex)
    for k, t in enumerate(numpy.asarray(times, dtype=float)):
        u = numpy.exp(-1.0j * omega * t)
        out[k] = (u[:, None] * rho_t[k]) * numpy.conj(u)[None, :]
    return out
