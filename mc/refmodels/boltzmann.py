"""Reference model of canonical (Boltzmann) density matrices.  numpy/scipy only,
NO quantarhei import.

Energies are angular frequencies in rad/fs (E/hbar, the library's "internal"
units); the Boltzmann constant in these units is recomputed from scipy.constants.
Everything is done in log space (shift by the minimum, log-sum-exp), so the model
itself cannot underflow to 0/0 at any temperature; T = 0 is the limit: all
population on the lowest level(s).
"""
import numpy
from scipy import constants as _C

#: Boltzmann constant in (rad/fs)/K :  k_B / hbar * 1 fs
KB_INT = _C.k / _C.hbar * 1.0e-15
#: 1/cm expressed in rad/fs : 2 pi c * 100/m * 1 fs
CM2INT = 2.0 * numpy.pi * _C.c * 100.0 * 1.0e-15

#: relative uncertainty admitted on k_B (the library hard-codes a CODATA-2010
#: value of k_B in 1/cm/K which differs from scipy's by 5.8e-8)
KB_REL = 1.0e-6


def log_populations(energies, T):
    """log of Boltzmann populations of `energies` (rad/fs) at temperature T (K).

    Returns (logp, x) with x = (E - Emin)/kT  (x = +inf above the minimum at T=0).
    At T = 0 the lowest level(s) share the population equally (the T -> 0+ limit)."""
    e = numpy.asarray(energies, dtype=float)
    d = e - numpy.min(e)
    if T == 0:
        low = d == 0.0
        logp = numpy.where(low, -numpy.log(numpy.count_nonzero(low)), -numpy.inf)
        x = numpy.where(low, 0.0, numpy.inf)
        return logp, x
    x = d / (KB_INT * float(T))
    # x >= 0 with min(x) = 0: the sum lies in [1, n], log-sum-exp without any shift
    with numpy.errstate(under="ignore"):
        lse = numpy.log(numpy.sum(numpy.exp(-x)))
    return -x - lse, x


def populations(energies, T):
    return numpy.exp(log_populations(energies, T)[0])


def lowest_is_degenerate(energies, rel=1e-9):
    e = numpy.sort(numpy.asarray(energies, dtype=float))
    if e.size < 2:
        return False
    return abs(e[1] - e[0]) <= rel * max(1.0, abs(e[0]), abs(e[1]))


def log_slack(logp, x):
    """First-order bound on |delta log p_a| caused by a relative error KB_REL of k_B:
    d log p_a / d ln k = x_a - <x>, bounded by KB_REL*(x_a + <x>)."""
    p = numpy.exp(logp)
    xf = numpy.where(numpy.isfinite(x), x, 0.0)
    mean = float(numpy.sum(p * xf))
    return KB_REL * (xf + mean)


def conditioning(enorm, T):
    """Bound on |delta log p| from rounding noise of the energies: a similarity
    transformation of an n x n matrix (n <= 16 here) perturbs entries by <= 2n*eps*enorm
    each way, populations have condition number 1/kT with respect to the energies."""
    if enorm is None or T == 0:
        return 0.0
    return 2.0 * 64.0 * numpy.finfo(float).eps * float(enorm) / (KB_INT * float(T))


def compare_populations(p_obs, energies, T, atol=1e-10, rtol=1e-9, enorm=None):
    """Compare observed populations with the Boltzmann populations of `energies`.

    allowed_a = atol + p_ref,a * expm1(rtol + k_B slack_a + conditioning)
    conditioning = 2*(64*eps*enorm)/kT: energies that went through a similarity
    transformation carry rounding noise ~eps*enorm (enorm = max |H_ij|), and populations
    have condition number 1/kT with respect to them (computed bound, matters only below 1 K)
    (atol: class R on numbers of scale 1 -- populations that went through a basis
    transformation carry absolute rounding noise ~1e-16, so populations far below atol
    are only required to be <= atol; the second term is the admitted uncertainty of k_B).
    Returns (ok, excess, dlog): excess = max_a |p_obs-p_ref|/allowed_a (ok <=> excess <= 1),
    dlog = largest |log p_obs - log p_ref| over levels with p_ref > 1e-6 (information)."""
    p_obs = numpy.real(numpy.asarray(p_obs, dtype=complex))
    logp, x = log_populations(energies, T)
    if not numpy.all(numpy.isfinite(p_obs)):
        return False, float("inf"), float("inf")
    p_ref = numpy.exp(logp)
    slack = log_slack(logp, x)
    cond = conditioning(enorm, T)
    allowed = atol + p_ref * numpy.expm1(rtol + slack + cond)
    excess = float(numpy.max(numpy.abs(p_obs - p_ref) / allowed))
    big = p_ref > 1e-6
    dlog = 0.0
    if numpy.any(big) and numpy.all(p_obs[big] > 0):
        dlog = float(numpy.max(numpy.abs(numpy.log(p_obs[big]) - logp[big])))
    elif numpy.any(big):
        dlog = float("inf")
    return excess <= 1.0, excess, dlog


def state_in_basis(B, pops):
    """B diag(pops) B^dagger (columns of B are the basis vectors)."""
    B = numpy.asarray(B)
    return (B * numpy.asarray(pops)[None, :]) @ B.conj().T


def band_equilibrium(H, T, start=0, basis=None, subtract=None):
    """Canonical equilibrium restricted to the states >= start of `basis`.

    H       Hermitian matrix (rad/fs) in the reference (site) basis
    basis   None -> site basis; otherwise a unitary B whose columns are the defining
            basis vectors (the first `start` of them must span the excluded band)
    subtract  energies removed from the diagonal energies of the band (reorganisation
            energies in the strong-coupling definition)
    Returns (rho in the reference basis, band energies used, populations)."""
    H = numpy.asarray(H)
    n = H.shape[0]
    if basis is None:
        B = numpy.eye(n)
    else:
        B = numpy.asarray(basis)
    eps = numpy.real(numpy.einsum("ia,ij,ja->a", B.conj(), H, B))
    en = eps[start:].copy()
    if subtract is not None:
        en = en - numpy.asarray(subtract, dtype=float)
    p = numpy.zeros(n)
    p[start:] = populations(en, T)
    return state_in_basis(B, p), en, p


def eigenbasis(H):
    """Eigenvalues (ascending) and eigenvectors of a Hermitian matrix."""
    w, U = numpy.linalg.eigh(numpy.asarray(H))
    return w, U


def validity(rho):
    """Finite / Hermitian / PSD / trace diagnostics of a square matrix.

    Returns dict(finite, herm_dev, min_eig, trace, scale)."""
    rho = numpy.asarray(rho)
    out = {"finite": bool(numpy.all(numpy.isfinite(rho)))}
    if not out["finite"]:
        out.update(herm_dev=float("inf"), min_eig=float("-inf"),
                   trace=float("nan"), scale=float("nan"))
        return out
    scale = float(numpy.max(numpy.abs(rho))) if rho.size else 0.0
    out["scale"] = scale
    out["herm_dev"] = float(numpy.max(numpy.abs(rho - rho.conj().T)))
    herm = 0.5 * (rho + rho.conj().T)
    out["min_eig"] = float(numpy.min(numpy.linalg.eigvalsh(herm)))
    out["trace"] = complex(numpy.trace(rho))
    return out
