"""Reference model of an exact block partition (no quantarhei import)."""


def check_blocks(blocks, start, stop):
    """blocks = [[lo, hi], ...] per rank (half-open).  Returns a list of defect names."""
    bad = []
    sizes = [b[1] - b[0] for b in blocks]
    if any(s < 0 for s in sizes):
        bad.append("negative-block")
    cover = []
    for lo, hi in blocks:
        cover.extend(range(lo, hi))
    want = list(range(start, stop))
    if sorted(cover) != want:
        if len(set(cover)) != len(cover):
            bad.append("overlap")
        if set(cover) != set(want):
            bad.append("union-differs")
    elif cover != want:
        bad.append("not-in-rank-order")
    if sizes and max(sizes) - min(sizes) > 1:
        bad.append("unbalanced")
    return bad


def check_lists(parts, items):
    """parts = per-rank lists of items; items = the whole list (distinct elements)."""
    bad = []
    flat = [x for p in parts for x in p]
    if sorted(flat) != sorted(items):
        if len(set(flat)) != len(flat):
            bad.append("overlap")
        if set(flat) != set(items):
            bad.append("union-differs")
    elif flat != list(items):
        bad.append("not-in-rank-order")
    pos = {x: i for i, x in enumerate(items)}
    for p in parts:
        idx = [pos[x] for x in p if x in pos]
        if idx and idx != list(range(idx[0], idx[0] + len(idx))):
            bad.append("non-contiguous")
            break
    sizes = [len(p) for p in parts]
    if sizes and max(sizes) - min(sizes) > 1:
        bad.append("unbalanced")
    return bad


def check_blocks_arith(blocks, start, stop):
    """The same clauses for ranges too long to enumerate: pure integer arithmetic."""
    bad = []
    sizes = [b[1] - b[0] for b in blocks]
    if any(s < 0 for s in sizes):
        bad.append("negative-block")
    if blocks[0][0] != start or blocks[-1][1] != stop or \
            any(blocks[i][1] != blocks[i + 1][0] for i in range(len(blocks) - 1)):
        bad.append("union-differs")
    if sum(sizes) != stop - start:
        bad.append("total-length-differs")
    if sizes and max(sizes) - min(sizes) > 1:
        bad.append("unbalanced")
    return bad
