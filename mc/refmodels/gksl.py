"""GKSL (Lindblad) reference dynamics and the a-priori truncation bound of the order-L
short-time expansion (DESIGN 1.5, class T).  numpy/scipy only, NO quantarhei import.

Conventions
-----------
Density matrices are vectorised row-major: vec(rho) = rho.reshape(-1), hence
    A rho B  <->  kron(A, B^T) vec(rho).
All super-operators are (d^2 x d^2) complex matrices, norms are spectral (2-)norms; the
2-norm of vec(rho) is the Frobenius norm of rho.

Generator (GKSL form), jump operators K_m with rates g_m >= 0:
    L rho = -i [H, rho] + sum_m g_m ( K_m rho K_m^+ - 1/2 { K_m^+ K_m , rho } )
Pure dephasing with site rates w_a >= 0 is the GKSL dissipator with the jump operators
|a><a| and rates w_a; its action is  rho_ab -> -(w_a + w_b)/2 rho_ab  (a != b), 0 for a = b.
"Gaussian" dephasing is the same dissipator with the time dependent rates w_a * t
(rho_ab(t) ~ exp(-gamma_ab t^2 / 2)); rates stay non-negative, so the exact dynamics is a
composition of completely positive trace preserving maps (CP-divisible).

Truncation bound
----------------
A propagator that applies per (refined) step the map S (the declared scheme: order-L Taylor
polynomial T_L = sum_{l<=L} (L h)^l / l!, optionally followed by the exact dephasing factor)
instead of E = exp(L h) deviates after n steps by
    S^n - E^n = sum_{k<n} S^k (S - E) E^(n-1-k)
    || S^n - E^n || <= n * sup_{k<n} ||S^k|| * sup_{k<n} ||E^k|| * ||S - E||          (*)
Everything on the right is computed here from the generator, the step and the declared order
only; nothing comes from the code under test.  For a time dependent generator (Gaussian
dephasing) the maps differ from step to step and the telescoping sum is ordered with the
exact maps to the left:
    S_n..S_1 - E_n..E_1 = sum_k (E_n..E_{k+1}) (S_k - E_k) (S_{k-1}..S_1)
The exact tail E_n..E_{k+1} is positive and trace preserving, therefore on Hermitian
arguments ||E X||_F <= ||E X||_1 <= ||X||_1 <= sqrt(d) ||X||_F, which gives
    || (S_n..S_1 - E_n..E_1) rho ||_F <= sqrt(d) * sum_k ||S_k - E_k|| * ||S_{k-1}..S_1|| * ||rho||_F   (**)
(valid for Hermitian rho because all S_k, E_k map Hermitian matrices to Hermitian ones).
"""
import itertools

import numpy
from scipy.linalg import expm


# --------------------------------------------------------------------------
# states
# --------------------------------------------------------------------------
def spanning_states(d):
    """Hermitian unit-trace PURE states spanning the real space of Hermitian d x d matrices:
    |i><i|, (|i>+|j>)(<i|+<j|)/2, (|i>+i|j>)(<i|-i<j|)/2 for i<j.  Returns (labels, vectors):
    vectors are the normalised state vectors psi, rho = |psi><psi|."""
    labels, vecs = [], []
    for i in range(d):
        v = numpy.zeros(d, dtype=complex)
        v[i] = 1.0
        labels.append("p%d" % i)
        vecs.append(v)
    for i, j in itertools.combinations(range(d), 2):
        v = numpy.zeros(d, dtype=complex)
        v[i] = v[j] = 1.0 / numpy.sqrt(2.0)
        labels.append("r%d%d" % (i, j))
        vecs.append(v)
    for i, j in itertools.combinations(range(d), 2):
        v = numpy.zeros(d, dtype=complex)
        v[i] = 1.0 / numpy.sqrt(2.0)
        v[j] = 1.0j / numpy.sqrt(2.0)
        labels.append("c%d%d" % (i, j))
        vecs.append(v)
    return labels, vecs


def phase_family(d, phases, moduli):
    """State vectors with ALL amplitudes non-zero and complex: psi_k ~ moduli[k] * exp(i phases[p_k]),
    normalised, for the complete product (p_0..p_{d-1}) over the phase alphabet (a common phase
    is included on purpose: |psi><psi| must not depend on it).  Labels 'g<p_0><p_1>..'.
    Returns (labels, vectors)."""
    w = numpy.asarray(moduli[:d], dtype=float)
    w = w / numpy.sqrt(numpy.sum(w ** 2))
    labels, vecs = [], []
    for idx in itertools.product(range(len(phases)), repeat=d):
        ph = numpy.array([phases[p] for p in idx], dtype=float)
        labels.append("g" + "".join(str(p) for p in idx))
        vecs.append(w * numpy.exp(1j * ph))
    return labels, vecs


def projector(psi):
    psi = numpy.asarray(psi, dtype=complex)
    return numpy.outer(psi, psi.conj())


def spans_hermitian(rhos, tol=1e-9):
    """True when the given matrices span all Hermitian matrices (rank d^2 over the reals)."""
    d = rhos[0].shape[0]
    rows = []
    for r in rhos:
        rows.append(numpy.concatenate([r.real.reshape(-1), r.imag.reshape(-1)]))
    return int(numpy.linalg.matrix_rank(numpy.array(rows), tol=tol)) == d * d


def pairwise_mixtures(labels):
    """Index pairs (a, b), a<b, of all pairwise equal mixtures."""
    return list(itertools.combinations(range(len(labels)), 2))


# --------------------------------------------------------------------------
# generators
# --------------------------------------------------------------------------
def hamiltonian_part(H):
    H = numpy.asarray(H, dtype=complex)
    d = H.shape[0]
    I = numpy.eye(d)
    return -1j * (numpy.kron(H, I) - numpy.kron(I, H.T))


def dissipator(jumps, d):
    """jumps: list of (rate, K).  Returns sum_m rate_m (K x conj(K) - 1/2 K^+K x 1 - 1/2 1 x (K^+K)^T)."""
    I = numpy.eye(d)
    D = numpy.zeros((d * d, d * d), dtype=complex)
    for rate, K in jumps:
        K = numpy.asarray(K, dtype=complex)
        KdK = K.conj().T @ K
        D += float(rate) * (numpy.kron(K, K.conj()) - 0.5 * numpy.kron(KdK, I)
                            - 0.5 * numpy.kron(I, KdK.T))
    return D


def dephasing_jumps(w):
    """Jump operators of site pure dephasing with site rates w_a."""
    d = len(w)
    out = []
    for a in range(d):
        K = numpy.zeros((d, d))
        K[a, a] = 1.0
        out.append((float(w[a]), K))
    return out


def dephasing_rate_matrix(w):
    """gamma_ab = (w_a + w_b)/2 for a != b, 0 on the diagonal (what the GKSL dissipator of
    dephasing_jumps(w) does to the element ab)."""
    w = numpy.asarray(w, dtype=float)
    g = 0.5 * (w[:, None] + w[None, :])
    numpy.fill_diagonal(g, 0.0)
    return g


def dephasing_generator(gamma):
    """Super-operator of element-wise dephasing rho_ab -> -gamma_ab rho_ab for an arbitrary rate
    matrix (row-major vectorisation: a diagonal matrix).  For gamma = dephasing_rate_matrix(w) it
    equals dissipator(dephasing_jumps(w), d)."""
    g = numpy.asarray(gamma, dtype=float)
    return numpy.diag(-g.reshape(-1)).astype(complex)


def valid_rate_matrix(gamma, tol=1e-12):
    """Finite, real, symmetric, non-negative, zero diagonal."""
    g = numpy.asarray(gamma)
    if g.ndim != 2 or g.shape[0] != g.shape[1] or not numpy.all(numpy.isfinite(g)):
        return False
    if numpy.iscomplexobj(g) and float(numpy.max(numpy.abs(g.imag))) > 0.0:
        return False
    g = g.real
    sc = max(1.0, float(numpy.max(numpy.abs(g))))
    return bool(numpy.max(numpy.abs(g - g.T)) <= tol * sc and numpy.min(g) >= -tol * sc
                and numpy.max(numpy.abs(numpy.diag(g))) <= tol * sc)


def is_conditionally_negative(gamma, tol=1e-12):
    """Schoenberg: the element-wise map rho_ab -> exp(-gamma_ab s) rho_ab is positive for every
    s >= 0 exactly when the symmetric zero-diagonal matrix gamma is conditionally negative
    definite (x^T gamma x <= 0 for all x with sum(x) = 0).  Then element-wise dephasing with the
    rates gamma (or gamma*t) is a completely positive trace preserving semigroup (family) and
    positivity of the exact dynamics is a theorem; gamma_ab = (w_a + w_b)/2 is of this kind."""
    g = numpy.asarray(gamma, dtype=float)
    d = g.shape[0]
    P = numpy.eye(d) - numpy.ones((d, d)) / d
    ev = numpy.linalg.eigvalsh(P @ (0.5 * (g + g.T)) @ P)
    return bool(ev[-1] <= tol * max(1.0, float(numpy.max(numpy.abs(g)))))


def liouvillian(H, jumps=(), w=None):
    H = numpy.asarray(H, dtype=complex)
    d = H.shape[0]
    Lv = hamiltonian_part(H) + dissipator(list(jumps), d)
    if w is not None:
        Lv = Lv + dissipator(dephasing_jumps(w), d)
    return Lv


def is_gksl_trace_preserving(Lv, d, tol=1e-12):
    """<<1| L = 0 (sanity of the reference itself)."""
    one = numpy.eye(d).reshape(-1)
    return float(numpy.max(numpy.abs(one @ Lv))) <= tol * max(1.0, float(numpy.max(numpy.abs(Lv))))


# --------------------------------------------------------------------------
# rotating frame
# --------------------------------------------------------------------------
def rotation_generator(omega):
    """ad_Omega on vec(rho): rho -> [Omega, rho], Omega = diag(omega) (diagonal matrix returned
    as a vector: element (ab) -> omega_a - omega_b)."""
    om = numpy.asarray(omega, dtype=float)
    return (om[:, None] - om[None, :]).reshape(-1)

def commutes_with_rotation(Lv, omega, tol=1e-12):
    """[L, ad_Omega] = 0: then rho_rot(t) = e^{+i Om t} rho(t) e^{-i Om t} obeys the SAME
    generator with H -> H - Omega, i.e. the rotating-frame calculation converted back is the
    laboratory-frame dynamics exactly."""
    a = rotation_generator(omega)
    c = Lv * a[None, :] - a[:, None] * Lv
    return float(numpy.max(numpy.abs(c))) <= tol * max(1.0, float(numpy.max(numpy.abs(Lv))))


def to_lab(rho_rot, omega, t):
    """rho(t) = e^{-i Om t} rho_rot(t) e^{+i Om t}."""
    u = numpy.exp(-1j * numpy.asarray(omega, dtype=float) * float(t))
    return (u[:, None] * numpy.asarray(rho_rot)) * u.conj()[None, :]


# --------------------------------------------------------------------------
# scheme and exact maps
# --------------------------------------------------------------------------
def taylor(Lh, order):
    """T_L = sum_{l<=L} (Lh)^l / l!"""
    M = Lh.shape[0]
    T = numpy.eye(M, dtype=complex)
    term = numpy.eye(M, dtype=complex)
    for l in range(1, int(order) + 1):
        term = term @ Lh / l
        T = T + term
    return T


def sv_super(Tsv):
    """Map induced on |psi><psi| by psi -> T psi:  rho -> T rho T^+  =  kron(T, conj(T))."""
    return numpy.kron(Tsv, Tsv.conj())


def _norm2(M):
    return float(numpy.linalg.norm(M, 2))


def power_norms(M, n):
    """[||M^k||_2 for k = 0..n-1]"""
    out = numpy.zeros(max(n, 1))
    P = numpy.eye(M.shape[0], dtype=complex)
    for k in range(max(n, 1)):
        out[k] = _norm2(P)
        if k + 1 < n:
            P = P @ M
    return out


def bound_constant(S, E, nsub, stride=1):
    """Bound (*) for a step-independent scheme.  Returns b[i], i = 0..nsub/stride: bound on
    ||S^n - E^n||_2 at n = i*stride (the stored times), and the scalar ||S - E||."""
    d1 = _norm2(S - E)
    nS = numpy.maximum.accumulate(power_norms(S, nsub))
    nE = numpy.maximum.accumulate(power_norms(E, nsub))
    nst = nsub // stride
    b = numpy.zeros(nst + 1)
    for i in range(1, nst + 1):
        n = i * stride
        b[i] = n * nS[n - 1] * nE[n - 1] * d1
    return b, d1


def bound_constant_tight(S, E, nsub, stride=1):
    """The finer telescoping sum  ||S-E|| * sum_{k<n} ||S^k|| ||E^(n-1-k)||  (<= bound (*));
    reported for information only."""
    d1 = _norm2(S - E)
    nS = power_norms(S, nsub)
    nE = power_norms(E, nsub)
    nst = nsub // stride
    b = numpy.zeros(nst + 1)
    for i in range(1, nst + 1):
        n = i * stride
        b[i] = d1 * float(numpy.dot(nS[:n], nE[:n][::-1]))
    return b


def exact_states_constant(E_store, vecs0, nt):
    """rho_exact(t_i) = E_store^i rho_0 for all given initial vec(rho_0) (columns).  Returns
    array (nt, d^2, nstates)."""
    V = numpy.array(vecs0, dtype=complex).T
    out = numpy.zeros((nt,) + V.shape, dtype=complex)
    out[0] = V
    for i in range(1, nt):
        out[i] = E_store @ out[i - 1]
    return out


def check_semigroup(Lv, E_store, t_step, nt, tol=1e-9):
    """Internal consistency of the reference: E_store^(nt-1) == expm(L t_final)."""
    P = numpy.linalg.matrix_power(E_store, nt - 1)
    Q = expm(Lv * t_step * (nt - 1))
    return float(numpy.max(numpy.abs(P - Q))) <= tol * max(1.0, float(numpy.max(numpy.abs(Q))))


# --------------------------------------------------------------------------
# time dependent (Gaussian) dephasing:  generator  A + t * B
# --------------------------------------------------------------------------
def magnus4_map(A, B, C, t, h, m):
    """Exact map over [t, t+h] of d/dt x = (A + t B) x by m sub-steps of the 4th order Magnus
    (Gauss-Legendre) integrator; for a generator linear in t the Magnus exponent is
    Omega = hh (A + t_mid B) - hh^3/12 [A, B]  (C = [A,B] = AB - BA), local error O(hh^5)."""
    hh = h / m
    P = numpy.eye(A.shape[0], dtype=complex)
    for j in range(m):
        tm = t + (j + 0.5) * hh
        Om = hh * (A + tm * B) - (hh ** 3 / 12.0) * C
        P = expm(Om) @ P
    return P


def gaussian_reference(A, wdiag_B, order, h, nsub, stride, t0, vecs0, d, m=4):
    """Scheme maps, exact maps, bound (**) and exact states for generator A + t*B where B is the
    site-dephasing dissipator with unit-time rates (a full matrix), scheme step k (starting at
    time t_k = t0 + k h):  S_k = diag(exp(B_diag (h^2/2 + h t_k))) . T_L(A h).

    Returns dict(bound=b[i] at stored times, exact=(nst+1, d^2, nstates), ref_err=estimate of the
    reference's own integration error, dmax=max_k ||S_k - E_k||)."""
    B = wdiag_B
    bdiag = numpy.real(numpy.diag(B))
    if float(numpy.max(numpy.abs(B - numpy.diag(numpy.diag(B))))) > 1e-14:
        raise ValueError("dephasing dissipator is expected to be diagonal in the matrix-unit basis")
    C = A @ B - B @ A
    T = taylor(A * h, order)
    nst = nsub // stride
    V = numpy.array(vecs0, dtype=complex).T
    exact = numpy.zeros((nst + 1,) + V.shape, dtype=complex)
    exact[0] = V
    cur = V.copy()
    cur_coarse = V.copy()
    Scum = numpy.eye(A.shape[0], dtype=complex)
    acc = 0.0
    b = numpy.zeros(nst + 1)
    dmax = 0.0
    sq = numpy.sqrt(float(d))
    for k in range(nsub):
        tk = t0 + k * h
        Ek = magnus4_map(A, B, C, tk, h, m)
        Ek2 = magnus4_map(A, B, C, tk, h, max(1, m // 2))
        Sk = numpy.exp(bdiag * (h * h / 2.0 + h * tk))[:, None] * T
        dk = _norm2(Sk - Ek)
        dmax = max(dmax, dk)
        acc += dk * _norm2(Scum)
        Scum = Sk @ Scum
        cur = Ek @ cur
        cur_coarse = Ek2 @ cur_coarse
        if (k + 1) % stride == 0:
            i = (k + 1) // stride
            exact[i] = cur
            b[i] = sq * acc
    ref_err = float(numpy.max(numpy.abs(cur - cur_coarse)))
    return {"bound": b, "exact": exact, "ref_err": ref_err, "dmax": dmax}


# --------------------------------------------------------------------------
# observables
# --------------------------------------------------------------------------
def min_eigenvalue(rho):
    r = numpy.asarray(rho)
    r = 0.5 * (r + r.conj().T)
    return float(numpy.linalg.eigvalsh(r)[0])
