"""CLI: ./check C07 --tier quick|thorough ; ./check C07 --replay <file>"""
import argparse
import importlib
import json
import os
import sys
import traceback

from . import isolation
from .evidence import Run


def main(argv=None):
    ap = argparse.ArgumentParser()
    ap.add_argument("pid")
    ap.add_argument("--tier", default=os.environ.get("VERIF_TIER", "quick"),
                    choices=["quick", "thorough"])
    ap.add_argument("--replay")
    a = ap.parse_args(argv)
    seed = int(os.environ.get("VERIF_SEED", "0") or 0)
    pid = a.pid.upper()
    mod = importlib.import_module("checks." + pid.lower())
    isolation.qr()
    if a.replay:
        with open(a.replay) as f:
            art = json.load(f)
        isolation.reset_manager()
        with isolation.quiet():
            viol = mod.replay(art["case"])
        for v in viol:
            print("VIOLATION property=%s replay=%s key=%s :: %s" % (pid, a.replay, v[0], v[1]))
        print("replay: %d violation(s)" % len(viol))
        return 1 if viol else 0
    run = Run(pid, a.tier, seed, level=getattr(mod, "LEVEL", "model_checking"))
    try:
        mod.run(run)
    except isolation.HarnessError:
        traceback.print_exc()
        print("HARNESS-ERROR property=%s" % pid)
        run.finish()
        return 2
    return run.finish()


if __name__ == "__main__":
    sys.exit(main())
