"""Builders of small real quantarhei systems from JSON-able specs."""
import numpy

from . import isolation


def time_axis(nt=200, dt=1.0, start=0.0):
    qr = isolation.qr()
    return qr.TimeAxis(start, nt, dt)


def corfce(ta, bath):
    """bath = {"ftype","reorg","cortime","T", optional "matsubara"} (1/cm, fs, K)."""
    qr = isolation.qr()
    params = dict(ftype=bath.get("ftype", "OverdampedBrownian"),
                  reorg=float(bath["reorg"]), cortime=float(bath["cortime"]),
                  T=float(bath["T"]))
    if "matsubara" in bath:
        params["matsubara"] = int(bath["matsubara"])
    with qr.energy_units("1/cm"):
        return qr.CorrelationFunction(ta, params)


DIPOLES = [[1.0, 0.0, 0.0], [0.3, 0.9, 0.1], [-0.4, 0.2, 0.8], [0.5, -0.7, 0.4],
           [0.1, 0.6, -0.9]]


def aggregate(energies, J=None, bath=None, ta=None, mult=1, dipoles=None,
              build=True, modes=None, name_prefix="m", same_cf=True, e0=0.0):
    """Aggregate of two-level molecules; energies and J in 1/cm.

    bath: spec or None; ta: TimeAxis (needed when bath given)."""
    qr = isolation.qr()
    n = len(energies)
    mols = []
    cf = None
    with qr.energy_units("1/cm"):
        for i, e in enumerate(energies):
            m = qr.Molecule(elenergies=[float(e0), float(e)])
            d = (dipoles or DIPOLES)[i % len(dipoles or DIPOLES)]
            m.set_dipole(0, 1, list(d))
            mols.append(m)
    if bath is not None:
        for i, m in enumerate(mols):
            b = bath[i] if isinstance(bath, list) else bath
            if cf is None or not same_cf or isinstance(bath, list):
                cf = corfce(ta, b)
            m.set_transition_environment((0, 1), cf)
    if modes:
        with qr.energy_units("1/cm"):
            for i, m in enumerate(mols):
                for md in modes[i] if i < len(modes) else []:
                    mod = qr.Mode(frequency=float(md["omega"]))
                    m.add_Mode(mod)
                    mod.set_nmax(0, int(md.get("n0", 2)))
                    mod.set_nmax(1, int(md.get("n1", 2)))
                    mod.set_HR(1, float(md.get("hr", 0.1)))
    agg = qr.Aggregate(molecules=mols)
    if J is not None:
        with qr.energy_units("1/cm"):
            for i in range(n):
                for j in range(i + 1, n):
                    if J[i][j] != 0:
                        agg.set_resonance_coupling(i, j, float(J[i][j]))
    if build:
        agg.build(mult=mult)
        # Aggregate.build may leave the caller's units switched (C05 owns that);
        # the harness isolates every other property from it
        isolation.reset_units()
    return agg


def chain_J(n, j):
    J = [[0.0] * n for _ in range(n)]
    for i in range(n - 1):
        J[i][i + 1] = J[i + 1][i] = float(j)
    return J


def full_J(n, vals):
    J = [[0.0] * n for _ in range(n)]
    k = 0
    for i in range(n):
        for j in range(i + 1, n):
            J[i][j] = J[j][i] = float(vals[k % len(vals)])
            k += 1
    return J


def ham_sbi(energies, J, bath, ta, e0=0.0):
    """Plain Hamiltonian + SystemBathInteraction (site projectors), with ground
    state (energy e0, 1/cm); returns (ham, sbi)."""
    qr = isolation.qr()
    from quantarhei.qm.corfunctions import CorrelationFunctionMatrix
    from quantarhei.qm import SystemBathInteraction, Operator
    n = len(energies)
    dim = n + 1
    h = numpy.zeros((dim, dim))
    h[0, 0] = e0
    for i in range(n):
        h[i + 1, i + 1] = energies[i]
        for j in range(n):
            if i != j:
                h[i + 1, j + 1] = J[i][j]
    with qr.energy_units("1/cm"):
        ham = qr.Hamiltonian(data=h)
    cfm = CorrelationFunctionMatrix(ta, n, n)
    ops = []
    for i in range(n):
        b = bath[i] if isinstance(bath, list) else bath
        cf = corfce(ta, b)
        cfm.set_correlation_function(cf, [(i, i)], i + 1)
        k = numpy.zeros((dim, dim))
        k[i + 1, i + 1] = 1.0
        ops.append(Operator(data=k))
    sbi = SystemBathInteraction(ops, cfm)
    return ham, sbi
