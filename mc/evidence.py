"""Evidence writer, VIOLATION / KNOWN-FINDING protocol, replay artefacts."""
import fnmatch
import hashlib
import json
import os
import subprocess
import time

VERIF = os.path.dirname(os.path.dirname(os.path.abspath(__file__)))
# evidence/ and replays/ describe /repo's working tree.  A run against another checkout
# (VERIF_REPO=<worktree carrying a seeded change>) must not overwrite them: its output goes
# next to that checkout (or to VERIF_OUT).
_repo = os.environ.get("VERIF_REPO")
if os.environ.get("VERIF_OUT"):
    OUT = os.environ["VERIF_OUT"]
elif _repo and os.path.realpath(_repo) != os.path.realpath("/repo"):
    OUT = os.path.join(os.path.dirname(os.path.realpath(_repo)), "verif_out")
else:
    OUT = VERIF
REPO = os.environ.get("VERIF_REPO", "/repo")
MAX_REPLAYS = 12


def jsonable(x):
    import numpy
    if isinstance(x, dict):
        return {str(k): jsonable(v) for k, v in x.items()}
    if isinstance(x, (list, tuple, set, frozenset)):
        return [jsonable(v) for v in x]
    if isinstance(x, numpy.ndarray):
        return jsonable(x.tolist())
    if isinstance(x, (numpy.integer,)):
        return int(x)
    if isinstance(x, (numpy.floating,)):
        return float(x)
    if isinstance(x, (complex, numpy.complexfloating)):
        return {"re": float(x.real), "im": float(x.imag)}
    if isinstance(x, (numpy.bool_,)):
        return bool(x)
    if isinstance(x, (str, int, float, bool)) or x is None:
        return x
    return repr(x)


def h(x):
    return hashlib.sha1(json.dumps(jsonable(x), sort_keys=True).encode()).hexdigest()[:16]


def tree_id():
    try:
        rev = subprocess.run(["git", "-C", REPO, "rev-parse", "HEAD"],
                             capture_output=True, text=True).stdout.strip()
        dirty = subprocess.run(["git", "-C", REPO, "status", "--porcelain",
                                "--untracked-files=no"],
                               capture_output=True, text=True).stdout.strip()
        return {"rev": rev, "dirty": bool(dirty)}
    except Exception:
        return {"rev": "unknown", "dirty": None}


def load_known():
    p = os.path.join(VERIF, "known_findings.json")
    if not os.path.exists(p):
        return []
    with open(p) as f:
        return json.load(f).get("findings", [])


class Run:
    """Collects coverage and violations of one check run."""

    def __init__(self, pid, tier, seed, level="model_checking"):
        self.pid = pid
        self.tier = tier
        self.seed = int(seed)
        self.level = level
        self.t0 = time.time()
        self.evaluations = 0
        self.nontrivial = set()
        self.outcomes = set()
        self.samples = []
        self.states = 0
        self.transitions = 0
        self.traces_validated = 0
        self.rule = ""
        self.exhaustive = True
        self.caps = []
        self.assumptions = []
        self.extra = {}
        self.bounds = {}
        self.viol = []           # (key, what, case, details)
        self.sections = {}       # name -> dict(evaluations, ...)
        self._known = [k for k in load_known() if k.get("property") == pid]
        self._require_outcomes = 2

    # ---- coverage -------------------------------------------------------
    def case(self, case, nontrivial=True, outcome=None, section=None):
        self.evaluations += 1
        if nontrivial:
            self.nontrivial.add(h(case))
        if outcome is not None:
            self.outcomes.add(outcome if isinstance(outcome, str) else h(outcome))
        if len(self.samples) < 3 or (nontrivial and len(self.samples) < 6
                                      and self.evaluations % 97 == 0):
            self.samples.append(jsonable(case))
        if section:
            s = self.sections.setdefault(section, {"evaluations": 0, "nontrivial": 0})
            s["evaluations"] += 1
            if nontrivial:
                s["nontrivial"] += 1

    def note(self, **kw):
        self.extra.update(jsonable(kw))

    def cap(self, what):
        self.exhaustive = False
        self.caps.append(what)

    # ---- violations -----------------------------------------------------
    def violation(self, key, what, case=None, details=None):
        self.viol.append((key, what, jsonable(case), jsonable(details)))

    def _classify(self):
        known, fresh = {}, []
        for v in self.viol:
            key = v[0]
            m = None
            for k in self._known:
                if k.get("status") == "finding" and fnmatch.fnmatchcase(key, k["key"]):
                    m = k
                    break
            if m is not None:
                known.setdefault(m["key"], [m, 0, v])
                known[m["key"]][1] += 1
            else:
                fresh.append(v)
        return known, fresh

    def finish(self):
        """Write evidence, print protocol lines, return the process exit code."""
        known, fresh = self._classify()
        wall = time.time() - self.t0
        harness_fail = None
        if self.evaluations == 0:
            harness_fail = "no case was evaluated"
        elif len(self.nontrivial) < 2:
            harness_fail = "vacuous exploration: <2 distinct non-trivial cases"
        elif self.outcomes and len(self.outcomes) < self._require_outcomes:
            harness_fail = "vacuous exploration: a single distinct observed outcome"

        rep_dir = os.path.join(OUT, "replays", self.pid)
        if os.path.isdir(rep_dir):          # artefacts of earlier runs are stale
            for fn in os.listdir(rep_dir):
                if fn.endswith(".json"):
                    os.unlink(os.path.join(rep_dir, fn))
        lines = []
        seen_keys = {}
        nrep = 0
        for (key, what, case, details) in fresh:
            if key in seen_keys:
                seen_keys[key][1] += 1
                continue
            path = None
            if nrep < MAX_REPLAYS:
                os.makedirs(rep_dir, exist_ok=True)
                slug = "".join(c if c.isalnum() or c in "-_." else "_" for c in key)[:80]
                path = os.path.join(rep_dir, "%s-%s.json" % (slug, h(case)[:8]))
                with open(path, "w") as f:
                    json.dump({"property": self.pid, "key": key, "what": what,
                               "case": case, "details": details, "tier": self.tier,
                               "seed": self.seed, "tree": tree_id()}, f, indent=1)
                nrep += 1
            seen_keys[key] = [path, 1, what]
        for key, (path, n, what) in seen_keys.items():
            lines.append("VIOLATION property=%s replay=%s key=%s count=%d :: %s"
                         % (self.pid, path or "(not-written:too-many)", key, n, what))
        for key, (m, n, v) in known.items():
            lines.append("KNOWN-FINDING: property=%s %s [key=%s occurrences=%d]"
                         % (self.pid, m.get("what", ""), key, n))

        cov = {
            "evaluations": int(self.evaluations),
            "distinct_nontrivial": int(len(self.nontrivial)),
            "rule": self.rule,
            "samples": self.samples[:8] or [],
            "exhaustive": bool(self.exhaustive and not harness_fail),
            "distinct_outcomes": len(self.outcomes),
            "bounds": jsonable(self.bounds),
            "caps_hit": self.caps,
            "sections": self.sections,
            "known_findings_matched": {k: v[1] for k, v in known.items()},
            "violation_keys": {k: v[1] for k, v in seen_keys.items()},
            "tree": tree_id(),
        }
        if self.states:
            cov["states"] = int(self.states)
            cov["transitions"] = int(max(self.transitions, 1))
            cov["traces_validated_against_impl"] = int(self.traces_validated)
        cov.update(self.extra)
        ev = {"property_id": self.pid, "tier": self.tier, "seed": self.seed,
              "level": self.level, "coverage": cov,
              "assumptions": self.assumptions, "wall_s": round(wall, 3),
              "violations": len(seen_keys)}
        os.makedirs(os.path.join(OUT, "evidence"), exist_ok=True)
        with open(os.path.join(OUT, "evidence", self.pid + ".json"), "w") as f:
            json.dump(ev, f, indent=1, sort_keys=True)
        # a second copy per tier (the file above is rewritten by whichever tier ran last)
        tdir = os.path.join(OUT, "evidence_by_tier", str(self.tier))
        os.makedirs(tdir, exist_ok=True)
        with open(os.path.join(tdir, self.pid + ".json"), "w") as f:
            json.dump(ev, f, indent=1, sort_keys=True)

        for l in lines:
            print(l)
        print("%s tier=%s seed=%d evaluations=%d distinct_nontrivial=%d outcomes=%d "
              "states=%d transitions=%d exhaustive=%s known=%d violations=%d wall=%.1fs"
              % (self.pid, self.tier, self.seed, self.evaluations, len(self.nontrivial),
                 len(self.outcomes), self.states, self.transitions, cov["exhaustive"],
                 len(known), len(seen_keys), wall))
        if harness_fail:
            print("HARNESS-ERROR property=%s %s" % (self.pid, harness_fail))
            return 2
        return 1 if seen_keys else 0
