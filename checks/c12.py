"""C12 Third-order response: exact orientational average, additivity, symmetry.

E-grid, six complete products.

Section `lab` (prefactor clause at the level of LabSetup.F4eM4 / liouville_pathway.build /
orientational_averaging): every polarisation four-tuple from {X, Y, Z, (X+Y)/sqrt2, magic-angle
direction} (5^4 grid points); inside EVERY point all 4^4 dipole four-tuples from four fixed
non-collinear vectors of different length and all side patterns of the tier (which side of the
diagram each of the four interactions acts on; 16 in thorough).  The pathway objects are real
`liouville_pathway` instances filled through `add_transition` from a stub level scheme whose
transition dipoles are the chosen four vectors.

Section `sys` (everything else, on the real pipeline MockTwoDResponseCalculator.calculate_one_system
-> Aggregate.liouville_pathways_3T -> calculate_pathway -> TwoDResponse): product of size (dimer,
trimer with two-exciton states) x site energies x coupling strength (0, 80, -150) x topology x
line-width pattern (all 100, all 300, different on every molecule; applied to the Gaussian width
and to the Lorentzian dephasing rate) x waiting time x line shape x excited-state dynamics
(free / site pure dephasing / exciton relaxation).  Inside EVERY point the whole inner alphabets are
applied: all 5^4 polarisation four-tuples on every generated pathway (prefactor clause), all
rotations of the tier applied to all dipoles and, separately, to all polarisations, for every
base polarisation setting of the tier; all scale factors; the separately built monomers when the
coupling is zero.

Section `reuse` (histories of ONE MockTwoDResponseCalculator object, bootstrapped once): operation
alphabet = use the calculator for system s, s from {single molecules 0, 1, 2; dimer built with
mult=1, coupled trimer built with mult=1 (no two-exciton band); uncoupled dimer (molecules 0,1 and
1,2), coupled dimer, uncoupled trimer, coupled trimer (thorough) built with mult=2}, and "bootstrap
again with the same arguments".  ALL operation sequences of length 2 (quick) / 3 (thorough), with
repetition (so also the same system again), in the product line shape x api (calculate_one_system
at t2 = 0 and 20 fs / calculate_all_system over the t2 axis) x line widths x dynamics.  A use of
the calculator = every base polarisation setting x every waiting time.  After EVERY use the result
is compared with the result of a fresh calculator for that system, polarisation and waiting time
(differential oracle, clause `reuse/fresh-differs`, pathway census), and the reference oracles
pref (on the prefactors as the pipeline left them), total (sum, re-read, ledger) and uncoupled
(sum of the separately calculated molecules) are applied to it.

Dipole-scale dimension (all three sections): ALL transition dipoles of the system are multiplied
by a common factor s from {1, 3, 1e-2, 1e-4} (thorough: also 1e2); s = 1 is the grid described
above.  `sys`: inside EVERY point every s != 1 is run through the real pipeline for every base
polarisation setting: cross-scale oracles against s = 1 (clause `scale-s4` per signal type,
`scale-census`: same pathway types and counts) and the reference oracles pref (prefactors as the
pipeline made them, which therefore scale as s^4), total (sum, re-read, ledger) and uncoupled
(monomers with the same scaled dipole) on the scaled system itself; thorough: also rot-pol / rot-dip
with the generic rotation.  `reuse`: inside EVERY case the history product is repeated with the
system alphabet built at every s (all systems of a history at the same s; for s != 1 all sequences
of length 2 in both tiers); every use is compared with fresh calculators at that s, and every
system of the alphabet at scale s with s^4 x itself at s = 1 (`reuse/scale-s4`,
`reuse/scale-census`).  A deviation of the api `all` at s != 1 that a fresh calculator used through
the same api reproduces, while the api agrees with calculate_one_system at s = 1, is reported as
`reuse/all/pathway-screening-depends-on-dipole-scale` (the relative dipole threshold of
calculate_all_system was compared with squared dipoles; fixed in /repo).  `lab` (thorough): all
dipole four-tuples x s.
A reference oracle that fails only for s != 1 gets the key suffix `/only-scaled-dipoles`.

Section `wait` (the whole waiting-time axis): product size x site energies x coupling x topology
x line widths x line shape x dynamics; inside EVERY point ALL waiting times of an axis that is
longer than the longest coherence period of the one-exciton block (quick: two molecules 0..120 fs,
three 0..230 fs, step 10 fs; thorough: 0..230 fs, step 5 fs), so that every coherence element of the (Lindblad,
complex) evolution superoperator passes through all four quadrants of the complex plane, x every
base polarisation setting.  At EVERY waiting time: uncoupled (sum of the separately calculated
molecules at the same waiting time), census (generated pathways per type == the count the
evolution superoperator and the transition dipoles allow, mc/refmodels/pathway_census.py),
pref (prefactors as made), total (sum, re-read, ledger).  Keys `wait/...`; the message lists
all waiting times at which the key fails.

Section `hist` (histories of ONE aggregate object before the response is calculated): operation
alphabet = requests a user makes on the aggregate, none of which changes the system:
get_DensityMatrix() for every condition type (stored / thermal / thermal 300 K / impulsive
excitation / thermal excited state at 0 and 300 K), get_StateVector(impulsive), diagonalize()
again, get_Hamiltonian, get_TransitionDipoleMoment, liouville_pathways_1, liouville_pathways_3T
of one type, a linear spectrum with MockAbsSpectrumCalculator, an earlier 2D calculation with
another calculator.  ALL sequences of length 0..2 (quick) / 0..3 (thorough) in the product
system (uncoupled / coupled dimer; thorough also single molecule, dimer without two-exciton
band, uncoupled trimer) x start state x line shape x api (quick: Gaussian and
calculate_one_system only); after every history the response is calculated (new calculator,
polarisations XMDZ, every waiting time of the api: 0, 20 fs / 0, 10, 20 fs) and compared with the
response of a NEW aggregate object (`hist/<api>/fresh-differs`, `.../pathway-census`); the
reference oracles uncoupled (molecules as new objects), pref, total are applied to it as well.
A failing history is reduced to its shortest failing sub-history, which names the key
(`after=<request>[><request>]`).  Start-state dimension: every history is run on an aggregate that
was built and diagonalised and on one that was only built (`.../aggregate-not-diagonalized/...`).

Section `pollen` (polarisation vectors of general LENGTH; all other sections pass unit vectors):
each of the four vectors is f_k x (unit vector u_k); ALL factor four-tuples (f_1..f_4) from
{1, 2, 1/2} (thorough: also -3/2, 1e-3) x ALL direction four-tuples from the non-axis directions
{D, G} (thorough {D, G, M}; G = (2,-3,6)/7).  Level `lab`: inside every direction four-tuple all
4^4 dipole four-tuples x three side patterns on stub pathways, every factor four-tuple
through LabSetup.set_pulse_polarizations -> orientational_averaging; clause pref with the SO(3)
average evaluated for the vectors actually passed (`pref/pol-length/lab/value/<which lengths
break it>`).  Level `sys`: real pipeline, system (quick: coupled dimer; thorough: dimers J = 0,
80, -150 and the coupled trimer) x line shape x direction four-tuple, inside ALL factor
four-tuples: pref on the prefactors as the pipeline made them for the vectors passed, pathway
census independent of the lengths, response[f e] == f1 f2 f3 f4 response[e] for REPH, NONR and
total (pref + ledger clause => the response is linear in every polarisation vector), total ==
REPH + NONR (`pol-length/...`).

Clauses and oracles (tolerance class R everywhere: 1e-10 * scale)
  pref      pathway.pref == sign * rho0 * evolution factor * <prod_k e_k . R d_k>_SO(3), the average
            by the 75-point product quadrature of mc/refmodels/iso_average.py (exact for degree 4,
            independent of the M4 formula); sign = (-1)^(interactions from the right) counted by
            the reference; d_k = transition dipoles of the (diagonalised) aggregate for the
            transitions the pathway lists; scale = rho0 |evf| prod|d_k| prod|e_k|
  rot-dip   response[R d] == response[d]          REPH, NONR and total; scale = max|signal|
  rot-pol   response[R e] == response[e]
  scale     response[k d] == k^4 response[d]
  scale-s4  response[s d] == s^4 response[d] for REPH, NONR and total separately, every s of the
            dipole-scale dimension; scale-census: the generated pathways (types and counts) do not
            depend on s
  total     total == REPH + NONR (data flags of the TwoDResponse); ledger: REPH / NONR == sum of
            calculate_pathway over the generated pathways of type R / NR
  uncoupled J = 0: response[aggregate] == sum_m response[molecule m built alone, mult 2] with the
            same line width, dipole and (site) dephasing dynamics
"""
import itertools
import types

import numpy

from mc import isolation
from mc.explore import run_grid, product, rotate
from mc.refmodels import iso_average as ISO

LEVEL = "model_checking"
TOL = 1e-10

POLN = list(ISO.POL_NAMES)                               # X Y Z D M
POLV = numpy.array([ISO.POLARISATIONS[n] for n in POLN], dtype=float)
DIP4 = numpy.array(ISO.DIPOLES4, dtype=float)

# dipoles of the molecules in the `sys` section (non-collinear, different lengths)
SYS_DIPOLES = [[1.0, 0.8, 0.8], [0.8, 0.8, 0.0], [0.1, -0.5, 0.9]]
ENERGIES = {"hetero": [12000.0, 12300.0, 12150.0], "homo": [12100.0, 12100.0, 12100.0],
            # sorting these site energies is a cyclic (not self-inverse) permutation of three sites
            "cyclic": [12300.0, 12000.0, 12150.0], "cyclic2": [12150.0, 12300.0, 12000.0]}
LINEWIDTHS = {"100": [100.0, 100.0, 100.0], "300": [300.0, 300.0, 300.0],
              "mixed": [100.0, 300.0, 200.0]}
DEPH_RATES = [1.0 / 100.0, 1.0 / 150.0, 1.0 / 80.0]      # site pure dephasing, 1/fs
RELAX_RATES = [1.0 / 200.0, 1.0 / 300.0]                 # exciton k+1 -> k, 1/fs
RWA = 12150.0
N13, DT13 = 32, 10.0                                     # t1 / t3 axes
T2AXIS = (0.0, 3, 10.0)                                  # t2 = 0, 10, 20 fs
PTYPES = ("R1g", "R2g", "R3g", "R4g", "R1f*", "R2f*")
SCALES = {"quick": [2.0], "thorough": [2.0, 0.5]}
# dipole-scale dimension: ALL transition dipoles of the system are multiplied by s; s = 1 is the
# original grid, every other s repeats the oracles on the scaled system and adds the cross-scale
# oracles (s^4, pathway census).  1e-2 and 1e-4 bring |d|^2 down to 1e-4 .. 1e-8, 1e2 up to 1e4.
DIPSCALES = {"quick": [1.0, 3.0, 1e-2, 1e-4], "thorough": [1.0, 3.0, 1e-2, 1e-4, 1e2]}
# the stub section `lab` gets the dimension in thorough only (it has no system; 4x its cost)
LAB_SCALES = {"quick": [1.0], "thorough": [1.0, 3.0, 1e-2, 1e-4, 1e2]}
SCALED_ONLY = "/only-scaled-dipoles"
# rotation clauses on the scaled systems: thorough only, the generic rotation
ROTS_SCALED = {"quick": [], "thorough": [ISO.GENERIC_ROTATION]}
POLBASES = {"quick": ["XXYY", "XMDZ"], "thorough": ["XXXX", "XXYY", "XYXY", "XMDZ"]}
SIDES = {"quick": [(1, 1, 1, 1), (-1, 1, -1, 1), (-1, 1, 1, 1)],
         "thorough": list(itertools.product((1, -1), repeat=4))}
STUB_RHO0 = 0.75
STUB_EVF = 0.6 - 0.3j


# ------------------------------------------------------------------------------------------
# inner alphabets
# ------------------------------------------------------------------------------------------
def _is(m, ref):
    return numpy.array_equal(numpy.asarray(m), numpy.asarray(ref, dtype=float))


def rotations(tier):
    """thorough: the 23 non-identity proper cube rotations + 1 generic; quick: generators of the
    cube group (two 90-degree turns, one 3-fold) + the generic one."""
    cube = ISO.cube_rotations()[1:]
    if tier == "quick":
        sel = [m for m in cube if _is(m, [[1, 0, 0], [0, 0, -1], [0, 1, 0]])
               or _is(m, [[0, -1, 0], [1, 0, 0], [0, 0, 1]])
               or _is(m, [[0, 0, 1], [1, 0, 0], [0, 1, 0]])]
        return sel + [ISO.GENERIC_ROTATION]
    return cube + [ISO.GENERIC_ROTATION]


def polvec(name4):
    return numpy.array([ISO.POLARISATIONS[ch] for ch in name4], dtype=float)


def pol_class(name4):
    """Equality pattern of the four polarisations, e.g. XXYY -> aabb."""
    seen = {}
    return "".join(seen.setdefault(ch, "abcd"[len(seen)]) for ch in name4)


def make_lab(e4):
    qr = isolation.qr()
    lab = qr.LabSetup()
    lab.set_pulse_polarizations(pulse_polarizations=(numpy.array(e4[0]), numpy.array(e4[1]),
                                                     numpy.array(e4[2])),
                                detection_polarization=numpy.array(e4[3]))
    return lab


_TABLE = None


def full_table():
    """T[a,b,c,d,i,j,k,l]: reference averages for all polarisation and dipole four-tuples."""
    global _TABLE
    if _TABLE is None:
        ISO.selfcheck()
        _TABLE = ISO.average4_table(POLV, DIP4)
    return _TABLE


# ------------------------------------------------------------------------------------------
# section `lab`
# ------------------------------------------------------------------------------------------
def _stub_scheme(sides):
    """Level scheme for one side pattern: the left (ket) side climbs 0->1->2->3->4, the right
    (bra) side 0->5->6->7->8, so that each of the four interactions uses its own transition.
    Returns the list of (final, initial) pairs."""
    cur = {1: 0, -1: 0}
    nxt = {1: 1, -1: 5}
    trans = []
    for s in sides:
        nf = nxt[s]
        trans.append((nf, cur[s]))
        cur[s] = nf
        nxt[s] += 1
    return trans


def eval_lab(case, tier):
    from quantarhei.spectroscopy.diagramatics import liouville_pathway
    name4 = case["pol"]
    e4 = polvec(name4)
    ia, ib, ic, idd = [POLN.index(ch) for ch in name4]
    tab = full_table()[ia, ib, ic, idd]                       # (4,4,4,4) over dipole tuples
    lab = make_lab(e4)
    viol = {}
    worst = 0.0
    nev = 0
    dnorm = numpy.sqrt(numpy.sum(DIP4 ** 2, axis=1))
    stub = types.SimpleNamespace(HH=numpy.diag(numpy.arange(9, dtype=float)),
                                 DD=numpy.zeros((9, 9, 3)),
                                 rho0=numpy.zeros((9, 9), dtype=complex))
    stub.rho0[0, 0] = STUB_RHO0
    obs = [0.0, 0.0]                   # digest of the observed prefactors (divided by s^4)
    for ds, sides in itertools.product(LAB_SCALES[tier], SIDES[tier]):
        trans = _stub_scheme(sides)
        sref = ISO.diagram_sign(sides)
        stag = "".join("L" if s == 1 else "R" for s in sides)
        got = numpy.zeros((4, 4, 4, 4), dtype=complex)
        aux = {}
        for dt in itertools.product(range(4), repeat=4):
            for k in range(4):
                stub.DD[trans[k][0], trans[k][1], :] = ds * DIP4[dt[k]]
            lp = liouville_pathway("R", 0, aggregate=stub, order=3, pname="stub")
            for k in range(4):
                lp.add_transition(trans[k], sides[k])
            lp.set_evolution_factor(STUB_EVF)
            lp.build()
            lp.orientational_averaging(lab)
            nev += 1
            got[dt] = lp.pref
            aux[dt] = numpy.asarray(lp.F4n).tolist()
        exp = sref * STUB_RHO0 * STUB_EVF * tab * ds ** 4
        scale = STUB_RHO0 * abs(STUB_EVF) * ds ** 4 * numpy.einsum("i,j,k,l->ijkl", dnorm, dnorm,
                                                                   dnorm, dnorm)
        err = numpy.abs(got - exp) / scale
        err = numpy.where(numpy.isfinite(err), err, numpy.inf)
        worst = max(worst, float(numpy.max(err)))
        fin = numpy.where(numpy.isfinite(got), got, 0.0) / ds ** 4
        obs[0] += float(abs(numpy.sum(fin)))
        obs[1] += float(numpy.sum(numpy.abs(fin)))
        if not numpy.max(err) <= TOL:
            # the whole table of this side pattern has the opposite sign <=> sign defect
            flipped = bool(numpy.max(numpy.abs(got + exp) / scale) <= TOL)
            dt = tuple(int(i) for i in numpy.unravel_index(int(numpy.argmax(err)), err.shape))
            key = ("pref/lab/sign-flipped/sides=%s" % stag if flipped
                   else "pref/lab/value/pol=%s" % pol_class(name4))
            if ds != 1.0:
                if key in viol:         # already reported for the unscaled dipoles
                    continue
                key += SCALED_ONLY
            if key not in viol:
                viol[key] = (key, "polarisations %s, dipoles %s (all x%g), sides %s: pref=%r, "
                             "SO(3) average*sign*rho0*evf=%r (rel.dev %.3g)"
                             % (name4, list(dt), ds, stag, complex(got[dt]), complex(exp[dt]),
                                float(err[dt])),
                             {"dipoles": list(dt), "sides": list(sides), "dipole_scale": ds,
                              "F4eM4": numpy.asarray(lab.F4eM4).tolist(), "F4n": aux[dt]})
    return {"nontrivial": bool(numpy.max(numpy.abs(tab)) > 1e-9),
            "outcome": ["lab", name4, round(obs[0], 9), round(obs[1], 9)],
            "violations": list(viol.values()), "n": nev - 1,
            "info": {"dev": {"pref-lab": worst}, "unbuildable": 0}}


# ------------------------------------------------------------------------------------------
# section `sys`
# ------------------------------------------------------------------------------------------
def coupling(n, J, topo):
    M = [[0.0] * n for _ in range(n)]
    if J == 0:
        return M
    if topo == "chain":
        for i in range(n - 1):
            M[i][i + 1] = M[i + 1][i] = float(J)
    else:                       # all pairs coupled, all different
        vals = {(0, 1): float(J), (1, 2): -float(J) / 2.0, (0, 2): float(J) / 4.0}
        for (i, j), v in vals.items():
            if j < n:
                M[i][j] = M[j][i] = v
    return M


def spec_of(case):
    n = case["n"]
    return {"n": n, "E": list(ENERGIES[case["en"]][:n]),
            "dip": [list(d) for d in SYS_DIPOLES[:n]],
            "J": coupling(n, case["J"], case["topo"]),
            "lw": list(LINEWIDTHS[case["lw"]][:n]),
            "dyn": case["dyn"], "sites": list(range(n)),
            "shape": case["shape"], "t2": float(case["t2"])}


def build_aggregate(spec, mult, dip=None):
    """Aggregate of two-level molecules with per-molecule Gaussian width and Lorentzian
    dephasing rate (both = spec['lw'] in 1/cm)."""
    qr = isolation.qr()
    dip = spec["dip"] if dip is None else dip
    c2i = qr.convert(1.0, "1/cm", "int")
    mols = []
    with qr.energy_units("1/cm"):
        for e, d, w in zip(spec["E"], dip, spec["lw"]):
            m = qr.Molecule([0.0, float(e)])
            m.set_dipole(0, 1, [float(x) for x in d])
            m.set_transition_width((0, 1), float(w))
            m.set_transition_dephasing((0, 1), float(w) * c2i)      # a rate, taken as is
            mols.append(m)
    agg = qr.Aggregate(molecules=mols)
    n = spec["n"]
    with qr.energy_units("1/cm"):
        for i in range(n):
            for j in range(i + 1, n):
                if spec["J"][i][j] != 0.0:
                    agg.set_resonance_coupling(i, j, float(spec["J"][i][j]))
    agg.build(mult=mult)
    isolation.reset_units()         # C05 owns unit leaks of build
    return agg


class Bench:
    """Everything that does not depend on dipoles or polarisations: one-exciton Hamiltonian,
    evolution superoperator of the waiting time, calculator with its frequency axes."""

    def __init__(self, spec, t2axis=None):
        qr = isolation.qr()
        from quantarhei.spectroscopy.mocktwodcalculator import MockTwoDResponseCalculator
        self.spec = spec
        n = spec["n"]
        agg1 = build_aggregate(spec, 1)
        H = agg1.get_Hamiltonian()
        self.H = H
        t2a = qr.TimeAxis(*(T2AXIS if t2axis is None else t2axis))
        ops, rates = [], []
        if spec["dyn"] == "relax":
            with qr.eigenbasis_of(H):
                for k in range(n - 1):
                    ops.append(qr.qm.ProjectionOperator(k + 1, k + 2, dim=H.dim))
                    rates.append(RELAX_RATES[k])
        else:
            for k, site in enumerate(spec["sites"]):
                ops.append(qr.qm.ProjectionOperator(k + 1, k + 1, dim=H.dim))
                rates.append(DEPH_RATES[site] if spec["dyn"] == "deph" else 0.0)
        sbi = qr.qm.SystemBathInteraction(sys_operators=ops, rates=rates)
        L = qr.qm.LindbladForm(H, sbi)
        eUt = qr.EvolutionSuperOperator(t2a, H, relt=L)
        eUt.set_dense_dt(10)
        eUt.calculate(show_progress=False)
        self.eUt = eUt
        t1 = qr.TimeAxis(0.0, N13, DT13)
        t3 = qr.TimeAxis(0.0, N13, DT13)
        calc = MockTwoDResponseCalculator(t1, t2a, t3)
        with qr.energy_units("1/cm"):
            calc.bootstrap(rwa=RWA, shape=spec["shape"])
        self.calc = calc
        self.ncalc = 0

    def system(self, dip=None):
        agg = build_aggregate(self.spec, 2, dip=dip)
        agg.diagonalize()
        return agg

    def response(self, agg, lab, t2=None):
        """(signals dict, pathway list) of the real pipeline (waiting time of the spec, or t2)."""
        qr = isolation.qr()
        t2 = self.spec["t2"] if t2 is None else float(t2)
        pw = {}
        tw = self.calc.calculate_one_system(t2, agg, self.eUt, lab, pways=pw)
        self.ncalc += 1
        return read_response(tw), pw[str(t2)]


def read_response(tw):
    """The three signals of one TwoDResponse object (+ `_reread`, see below)."""
    qr = isolation.qr()
    out = {}
    for name, flag in (("REPH", qr.signal_REPH), ("NONR", qr.signal_NONR),
                       ("total", qr.signal_TOTL)):
        tw.set_data_flag(flag)
        out[name] = numpy.array(tw.d__data, dtype=complex)
    # history of reads on the same response object: the parts and the total read again, in
    # another order, must be what was read first (a read must not change what is stored)
    again = {}
    for name, flag in (("total", qr.signal_TOTL), ("REPH", qr.signal_REPH),
                       ("total2", qr.signal_TOTL), ("NONR", qr.signal_NONR)):
        tw.set_data_flag(flag)
        again[name] = numpy.array(tw.d__data, dtype=complex)
    out["_reread"] = max(float(numpy.max(numpy.abs(again[k] - out[k.rstrip("2")])))
                         for k in again)
    return out


SIGNALS = ("REPH", "NONR", "total")


def sig_dev(a, b, factor=1.0):
    """Worst over the three signals of max|a - factor*b| / max|factor*b| (per signal); second
    value: which parts fail ("REPH", "NONR", "REPH+NONR", or "total-only"), a deterministic
    function of the failing set (used in violation keys)."""
    worst, bad = 0.0, []
    for s in SIGNALS:
        ref = factor * b[s]
        sc = float(numpy.max(numpy.abs(ref)))
        if not numpy.isfinite(sc) or sc == 0.0:
            sc = 1e-300
        if a[s].shape != ref.shape or not numpy.all(numpy.isfinite(a[s])):
            d = float("inf")
        else:
            d = float(numpy.max(numpy.abs(a[s] - ref))) / sc
        worst = max(worst, d)
        if not d <= TOL:
            bad.append(s)
    parts = [s for s in bad if s != "total"]
    return worst, ("+".join(parts) if parts else "total-only")


def esa_dephasing_signature(agg, pws, spec):
    """Classifies a failure of the additivity clause with Lorentzian lines (J = 0, so every exciton
    is one molecule and a two-exciton state is a pair of molecules).  In an uncoupled aggregate the
    coherence between |e_a> and |f_ab> dephases like the transition of molecule b.  Returns
    `esa-dephasing=initial-molecule` iff every excited-state-absorption pathway carries in its
    third interval exactly the dephasing rate of molecule a (the one already excited) and at least
    one of them thereby differs from the rate of molecule b; `esa-dephasing=correct` if all carry
    the rate of b; otherwise `esa-dephasing=other`."""
    qr = isolation.qr()
    c2i = qr.convert(1.0, "1/cm", "int")
    rate = [w * c2i for w in spec["lw"]]
    allinit, allcorr, some = True, True, False
    for p in pws:
        if p.pathway_name not in ("R1f*", "R2f*"):
            continue
        f, e = int(p.transitions[3, 1]), int(p.transitions[3, 0])      # last interaction f -> e
        # J = 0: eigenstates are site states in energy order; SS is a permutation matrix
        fs = int(numpy.argmax(numpy.abs(agg.SS[:, f])))
        es = int(numpy.argmax(numpy.abs(agg.SS[:, e])))
        pair = [int(x) - 1 for x in agg.twoex_indx[fs]]
        a = es - 1
        if a not in pair or p.dephs is None:
            return "esa-dephasing=other"
        b = pair[0] if pair[1] == a else pair[1]
        got = float(p.dephs[3])
        some = True
        if abs(got - rate[a]) > 1e-9 * rate[a]:
            allinit = False
        if abs(got - rate[b]) > 1e-9 * rate[b]:
            allcorr = False
    if not some:
        return "esa-dephasing=other"
    if allcorr:
        return "esa-dephasing=correct"
    if allinit:
        return "esa-dephasing=initial-molecule"
    return "esa-dephasing=other"


def scaled(dips, s):
    """All dipoles times the common factor s (s = 1.0 reproduces the numbers exactly)."""
    return [[s * float(x) for x in d] for d in dips]


def census_diff(cen, ref):
    """Deterministic tag of a census difference: which pathway types are missing / extra."""
    missing = sorted(t for t in ref if cen.get(t, 0) < ref[t])
    extra = sorted(t for t in cen if cen[t] > ref.get(t, 0))
    return ("missing=" + ",".join(missing)) if missing else ("extra=" + ",".join(extra))


def monomer_spec(spec, m):
    return {"n": 1, "E": [spec["E"][m]], "dip": [list(spec["dip"][m])], "J": [[0.0]],
            "lw": [spec["lw"][m]], "dyn": spec["dyn"] if spec["dyn"] != "relax" else "free",
            "sites": [m], "shape": spec["shape"], "t2": spec["t2"]}


def eval_sys(case, tier):
    spec = spec_of(case)
    n = spec["n"]
    shape = spec["shape"]
    viol = {}
    dev = {}

    def add(key, what, det=None):
        if key not in viol:
            viol[key] = (key, what, det)

    def worst(name, x):
        x = float(x) if numpy.isfinite(x) else 1e300
        dev[name] = max(dev.get(name, 0.0), x)

    bench = Bench(spec)
    agg = bench.system()
    bases = POLBASES[tier]
    labs = {b: make_lab(polvec(b)) for b in bases}
    base = {}
    pws = None
    for b in bases:
        base[b], p = bench.response(agg, labs[b])
        if pws is None:
            pws = p
    uncoupled = case["J"] == 0
    lwtag = "equal-widths" if case["lw"] != "mixed" else "unequal-widths"

    # ---------------- pref: every generated pathway x all 5^4 polarisation four-tuples --------
    npw = len(pws)
    ntypes = {}
    for p in pws:
        ntypes[p.pathway_name] = ntypes.get(p.pathway_name, 0) + 1
    rho0 = numpy.array([float(numpy.real(agg.rho0[p.transitions[0, 1], p.transitions[0, 1]]))
                        for p in pws])
    evf = numpy.array([complex(p.evolfac) for p in pws])
    sref = numpy.array([ISO.diagram_sign(p.sides) for p in pws])
    d4 = numpy.array([[agg.DD[int(p.transitions[k, 0]), int(p.transitions[k, 1]), :]
                       for k in range(4)] for p in pws], dtype=float).reshape(npw, 4, 3)
    dscale = numpy.prod(numpy.sqrt(numpy.sum(d4 ** 2, axis=2)), axis=1) * rho0 * numpy.abs(evf)
    R, w = ISO.rule()
    P = numpy.einsum("ai,rij,pkj->rpka", POLV, R, d4)                        # e_a . R_r d_pk
    ref = numpy.einsum("r,rpa,rpb,rpc,rpd->pabcd", w, P[:, :, 0], P[:, :, 1], P[:, :, 2],
                       P[:, :, 3], optimize=True)
    ref = ref * (sref * rho0 * evf)[:, None, None, None, None]
    lib = numpy.zeros((npw, 5, 5, 5, 5), dtype=complex)
    for idx in itertools.product(range(5), repeat=4):
        lab = make_lab(POLV[list(idx)])
        for ip, p in enumerate(pws):
            p.orientational_averaging(lab)
            lib[(ip,) + idx] = p.pref
    for p in pws:                                   # leave the objects as the pipeline made them
        p.orientational_averaging(labs[bases[0]])
    rel = numpy.abs(lib - ref) / numpy.maximum(dscale, 1e-300)[:, None, None, None, None]
    rel = numpy.where(numpy.isfinite(rel), rel, numpy.inf)
    worst("pref-pathway", numpy.max(rel) if npw else 0.0)
    if npw and not numpy.max(rel) <= TOL:
        for ip, p in enumerate(pws):
            if numpy.max(rel[ip]) <= TOL:
                continue
            idx = numpy.unravel_index(int(numpy.argmax(rel[ip])), rel[ip].shape)
            name4 = "".join(POLN[i] for i in idx)
            flipped = (numpy.max(numpy.abs(lib[ip] + ref[ip])) / max(dscale[ip], 1e-300) <= TOL)
            add("pref/pathway/%s/%s" % (p.pathway_name, "sign-flipped" if flipped else "value"),
                "pathway #%d %s transitions %s: pref=%r but sign*rho0*evf*<SO(3) average>=%r for "
                "polarisations %s (rel.dev %.3g)"
                % (ip, p.pathway_name, p.transitions.tolist(), complex(lib[(ip,) + idx]),
                   complex(ref[(ip,) + idx]), name4, float(rel[(ip,) + idx])),
                {"transitions": p.transitions.tolist(), "sides": p.sides.tolist(),
                 "dipoles": d4[ip].tolist(), "polarisations": name4})

    # ---------------- total == REPH + NONR, ledger over pathways -------------------------------
    for b in bases:
        r = base[b]
        sc = max(float(numpy.max(numpy.abs(r["REPH"]))), float(numpy.max(numpy.abs(r["NONR"]))),
                 1e-300)
        if r.get("_reread", 0.0) > TOL * sc:
            add("total/reread-differs/%s" % shape,
                "reading total, REPH, total, NONR again from the same response object differs "
                "from the first reads by %.3g" % (r["_reread"] / sc), None)
        d = float(numpy.max(numpy.abs(r["total"] - (r["REPH"] + r["NONR"])))) / sc
        worst("total-sum", d)
        if not d <= TOL:
            add("total/sum/%s" % shape, "total differs from REPH+NONR by %.3g (relative), "
                "polarisations %s" % (d, b), None)
    lab0 = labs[bases[0]]
    for p in pws:
        p.orientational_averaging(lab0)
    led = {"R": 0.0, "NR": 0.0}
    for p in pws:
        led[p.pathway_type] = led[p.pathway_type] + bench.calc.calculate_pathway(p, shape=shape)
    for typ, name in (("R", "REPH"), ("NR", "NONR")):
        got = base[bases[0]][name]
        sc = max(float(numpy.max(numpy.abs(got))), 1e-300)
        d = float(numpy.max(numpy.abs(got - led[typ]))) / sc
        worst("total-ledger", d)
        if not d <= TOL:
            add("total/ledger/%s/%s" % (name, shape), "%s part differs from the sum over the "
                "generated %s-type pathways by %.3g (relative)" % (name, typ, d), None)

    # ---------------- rotation of all polarisations ---------------------------------------------
    rots = rotations(tier)
    for ir, rot in enumerate(rots):
        for b in bases:
            labr = make_lab(polvec(b).dot(numpy.asarray(rot).T))
            r, _ = bench.response(agg, labr)
            d, s = sig_dev(r, base[b])
            worst("rot-pol", d)
            if not d <= TOL:
                add("rot-pol/%s/pol=%s" % (s, pol_class(b)),
                    "%s signal changes by %.3g (relative) under the common rotation #%d of the "
                    "polarisations %s" % (s, d, ir, b), {"rotation": numpy.asarray(rot).tolist()})

    # ---------------- rotation of all dipoles ---------------------------------------------------
    for ir, rot in enumerate(rots):
        dipr = [list(numpy.asarray(rot).dot(numpy.array(d))) for d in spec["dip"]]
        aggr = bench.system(dip=dipr)
        for b in bases:
            r, _ = bench.response(aggr, labs[b])
            d, s = sig_dev(r, base[b])
            worst("rot-dip", d)
            if not d <= TOL:
                add("rot-dip/%s/pol=%s" % (s, pol_class(b)),
                    "%s signal changes by %.3g (relative) under the common rotation #%d of all "
                    "dipoles (polarisations %s)" % (s, d, ir, b),
                    {"rotation": numpy.asarray(rot).tolist()})

    # ---------------- k^4 ------------------------------------------------------------------------
    for k in SCALES[tier]:
        dipk = [[k * x for x in d] for d in spec["dip"]]
        aggk = bench.system(dip=dipk)
        for b in bases:
            r, _ = bench.response(aggk, labs[b])
            d, s = sig_dev(r, base[b], factor=k ** 4)
            worst("scale-k4", d)
            if not d <= TOL:
                add("scale-k4/%s" % s, "%s signal of the system with all dipoles x%g differs from "
                    "%g x the original by %.3g (relative; polarisations %s)"
                    % (s, k, k ** 4, d, b), {"k": k})

    # ---------------- uncoupled aggregate == sum of monomers -----------------------------------
    nmono = 0
    monob = [Bench(monomer_spec(spec, m)) for m in range(n)] if uncoupled else []

    def additivity(s, agg_s, base_s, pws_s, addf):
        """J = 0: the response of the aggregate (all dipoles x s) == sum over its molecules built
        alone with the same (scaled) dipole."""
        tot = {b: {sg: 0.0 for sg in SIGNALS} for b in bases}
        for m, mb in enumerate(monob):
            magg = mb.system(dip=scaled([spec["dip"][m]], s))
            for b in bases:
                r, _ = mb.response(magg, labs[b])
                for sg in SIGNALS:
                    tot[b][sg] = tot[b][sg] + r[sg]
        for b in bases:
            d, sg = sig_dev(base_s[b], tot[b])
            worst("uncoupled" if not (shape == "Lorentzian" and case["lw"] == "mixed")
                  else "uncoupled-lorentzian-unequal", d)
            if not d <= TOL:
                sig = (esa_dephasing_signature(agg_s, pws_s, spec) if shape == "Lorentzian"
                       else None)
                addf("uncoupled/%s/%s%s" % (shape, lwtag, "/" + sig if sig else ""),
                     "%s signal of the uncoupled %d-mer differs from the sum over its molecules "
                     "built separately by %.3g (relative; polarisations %s, line widths %s 1/cm%s)"
                     % (sg, n, d, b, spec["lw"], "" if s == 1.0 else ", all dipoles x%g" % s),
                     {"polarisations": b, "failing": sg, "dipole_scale": s})

    if uncoupled:
        additivity(1.0, agg, base, pws, add)

    # ---------------- dipole-scale dimension -----------------------------------------------------
    # every s != 1: the system with ALL dipoles x s goes through the pipeline for every base
    # polarisation setting; cross-scale oracles (s^4 per signal, pathway census) against s = 1 and
    # the reference oracles pref (prefactors as the pipeline made them), total (sum, re-read,
    # ledger), uncoupled on the scaled system itself; thorough: also the rotation clauses with
    # the generic rotation
    cen1 = census(pws)
    sdigest = []
    for s in DIPSCALES[tier]:
        if s == 1.0:
            continue

        def add_s(key, what, det=None):
            if key not in viol:             # else: already reported for the unscaled dipoles
                add(key + SCALED_ONLY, what, det)

        aggs = bench.system(dip=scaled(spec["dip"], s))
        res = {}
        for b in bases:
            res[b] = bench.response(aggs, labs[b])
        base_s = {b: res[b][0] for b in bases}
        sdigest.append(round(float(numpy.max(numpy.abs(base_s[bases[0]]["total"]))) / s ** 4, 6))
        for b in bases:
            r, p = res[b]
            where = "all dipoles x%g, polarisations %s" % (s, b)
            d, parts = sig_dev(r, base[b], factor=s ** 4)
            worst("scale-s4", d)
            if not d <= TOL:
                add("scale-s4/%s" % parts, "%s signal of the system with all dipoles x%g differs "
                    "from %g x the original by %.3g (relative; polarisations %s)"
                    % (parts, s, s ** 4, d, b), {"dipole_scale": s, "polarisations": b})
            cen = census(p)
            if cen != cen1:
                add("scale-census/%s" % census_diff(cen, cen1),
                    "generated pathways %s, with the original dipoles %s; %s"
                    % (sorted(cen.items()), sorted(cen1.items()), where),
                    {"dipole_scale": s, "polarisations": b})
            if p:
                rel, got, ref = pref_as_made(aggs, p, polvec(b))
                worst("scale-pref", numpy.max(rel))
                if not numpy.max(rel) <= TOL:
                    ip = int(numpy.argmax(rel))
                    add_s("pref/pathway/%s/value" % p[ip].pathway_name,
                          "pathway #%d %s transitions %s: pref=%r but sign*rho0*evf*<SO(3) "
                          "average>=%r (rel.dev %.3g); %s"
                          % (ip, p[ip].pathway_name, p[ip].transitions.tolist(),
                             complex(got[ip]), complex(ref[ip]), float(rel[ip]), where),
                          {"dipole_scale": s, "polarisations": b})
            sc = max(float(numpy.max(numpy.abs(r["REPH"]))),
                     float(numpy.max(numpy.abs(r["NONR"]))), 1e-300)
            if r.get("_reread", 0.0) > TOL * sc:
                add_s("total/reread-differs/%s" % shape,
                      "reading total, REPH, total, NONR again from the same response object "
                      "differs from the first reads by %.3g; %s" % (r["_reread"] / sc, where),
                      None)
            d = float(numpy.max(numpy.abs(r["total"] - (r["REPH"] + r["NONR"])))) / sc
            worst("total-sum", d)
            if not d <= TOL:
                add_s("total/sum/%s" % shape, "total differs from REPH+NONR by %.3g (relative); "
                      "%s" % (d, where), None)
        r, p = res[bases[0]]
        led = {"R": 0.0, "NR": 0.0}
        for q in p:
            led[q.pathway_type] = led[q.pathway_type] + bench.calc.calculate_pathway(q,
                                                                                    shape=shape)
        for typ, name in (("R", "REPH"), ("NR", "NONR")):
            sc = max(float(numpy.max(numpy.abs(r[name]))), 1e-300)
            d = float(numpy.max(numpy.abs(r[name] - led[typ]))) / sc
            worst("total-ledger", d)
            if not d <= TOL:
                add_s("total/ledger/%s/%s" % (name, shape), "%s part differs from the sum over "
                      "the generated %s-type pathways by %.3g (relative; all dipoles x%g)"
                      % (name, typ, d, s), None)
        if uncoupled:
            additivity(s, aggs, base_s, res[bases[0]][1], add_s)
        for rot in ROTS_SCALED[tier]:
            aggr = bench.system(dip=[list(numpy.asarray(rot).dot(numpy.array(dd)))
                                     for dd in scaled(spec["dip"], s)])
            for b in bases:
                labr = make_lab(polvec(b).dot(numpy.asarray(rot).T))
                for clause, r in (("rot-pol", bench.response(aggs, labr)[0]),
                                  ("rot-dip", bench.response(aggr, labs[b])[0])):
                    d, sg = sig_dev(r, base_s[b])
                    worst(clause, d)
                    if not d <= TOL:
                        add_s("%s/%s/pol=%s" % (clause, sg, pol_class(b)),
                              "%s signal changes by %.3g (relative) under the generic common "
                              "rotation of %s (all dipoles x%g, polarisations %s)"
                              % (sg, d, "the polarisations" if clause == "rot-pol"
                                 else "all dipoles", s, b),
                              {"rotation": numpy.asarray(rot).tolist(), "dipole_scale": s})
    nmono = sum(mb.ncalc for mb in monob)

    r0 = base[bases[0]]
    nontrivial = bool(npw > 0 and float(numpy.max(numpy.abs(r0["total"]))) > 0.0
                      and ntypes.get("R1f*", 0) > 0 and ntypes.get("R2f*", 0) > 0)
    outcome = ["sys", n, case["en"], case["J"], case["topo"], case["lw"], case["t2"], shape,
               case["dyn"], sorted(ntypes.items()),
               [round(float(numpy.max(numpy.abs(r0[s]))), 6) for s in SIGNALS],
               round(float(numpy.sum(numpy.abs(lib))), 6), sdigest]
    return {"nontrivial": nontrivial, "outcome": outcome, "violations": list(viol.values()),
            "n": bench.ncalc + nmono + 625 * npw - 1,
            "info": {"dev": dev, "unbuildable": 0, "npw": npw}}


# ------------------------------------------------------------------------------------------
# section `reuse`: histories of one calculator object
# ------------------------------------------------------------------------------------------
BOOT = "B"                       # the operation "bootstrap again with the same arguments"
# system alphabet of the histories: name -> (molecules, J, topology, mult of Aggregate.build);
# no two-exciton band: single molecules and aggregates built with mult=1
REUSE_SYSTEMS = [
    ("m0", ((0,), 0, "chain", 2)),
    ("m1", ((1,), 0, "chain", 2)),
    ("m2", ((2,), 0, "chain", 2)),
    ("d1:J0", ((0, 1), 0, "chain", 1)),
    ("d2:J0", ((0, 1), 0, "chain", 2)),
    ("d2:J0:s12", ((1, 2), 0, "chain", 2)),
    ("d2:J80", ((0, 1), 80, "chain", 2)),
    ("t1:J80", ((0, 1, 2), 80, "chain", 1)),
    ("t2:J0", ((0, 1, 2), 0, "chain", 2)),
    ("t2:J80", ((0, 1, 2), 80, "chain", 2)),
]
REUSE_POLS = ["XXYY", "XMDZ"]
# api `one`: calculate_one_system at every listed waiting time, in this order, for every
# polarisation setting; api `all`: calculate_all_system (whole t2 axis) for every setting
REUSE_T2 = {"one": (0.0, 20.0), "all": (0.0, 10.0, 20.0)}
REUSE_DEPTH = {"quick": 2, "thorough": 3}
# history depth of the repetition with scaled dipoles (s != 1): all sequences of this length
REUSE_DEPTH_SCALED = {"quick": 2, "thorough": 2}
# the coupled trimer with two-exciton band (hundreds of pathways) only in thorough
REUSE_NAMES = {"quick": [nm for nm, _ in REUSE_SYSTEMS if nm != "t2:J80"],
               "thorough": [nm for nm, _ in REUSE_SYSTEMS]}


def reuse_spec(case, name):
    sites, J, topo, _mult = dict(REUSE_SYSTEMS)[name]
    n = len(sites)
    return {"n": n, "E": [ENERGIES[case["en"]][s] for s in sites],
            "dip": [list(SYS_DIPOLES[s]) for s in sites], "J": coupling(n, J, topo),
            "lw": [LINEWIDTHS[case["lw"]][s] for s in sites], "dyn": case["dyn"],
            "sites": list(sites), "shape": case["shape"], "t2": None}


class ReuseSystem:
    """One letter of the system alphabet: aggregate (built with the mult of the letter,
    diagonalised) and the evolution superoperator of its one-exciton block."""

    def __init__(self, case, name, s=1.0, eUt=None):
        sites, J, _topo, mult = dict(REUSE_SYSTEMS)[name]
        self.name = name
        self.spec = reuse_spec(case, name)
        # the evolution superoperator does not depend on the dipoles: shared between the scales
        self.eUt = Bench(self.spec).eUt if eUt is None else eUt
        self.agg = build_aggregate(self.spec, mult, dip=scaled(self.spec["dip"], s))
        self.agg.diagonalize()
        self.band = bool(mult >= 2 and len(sites) >= 2)
        self.tag = "two-exciton-band" if self.band else "no-two-exciton-band"
        # uncoupled with two-exciton band: the additivity clause applies
        self.parts = ["m%d" % s for s in sites] if (self.band and J == 0) else None


def bootstrap_calculator(calc, shape):
    qr = isolation.qr()
    with qr.energy_units("1/cm"):
        calc.bootstrap(rwa=RWA, shape=shape)


def new_calculator(shape):
    qr = isolation.qr()
    from quantarhei.spectroscopy.mocktwodcalculator import MockTwoDResponseCalculator
    calc = MockTwoDResponseCalculator(qr.TimeAxis(0.0, N13, DT13), qr.TimeAxis(*T2AXIS),
                                      qr.TimeAxis(0.0, N13, DT13))
    bootstrap_calculator(calc, shape)
    return calc


def census(pws):
    out = {}
    for p in pws:
        out[p.pathway_name] = out.get(p.pathway_name, 0) + 1
    return out


def pref_as_made(agg, pws, e4):
    """Relative deviation of the prefactor each pathway carries (as the pipeline left it, for the
    polarisations e4 of the call) from sign * rho0 * evolution factor * <SO(3) average>."""
    npw = len(pws)
    rho0 = numpy.array([float(numpy.real(agg.rho0[p.transitions[0, 1], p.transitions[0, 1]]))
                        for p in pws])
    evf = numpy.array([complex(p.evolfac) for p in pws])
    sref = numpy.array([ISO.diagram_sign(p.sides) for p in pws])
    d4 = numpy.array([[agg.DD[int(p.transitions[k, 0]), int(p.transitions[k, 1]), :]
                       for k in range(4)] for p in pws], dtype=float).reshape(npw, 4, 3)
    dscale = numpy.prod(numpy.sqrt(numpy.sum(d4 ** 2, axis=2)), axis=1) * rho0 * numpy.abs(evf)
    dscale = dscale * numpy.prod(numpy.sqrt(numpy.sum(numpy.asarray(e4) ** 2, axis=1)))
    R, w = ISO.rule()
    P = numpy.einsum("ki,rij,pkj->rpk", numpy.asarray(e4, dtype=float), R, d4)
    ref = numpy.einsum("r,rp->p", w, numpy.prod(P, axis=2)) * sref * rho0 * evf
    got = numpy.array([complex(p.pref) for p in pws])
    rel = numpy.abs(got - ref) / numpy.maximum(dscale, 1e-300)
    return numpy.where(numpy.isfinite(rel), rel, numpy.inf), got, ref


def reuse_step(calc, S, labs, api, t2s):
    """One step of a history: the calculator is used for system S with every polarisation
    setting and every waiting time.  Returns {(pol, t2): (signals, pathways or None)}."""
    out = {}
    for b in REUSE_POLS:
        if api == "one":
            for t2 in t2s:
                pw = {}
                tw = calc.calculate_one_system(t2, S.agg, S.eUt, labs[b], pways=pw)
                out[(b, t2)] = (read_response(tw), list(pw[str(t2)]))
        else:
            cont = calc.calculate_all_system(S.agg, S.eUt, labs[b])
            for t2 in t2s:
                tw = cont.get_spectrum(t2)
                # the pathways of the last waiting time are what the calculator holds now
                pws = list(calc.pathways) if t2 == t2s[-1] else None
                out[(b, t2)] = (read_response(tw), pws)
    return out


def eval_reuse(case, tier):
    shape, api, first, depth = case["shape"], case["api"], case["first"], case["depth"]
    t2s = REUSE_T2[api]
    names = list(REUSE_NAMES[tier])
    ops = names + [BOOT]
    labs = {b: make_lab(polvec(b)) for b in REUSE_POLS}
    lwtag = "equal-widths" if case["lw"] != "mixed" else "unequal-widths"
    viol, dev = {}, {}
    count = {"calc": 0, "hist": 0, "changes": 0}
    checked = set()
    digest = []

    def add(key, what, det=None):
        if key not in viol:
            viol[key] = (key, what, det)

    def worst(name, x):
        x = float(x) if numpy.isfinite(x) else 1e300
        dev[name] = max(dev.get(name, 0.0), x)

    # the system alphabet at every dipole scale (s = 1 first)
    systems = {1.0: {nm: ReuseSystem(case, nm) for nm in names}}
    for s in DIPSCALES[tier]:
        if s != 1.0:
            systems[s] = {nm: ReuseSystem(case, nm, s, eUt=systems[1.0][nm].eUt)
                          for nm in names}
    fresh = {}              # (s, name, pol, t2) -> (signals, census) of a fresh calculator
    fresh_all = {}          # (s, name, pol) -> {t2: signals} of a fresh calculator, api `all`

    def fresh_all_api(s, nm, b):
        """Lazily (only to classify a failure): a fresh calculator used through
        calculate_all_system for system nm at scale s."""
        if (s, nm, b) not in fresh_all:
            S = systems[s][nm]
            cont = new_calculator(shape).calculate_all_system(S.agg, S.eUt, labs[b])
            fresh_all[(s, nm, b)] = {t2: read_response(cont.get_spectrum(t2))
                                     for t2 in REUSE_T2["all"]}
        return fresh_all[(s, nm, b)]

    def own_screening(s, nm, b, t2, sig):
        """A result of the api `all` at scale s != 1 that deviates from calculate_one_system:
        True iff a FRESH calculator used through the same api at the same scale gives the same
        result (so it is no effect of the history) while at s = 1 the api agrees with
        calculate_one_system, i.e. the pathway screening of calculate_all_system depends on the
        absolute size of the dipoles."""
        if api != "all" or s == 1.0:
            return False
        d, _ = sig_dev(sig, fresh_all_api(s, nm, b)[t2])
        if not d <= TOL:
            return False
        d, _ = sig_dev(fresh_all_api(1.0, nm, b)[t2], fresh[(1.0, nm, b, t2)][0])
        return bool(d <= TOL)

    def check(s, full, k, calc, res):
        op = full[k]
        S = systems[s][op]
        prev = full[k - 1] if k > 0 else BOOT
        after = ("bootstrap" if prev == BOOT else
                 "same-system" if prev == op else systems[s][prev].tag)
        hist = " -> ".join(full[:k + 1])
        det = {"history": list(full[:k + 1]), "dipole_scale": s}

        def addk(key, what):
            if s == 1.0:
                add(key, what, det)
            elif key not in viol:           # else: already reported for the unscaled dipoles
                add(key + SCALED_ONLY, what, det)

        for (b, t2), (sig, pws) in res.items():
            where = "history %s (api %s%s), polarisations %s, t2=%g" % (
                hist, api, "" if s == 1.0 else ", all dipoles x%g" % s, b, t2)
            fsig, fcen = fresh[(s, op, b, t2)]
            sc = max(float(numpy.max(numpy.abs(sig["REPH"]))),
                     float(numpy.max(numpy.abs(sig["NONR"]))), 1e-300)
            if sig["_reread"] > TOL * sc:
                addk("reuse/%s/total/reread-differs/%s" % (api, shape),
                     "reading total, REPH, total, NONR again from the same response object "
                     "differs from the first reads by %.3g; %s" % (sig["_reread"] / sc, where))
            d = float(numpy.max(numpy.abs(sig["total"] - (sig["REPH"] + sig["NONR"])))) / sc
            worst("reuse-total-sum", d)
            if not d <= TOL:
                addk("reuse/%s/total/sum/%s" % (api, shape),
                     "total differs from REPH+NONR by %.3g (relative); %s" % (d, where))
            dfr, pfr = sig_dev(sig, fsig)
            worst("reuse-fresh", dfr)
            cen = census(pws) if pws is not None else None
            cen_bad = cen is not None and cen != fcen
            dun, pun = 0.0, None
            if S.parts is not None:
                tot = {sg: sum(fresh[(s, m, b, t2)][0][sg] for m in S.parts) for sg in SIGNALS}
                dun, pun = sig_dev(sig, tot)
                worst("reuse-uncoupled", dun)
            if (not dfr <= TOL or cen_bad) and own_screening(s, op, b, t2, sig):
                # specific key; the fresh / census / additivity deviations of this result are
                # consequences of the reduced pathway set and are not reported again
                add("reuse/all/pathway-screening-depends-on-dipole-scale",
                    "calculate_all_system of a fresh calculator generates for the system with all "
                    "dipoles x%g a different set of pathways (%s) than calculate_one_system (%s), "
                    "while both agree for the original dipoles: %s signal deviates by %.3g "
                    "(relative); %s"
                    % (s, sorted(cen.items()) if cen is not None else "not recorded",
                       sorted(fcen.items()), pfr, dfr, where), det)
            else:
                if not dfr <= TOL:
                    addk("reuse/%s/fresh-differs/now=%s/after=%s/%s" % (api, S.tag, after, pfr),
                         "%s signal of the last system differs by %.3g (relative) from the one a "
                         "fresh calculator gives for it; %s" % (pfr, dfr, where))
                if not dun <= TOL:
                    addk("reuse/%s/uncoupled/%s/%s/after=%s" % (api, shape, lwtag, after),
                         "%s signal of the uncoupled aggregate differs by %.3g (relative) from "
                         "the sum over its molecules (each with a fresh calculator); %s"
                         % (pun, dun, where))
                if cen_bad:
                    addk("reuse/%s/pathway-census/now=%s/after=%s/%s"
                         % (api, S.tag, after, census_diff(cen, fcen)),
                         "generated pathways %s, a fresh calculator generates %s; %s"
                         % (sorted(cen.items()), sorted(fcen.items()), where))
            if pws is None:
                continue
            if pws:
                rel, got, ref = pref_as_made(S.agg, pws, polvec(b))
                worst("reuse-pref", numpy.max(rel))
                if not numpy.max(rel) <= TOL:
                    ip = int(numpy.argmax(rel))
                    addk("reuse/%s/pref/%s/value" % (api, pws[ip].pathway_name),
                         "pathway #%d %s transitions %s: pref=%r but sign*rho0*evf*<SO(3) "
                         "average>=%r (rel.dev %.3g); %s"
                         % (ip, pws[ip].pathway_name, pws[ip].transitions.tolist(),
                            complex(got[ip]), complex(ref[ip]), float(rel[ip]), where))
            led = {"R": 0.0, "NR": 0.0}
            for p in pws:
                led[p.pathway_type] = led[p.pathway_type] + calc.calculate_pathway(p, shape=shape)
            for typ, name in (("R", "REPH"), ("NR", "NONR")):
                sc1 = max(float(numpy.max(numpy.abs(sig[name]))), 1e-300)
                d = float(numpy.max(numpy.abs(sig[name] - led[typ]))) / sc1
                worst("reuse-ledger", d)
                if not d <= TOL:
                    addk("reuse/%s/total/ledger/%s/%s" % (api, name, shape),
                         "%s part differs from the sum over the generated %s-type pathways by "
                         "%.3g (relative); %s" % (name, typ, d, where))

    for s in DIPSCALES[tier]:
        sysm = systems[s]
        # reference of the differential oracle: a fresh calculator for every single calculation
        for nm in names:
            S = sysm[nm]
            for b in REUSE_POLS:
                for t2 in t2s:
                    pw = {}
                    tw = new_calculator(shape).calculate_one_system(t2, S.agg, S.eUt, labs[b],
                                                                    pways=pw)
                    count["calc"] += 1
                    fresh[(s, nm, b, t2)] = (read_response(tw), census(pw[str(t2)]))
        # cross-scale oracles on every system of the alphabet (fresh calculators)
        if s != 1.0:
            for nm in names:
                for b in REUSE_POLS:
                    for t2 in t2s:
                        sig, cen = fresh[(s, nm, b, t2)]
                        sig1, cen1 = fresh[(1.0, nm, b, t2)]
                        where = "system %s, polarisations %s, t2=%g" % (nm, b, t2)
                        d, parts = sig_dev(sig, sig1, factor=s ** 4)
                        worst("reuse-scale-s4", d)
                        if not d <= TOL:
                            add("reuse/scale-s4/%s/%s" % (sysm[nm].tag, parts),
                                "%s signal of the system with all dipoles x%g differs from %g x "
                                "the original by %.3g (relative; fresh calculators); %s"
                                % (parts, s, s ** 4, d, where),
                                {"system": nm, "dipole_scale": s})
                        if cen != cen1:
                            add("reuse/scale-census/%s/%s" % (sysm[nm].tag,
                                                              census_diff(cen, cen1)),
                                "generated pathways %s with all dipoles x%g, %s with the original "
                                "dipoles; %s" % (sorted(cen.items()), s, sorted(cen1.items()),
                                                 where), {"system": nm, "dipole_scale": s})
        # all histories at this scale
        dg = 0.0
        dep = depth if s == 1.0 else min(depth, REUSE_DEPTH_SCALED[tier])
        for rest in itertools.product(ops, repeat=dep - 1):
            full = (first,) + rest
            count["hist"] += 1
            calc = new_calculator(shape)
            for k, op in enumerate(full):
                if op == BOOT:
                    bootstrap_calculator(calc, shape)
                    continue
                res = reuse_step(calc, sysm[op], labs, api, t2s)
                count["calc"] += len(res)
                if (s, full[:k + 1]) in checked:    # same prefix, same (deterministic) result
                    continue
                checked.add((s, full[:k + 1]))
                check(s, full, k, calc, res)
                if k > 0 and full[k - 1] != BOOT and sysm[full[k - 1]].band != sysm[op].band:
                    count["changes"] += 1
                dg += sum(float(numpy.max(numpy.abs(r["total"]))) for r, _ in res.values())
        digest.append(round(dg / s ** 4, 6))

    fmax = [float(numpy.max(numpy.abs(fresh[(s, nm, REUSE_POLS[0], t2s[-1])][0]["total"])))
            / s ** 4 for s in DIPSCALES[tier] for nm in names]
    nontrivial = bool(min(fmax) > 0.0 and count["changes"] > 0)
    outcome = ["reuse", shape, api, case["lw"], case["dyn"], case["en"], first, depth,
               digest, [round(x, 6) for x in fmax]]
    return {"nontrivial": nontrivial, "outcome": outcome, "violations": list(viol.values()),
            "n": count["calc"] - 1,
            "info": {"dev": dev, "unbuildable": 0, "npw": 0, "histories": count["hist"],
                     "steps_checked": len(checked)}}


# ------------------------------------------------------------------------------------------
# section `wait`: the whole waiting-time axis
# ------------------------------------------------------------------------------------------
# t2 axes (start, points, step in fs) per number of molecules.  The slowest coherence between
# one-exciton states: quick (heterodimer 12000 / 12300, gap >= 300 1/cm, period <= 111 fs;
# uncoupled hetero-trimer, gap 150 1/cm, period 222 fs); thorough also the homodimer with J = 80
# (gap 160 1/cm, period 208 fs).  Every axis covers more than the longest period, so every
# coherence element of the evolution superoperator visits all four quadrants of the complex
# plane (this is what makes a case non-trivial; the uncoupled homodimer has no oscillating
# coherence and stays trivial).
WAIT_AXIS = {"quick": {2: (0.0, 13, 10.0), 3: (0.0, 24, 10.0)},
             "thorough": {2: (0.0, 47, 5.0), 3: (0.0, 47, 5.0)}}


def quadrants(z):
    """Set of quadrants (sign of real part, sign of imaginary part) a list of numbers visits;
    numbers on an axis count for neither side."""
    return set((bool(x.real > 0), bool(x.imag > 0)) for x in z if x.real != 0 and x.imag != 0)


def eval_wait(case, tier):
    from mc.refmodels import pathway_census as CEN
    qr = isolation.qr()
    spec = spec_of(case)
    n, shape = spec["n"], spec["shape"]
    axis = WAIT_AXIS[tier][n]
    viol, dev = {}, {}
    failing = {}                    # key -> waiting times at which it fails

    def add(key, t2, what, det=None):
        if float(t2) not in failing.setdefault(key, []):
            failing[key].append(float(t2))
        if key not in viol:
            viol[key] = [key, what, dict(det or {}, t2=float(t2))]

    def worst(name, x):
        x = float(x) if numpy.isfinite(x) else 1e300
        dev[name] = max(dev.get(name, 0.0), x)

    bench = Bench(spec, t2axis=axis)
    agg = bench.system()
    ntot = agg.HH.shape[0]
    bases = POLBASES[tier]
    labs = {b: make_lab(polvec(b)) for b in bases}
    uncoupled = case["J"] == 0
    lwtag = "equal-widths" if case["lw"] != "mixed" else "unequal-widths"
    monob = [Bench(monomer_spec(spec, m), t2axis=axis) for m in range(n)] if uncoupled else []
    maggs = [mb.system() for mb in monob]
    t2s = [float(t) for t in qr.TimeAxis(*axis).data]
    coh = []                        # a coherence element of the superoperator along the axis
    ambiguous = 0
    digest = []
    npw_max = 0
    for t2 in t2s:
        with qr.eigenbasis_of(bench.H):
            U = numpy.array(bench.eUt.at(t2).data, dtype=complex)
        coh.append(complex(U[1, 2, 1, 2]))
        res = {b: bench.response(agg, labs[b], t2=t2) for b in bases}
        pws = res[bases[0]][1]
        npw_max = max(npw_max, len(pws))
        r0 = res[bases[0]][0]
        digest.append(round(float(numpy.max(numpy.abs(r0["total"]))), 6))
        # ---- census against the reference count (evolution superoperator, dipoles)
        ref, amb = CEN.expected_census(U, agg.D2, n, ntot)
        if ref is None:
            ambiguous += 1
        else:
            for b in bases:
                cen = census(res[b][1])
                if cen != ref:
                    add("wait/census/%s" % census_diff(cen, ref), t2,
                        "t2=%g: generated pathways %s, but the evolution superoperator and the "
                        "transition dipoles allow %s (polarisations %s)"
                        % (t2, sorted(cen.items()), sorted(ref.items()), b),
                        {"polarisations": b})
                    break
        for b in bases:
            r, p = res[b]
            where = "t2=%g, polarisations %s" % (t2, b)
            # ---- pref on the prefactors as the pipeline made them
            if p:
                rel, got, refp = pref_as_made(agg, p, polvec(b))
                worst("wait-pref", numpy.max(rel))
                if not numpy.max(rel) <= TOL:
                    ip = int(numpy.argmax(rel))
                    add("wait/pref/pathway/%s/value" % p[ip].pathway_name, t2,
                        "pathway #%d %s transitions %s: pref=%r but sign*rho0*evf*<SO(3) "
                        "average>=%r (rel.dev %.3g); %s"
                        % (ip, p[ip].pathway_name, p[ip].transitions.tolist(),
                           complex(got[ip]), complex(refp[ip]), float(rel[ip]), where),
                        {"polarisations": b})
            # ---- total
            sc = max(float(numpy.max(numpy.abs(r["REPH"]))),
                     float(numpy.max(numpy.abs(r["NONR"]))), 1e-300)
            if r.get("_reread", 0.0) > TOL * sc:
                add("wait/total/reread-differs/%s" % shape, t2,
                    "reading total, REPH, total, NONR again from the same response object "
                    "differs from the first reads by %.3g; %s" % (r["_reread"] / sc, where))
            d = float(numpy.max(numpy.abs(r["total"] - (r["REPH"] + r["NONR"])))) / sc
            worst("wait-total-sum", d)
            if not d <= TOL:
                add("wait/total/sum/%s" % shape, t2,
                    "total differs from REPH+NONR by %.3g (relative); %s" % (d, where))
        led = {"R": 0.0, "NR": 0.0}
        for q in pws:
            led[q.pathway_type] = led[q.pathway_type] + bench.calc.calculate_pathway(q,
                                                                                    shape=shape)
        for typ, name in (("R", "REPH"), ("NR", "NONR")):
            sc = max(float(numpy.max(numpy.abs(r0[name]))), 1e-300)
            d = float(numpy.max(numpy.abs(r0[name] - led[typ]))) / sc
            worst("wait-ledger", d)
            if not d <= TOL:
                add("wait/total/ledger/%s/%s" % (name, shape), t2,
                    "%s part differs from the sum over the generated %s-type pathways by %.3g "
                    "(relative; t2=%g)" % (name, typ, d, t2))
        # ---- uncoupled aggregate == sum of its molecules, at this waiting time
        if uncoupled:
            for b in bases:
                tot = {sg: 0.0 for sg in SIGNALS}
                for mb, ma in zip(monob, maggs):
                    rm, _ = mb.response(ma, labs[b], t2=t2)
                    for sg in SIGNALS:
                        tot[sg] = tot[sg] + rm[sg]
                d, sg = sig_dev(res[b][0], tot)
                worst("wait-uncoupled", d)
                if not d <= TOL:
                    sig = (esa_dephasing_signature(agg, res[b][1], spec)
                           if shape == "Lorentzian" else None)
                    add("wait/uncoupled/%s/%s%s/%s" % (shape, lwtag, "/" + sig if sig else "", sg),
                        t2, "t2=%g: %s signal of the uncoupled %d-mer differs from the sum over "
                        "its molecules built separately by %.3g (relative; polarisations %s, "
                        "line widths %s 1/cm); coherence element U[1,2,1,2]=%r"
                        % (t2, sg, n, d, b, spec["lw"], coh[-1]),
                        {"polarisations": b, "failing": sg})
    out = []
    for key, (k, what, det) in viol.items():
        det["failing_t2"] = failing[key]
        out.append((k, what + " [fails at %d of %d waiting times: %s]"
                    % (len(failing[key]), len(t2s), failing[key][:12]), det))
    quad = quadrants(coh)
    nontrivial = bool(npw_max > 0 and max(digest) > 0.0 and len(quad) == 4
                      and ambiguous < len(t2s))
    outcome = ["wait", n, case["en"], case["J"], case["topo"], case["lw"], shape, case["dyn"],
               digest, len(quad), ambiguous]
    return {"nontrivial": nontrivial, "outcome": outcome, "violations": out,
            "n": bench.ncalc + sum(mb.ncalc for mb in monob) - 1,
            "info": {"dev": dev, "unbuildable": 0, "npw": npw_max,
                     "census_ambiguous": ambiguous}}


# ------------------------------------------------------------------------------------------
# section `hist`: histories of ONE aggregate object before the response is calculated
# ------------------------------------------------------------------------------------------
# operation alphabet: requests a user makes on the aggregate (none of them changes the system)
HIST_OPS_ALL = ["rho:stored", "rho:thermal", "rho:thermal:300K", "rho:impulsive", "rho:excited",
                "rho:excited:300K", "psi:impulsive", "diagonalize", "hamiltonian", "dipole",
                "pathways1", "pathways3", "abs", "twod"]
HIST_OPS = {"quick": ["rho:stored", "rho:thermal", "rho:impulsive", "rho:excited",
                      "psi:impulsive", "diagonalize", "pathways1", "pathways3", "abs", "twod"],
            "thorough": HIST_OPS_ALL}
HIST_DEPTH = {"quick": 2, "thorough": 3}
HIST_POLS = {"quick": ["XMDZ"], "thorough": ["XMDZ"]}
HIST_SYSTEMS = {"quick": ["d2:J0", "d2:J80"],
                "thorough": ["m0", "d1:J0", "d2:J0", "d2:J80", "t2:J0"]}
# state of the aggregate object at the start of a history: "diagonalized" = build(mult) and
# diagonalize() as everywhere else in this driver; "built" = build(mult) only (the pathway
# generators diagonalise the aggregate themselves).  The reference is always a new aggregate that
# was built and diagonalised by hand.  A deviation that the start state alone produces (empty
# history) has the key `hist/<api>/aggregate-not-diagonalized/<kind>` (an inverted guard made the
# generators skip the diagonalisation; fixed in /repo).
HIST_STARTS = ["diagonalized", "built"]


def hist_apply(op, agg, S, lab, shape):
    """One request on the aggregate object; the result is thrown away."""
    qr = isolation.qr()
    if op == "rho:stored":
        # "the density matrix calculated sometime in the past": not applicable (an
        # AttributeError) to an aggregate that has none yet, i.e. was neither diagonalised nor
        # asked for a density matrix; the request is then left out of the history
        if hasattr(agg, "rho0"):
            agg.get_DensityMatrix()
    elif op == "rho:thermal":
        agg.get_DensityMatrix(condition_type="thermal")
    elif op == "rho:thermal:300K":
        agg.get_DensityMatrix(condition_type="thermal", temperature=300.0)
    elif op == "rho:impulsive":
        agg.get_DensityMatrix(condition_type="impulsive_excitation")
    elif op == "rho:excited":
        agg.get_DensityMatrix(condition_type="thermal_excited_state")
    elif op == "rho:excited:300K":
        agg.get_DensityMatrix(condition_type="thermal_excited_state", temperature=300.0)
    elif op == "psi:impulsive":
        agg.get_StateVector(condition_type="impulsive_excitation")
    elif op == "diagonalize":
        agg.diagonalize()
    elif op == "hamiltonian":
        agg.get_Hamiltonian()
    elif op == "dipole":
        agg.get_TransitionDipoleMoment()
    elif op == "pathways1":             # first-order pathways, as a linear-spectrum script does
        agg.liouville_pathways_1(lab=lab)
    elif op == "pathways3":             # third-order pathways of one type, asked for directly
        agg.liouville_pathways_3T(ptype=("R3g",), eUt=S.eUt.at(0.0), ham=S.eUt.get_Hamiltonian(),
                                  t2=0.0, lab=lab)
    elif op == "abs":                   # a linear absorption spectrum of the same aggregate
        mac = qr.MockAbsSpectrumCalculator(qr.TimeAxis(0.0, N13, DT13), system=agg)
        with qr.energy_units("1/cm"):
            mac.bootstrap(rwa=RWA, shape=shape)
        mac.calculate()
    elif op == "twod":                  # an earlier 2D calculation (other calculator, XXXX, 10 fs)
        new_calculator(shape).calculate_one_system(10.0, agg, S.eUt, make_lab(polvec("XXXX")))
    else:
        raise ValueError(op)


def subsequences(h):
    """All proper subsequences of the tuple h (the empty one first), shortest first, in a fixed
    order."""
    out = []
    for k in range(0, len(h)):
        for idx in itertools.combinations(range(len(h)), k):
            t = tuple(h[i] for i in idx)
            if t not in out:
                out.append(t)
    return out


def eval_hist(case, tier):
    shape, api, first, depth, start = (case["shape"], case["api"], case["first"], case["depth"],
                                       case["start"])
    name = case["sys"]
    t2s = REUSE_T2[api]
    ops = HIST_OPS[tier]
    pols = HIST_POLS[tier]
    labs = {b: make_lab(polvec(b)) for b in pols}
    lwtag = "equal-widths" if case["lw"] != "mixed" else "unequal-widths"
    mult = dict(REUSE_SYSTEMS)[name][3]
    viol, dev = {}, {}
    count = {"calc": 0, "hist": 0}

    def worst(nm, x):
        x = float(x) if numpy.isfinite(x) else 1e300
        dev[nm] = max(dev.get(nm, 0.0), x)

    S = ReuseSystem(case, name)             # spec, evolution superoperator, a reference object
    holder = types.SimpleNamespace(agg=None, eUt=S.eUt)

    def new_aggregate():
        a = build_aggregate(S.spec, mult)
        if start == "diagonalized":
            a.diagonalize()
        return a

    # reference of the differential oracle: a fresh aggregate (built, diagonalised) and a fresh
    # calculator for every single calculation; the molecules of an uncoupled aggregate likewise
    def fresh_of(spec, m, eUt):
        out = {}
        for b in pols:
            for t2 in t2s:
                a = build_aggregate(spec, m)
                a.diagonalize()
                pw = {}
                tw = new_calculator(shape).calculate_one_system(t2, a, eUt, labs[b], pways=pw)
                count["calc"] += 1
                out[(b, t2)] = (read_response(tw), census(pw[str(t2)]))
        return out

    fresh = fresh_of(S.spec, mult, S.eUt)
    parts = None
    if S.parts is not None:
        parts = []
        for pn in S.parts:
            P = ReuseSystem(case, pn)
            parts.append(fresh_of(P.spec, dict(REUSE_SYSTEMS)[pn][3], P.eUt))
    memo = {}

    def evaluate(h):
        """Runs the history h on a new aggregate object, then the response calculation; returns
        {failure kind: (key tail, message)}."""
        if h in memo:
            return memo[h]
        count["hist"] += 1
        agg = new_aggregate()
        for op in h:
            hist_apply(op, agg, S, labs[pols[0]], shape)
        holder.agg = agg
        calc = new_calculator(shape)
        res = reuse_step_pols(calc, holder, labs, pols, api, t2s)
        count["calc"] += len(res)
        fails = {}

        def fail(kind, tail, msg):
            if kind not in fails:
                fails[kind] = (tail, msg)

        for (b, t2), (sig, pws) in res.items():
            where = "polarisations %s, t2=%g, api %s" % (b, t2, api)
            fsig, fcen = fresh[(b, t2)]
            sc = max(float(numpy.max(numpy.abs(sig["REPH"]))),
                     float(numpy.max(numpy.abs(sig["NONR"]))), 1e-300)
            if sig["_reread"] > TOL * sc:
                fail("total/reread-differs", shape, "reading total, REPH, total, NONR again from "
                     "the same response object differs from the first reads by %.3g; %s"
                     % (sig["_reread"] / sc, where))
            d = float(numpy.max(numpy.abs(sig["total"] - (sig["REPH"] + sig["NONR"])))) / sc
            worst("hist-total-sum", d)
            if not d <= TOL:
                fail("total/sum", shape, "total differs from REPH+NONR by %.3g (relative); %s"
                     % (d, where))
            dfr, pfr = sig_dev(sig, fsig)
            worst("hist-fresh", dfr)
            if not dfr <= TOL:
                vanish = all(float(numpy.max(numpy.abs(sig[sg]))) == 0.0 for sg in SIGNALS)
                fail("fresh-differs", "%s%s" % (pfr, "/response-vanishes" if vanish else ""),
                     "%s signal differs by %.3g (relative) from the one a new aggregate object "
                     "gives%s; %s" % (pfr, dfr, " (all signals are identically zero)"
                                      if vanish else "", where))
            if parts is not None:
                tot = {sg: sum(pf[(b, t2)][0][sg] for pf in parts) for sg in SIGNALS}
                dun, pun = sig_dev(sig, tot)
                worst("hist-uncoupled", dun)
                # a result that already differs from the one of a new object is not reported
                # a second time as a failure of additivity
                if not dun <= TOL and dfr <= TOL:
                    fail("uncoupled", "%s/%s/%s" % (shape, lwtag, pun),
                         "%s signal of the uncoupled aggregate differs by %.3g (relative) from "
                         "the sum over its molecules (new objects); %s" % (pun, dun, where))
            if pws is None:
                continue
            cen = census(pws)
            if cen != fcen:
                fail("pathway-census", census_diff(cen, fcen),
                     "generated pathways %s, a new aggregate object gives %s; %s"
                     % (sorted(cen.items()), sorted(fcen.items()), where))
            if pws:
                rel, got, ref = pref_as_made(agg, pws, polvec(b))
                worst("hist-pref", numpy.max(rel))
                if not numpy.max(rel) <= TOL:
                    ip = int(numpy.argmax(rel))
                    fail("pref", "%s/value" % pws[ip].pathway_name,
                         "pathway #%d %s transitions %s: pref=%r but sign*rho0*evf*<SO(3) "
                         "average>=%r (rel.dev %.3g); %s"
                         % (ip, pws[ip].pathway_name, pws[ip].transitions.tolist(),
                            complex(got[ip]), complex(ref[ip]), float(rel[ip]), where))
            led = {"R": 0.0, "NR": 0.0}
            for p in pws:
                led[p.pathway_type] = led[p.pathway_type] + calc.calculate_pathway(p, shape=shape)
            for typ, nm in (("R", "REPH"), ("NR", "NONR")):
                sc1 = max(float(numpy.max(numpy.abs(sig[nm]))), 1e-300)
                d = float(numpy.max(numpy.abs(sig[nm] - led[typ]))) / sc1
                worst("hist-ledger", d)
                if not d <= TOL:
                    fail("total/ledger", "%s/%s" % (nm, shape),
                         "%s part differs from the sum over the generated %s-type pathways by "
                         "%.3g (relative); %s" % (nm, typ, d, where))
        dg = sum(float(numpy.max(numpy.abs(r["total"]))) for r, _ in res.values())
        memo[h] = (fails, dg)
        return memo[h]

    def make_key(kind, hmin, tail):
        if start != "diagonalized" and not hmin:
            return "hist/%s/aggregate-not-diagonalized/%s" % (api, kind)
        tag = "" if start == "diagonalized" else "/aggregate-not-diagonalized"
        return "hist/%s%s/%s/after=%s/%s" % (api, tag, kind, ">".join(hmin) or "nothing", tail)

    digest = 0.0
    nfail = 0
    # all histories of length 0 .. depth that start with the first request of the case (the
    # empty history belongs to every case)
    hists = [()]
    for k in range(1, depth + 1):
        hists += [(first,) + rest for rest in itertools.product(ops, repeat=k - 1)]
    for h in hists:
        fails, dg = evaluate(h)
        digest += dg
        if not fails:
            continue
        nfail += 1
        for kind, (tail, msg) in fails.items():
            # the shortest sub-history that shows the same kind of failure names the key
            hmin, tmin, mmin = h, tail, msg
            for sub in subsequences(h):
                f2 = evaluate(sub)[0]
                if kind in f2:
                    hmin, (tmin, mmin) = sub, f2[kind]
                    break
            key = make_key(kind, hmin, tmin)
            if key not in viol:
                viol[key] = (key, "aggregate object (%s, %s) after the requests %s: %s "
                             "[first seen in this case after %s]"
                             % (name, start, " -> ".join(hmin) or "(none)", mmin,
                                " -> ".join(h) or "(none)"),
                             {"history": list(hmin), "seen_after": list(h), "system": name,
                              "start": start})
    fmax = [float(numpy.max(numpy.abs(fresh[(pols[0], t2)][0]["total"]))) for t2 in t2s]
    nontrivial = bool(min(fmax) > 0.0 and count["hist"] >= depth)
    outcome = ["hist", name, start, shape, api, case["lw"], case["dyn"], case["en"], first, depth,
               round(digest, 6), nfail]
    return {"nontrivial": nontrivial, "outcome": outcome, "violations": list(viol.values()),
            "n": count["calc"] - 1,
            "info": {"dev": dev, "unbuildable": 0, "npw": 0, "histories": count["hist"]}}


def reuse_step_pols(calc, S, labs, pols, api, t2s):
    """reuse_step for a given list of polarisation settings."""
    out = {}
    for b in pols:
        if api == "one":
            for t2 in t2s:
                pw = {}
                tw = calc.calculate_one_system(t2, S.agg, S.eUt, labs[b], pways=pw)
                out[(b, t2)] = (read_response(tw), list(pw[str(t2)]))
        else:
            cont = calc.calculate_all_system(S.agg, S.eUt, labs[b])
            for t2 in t2s:
                tw = cont.get_spectrum(t2)
                pws = list(calc.pathways) if t2 == t2s[-1] else None
                out[(b, t2)] = (read_response(tw), pws)
    return out


# ------------------------------------------------------------------------------------------
# section `pollen`: polarisation vectors of general LENGTH
# ------------------------------------------------------------------------------------------
# Every other section hands unit vectors to LabSetup.  Here each of the four vectors is
# e_k = f_k * (unit vector u_k): the four-tuple (f_1..f_4) runs over ALL four-tuples of the factor
# set of the tier, the directions over ALL four-tuples of a set of NON-AXIS directions
# (D: in the xy plane, G: generic, M: magic angle in the xz plane).  The clause is the one of the
# property (quantifier: all polarisation four-tuples): pref == sign * rho0 * evf * < prod_k
# e_k . R d_k >, the SO(3) quadrature evaluated for the vectors ACTUALLY PASSED; on the real
# pipeline additionally its consequence for the calculated response (with the ledger clause the
# response is sum_pathways pref * line shape, so it is linear in every polarisation vector).
NAX = {"D": list(ISO.POLARISATIONS["D"]), "M": list(ISO.POLARISATIONS["M"]),
       "G": [2.0 / 7.0, -3.0 / 7.0, 6.0 / 7.0]}
POLLEN_DIRS = {"quick": ["D", "G"], "thorough": ["D", "G", "M"]}
POLLEN_FACTORS = {"quick": [1.0, 2.0, 0.5], "thorough": [1.0, 2.0, 0.5, -1.5, 1e-3]}
# real pipeline: base direction four-tuples and systems (size, J); factor set as above, for the
# trimer (hundreds of pathways) the first three factors in both tiers
# side patterns of the stub level (the sign of a diagram does not interact with the lengths: the
# three patterns of the quick tier in both tiers)
POLLEN_SIDES = SIDES["quick"]
POLLEN_SYS_DIRS = {"quick": ["DGMD"], "thorough": ["DGMD", "GGDM"]}
POLLEN_SYS = {"quick": [(2, 80)], "thorough": [(2, 0), (2, 80), (2, -150), (3, 80)]}


def nax_vectors(dirs, ft=(1.0, 1.0, 1.0, 1.0)):
    """The four polarisation vectors f_k * u_k for the direction letters `dirs`."""
    return numpy.array([[float(f) * x for x in NAX[ch]] for ch, f in zip(dirs, ft)], dtype=float)


def _nonunit_summary(failing):
    """Deterministic tag of a set of failing factor four-tuples: the vectors whose length ALONE
    (all others of unit length) breaks the clause."""
    single = sorted(set(k for ft in failing for k in range(4)
                        if ft[k] != 1.0 and all(ft[j] == 1.0 for j in range(4) if j != k)))
    if single:
        return "nonunit=" + "+".join("e%d" % (k + 1) for k in single)
    if any(all(f == 1.0 for f in ft) for ft in failing):
        return "unit-vectors"
    return "nonunit=combinations-only"


def eval_pollen_lab(case, tier):
    """Stub pathways (as section `lab`): all 4^4 dipole four-tuples x the side patterns
    POLLEN_SIDES are built once; every factor four-tuple makes a LabSetup, on which every
    pathway is averaged."""
    from quantarhei.spectroscopy.diagramatics import liouville_pathway
    dirs = case["dirs"]
    facs = POLLEN_FACTORS[tier]
    R, w = ISO.rule()
    dnorm = numpy.sqrt(numpy.sum(DIP4 ** 2, axis=1))
    dsc = numpy.einsum("i,j,k,l->ijkl", dnorm, dnorm, dnorm, dnorm)
    stub = types.SimpleNamespace(HH=numpy.diag(numpy.arange(9, dtype=float)),
                                 DD=numpy.zeros((9, 9, 3)),
                                 rho0=numpy.zeros((9, 9), dtype=complex))
    stub.rho0[0, 0] = STUB_RHO0
    tuples = list(itertools.product(range(4), repeat=4))
    worst, nev = 0.0, 0
    failing, first = [], None
    obs = [0.0, 0.0]
    for sides in POLLEN_SIDES:
        trans = _stub_scheme(sides)
        sref = ISO.diagram_sign(sides)
        lps = []
        for dt in tuples:
            for k in range(4):
                stub.DD[trans[k][0], trans[k][1], :] = DIP4[dt[k]]
            lp = liouville_pathway("R", 0, aggregate=stub, order=3, pname="stub")
            for k in range(4):
                lp.add_transition(trans[k], sides[k])
            lp.set_evolution_factor(STUB_EVF)
            lp.build()
            lps.append(lp)
        for ft in itertools.product(facs, repeat=4):
            ev = nax_vectors(dirs, ft)
            lab = make_lab(ev)
            got = numpy.zeros((4, 4, 4, 4), dtype=complex)
            for dt, lp in zip(tuples, lps):
                lp.orientational_averaging(lab)
                got[dt] = lp.pref
            nev += len(lps)
            P = numpy.einsum("ki,rij,mj->rkm", ev, R, DIP4)          # e_k . R_r d_m
            exp = numpy.einsum("r,ra,rb,rc,rd->abcd", w, P[:, 0], P[:, 1], P[:, 2], P[:, 3],
                               optimize=True) * (sref * STUB_RHO0 * STUB_EVF)
            fprod = float(numpy.prod(numpy.abs(ft)))
            scale = STUB_RHO0 * abs(STUB_EVF) * dsc * fprod
            err = numpy.abs(got - exp) / scale
            err = numpy.where(numpy.isfinite(err), err, numpy.inf)
            worst = max(worst, float(numpy.max(err)))
            fin = numpy.where(numpy.isfinite(got), got, 0.0) / fprod
            obs[0] += float(abs(numpy.sum(fin)))
            obs[1] += float(numpy.sum(numpy.abs(fin)))
            if not numpy.max(err) <= TOL:
                failing.append(tuple(ft))
                if first is None:
                    dt = tuple(int(i) for i in numpy.unravel_index(int(numpy.argmax(err)),
                                                                   err.shape))
                    first = (ft, dt, sides, complex(got[dt]), complex(exp[dt]), float(err[dt]),
                             numpy.asarray(lab.F4eM4).tolist(), ev.tolist())
    viol = []
    if failing:
        ft, dt, sides, g, e, r, f4, ev = first
        viol.append(("pref/pol-length/lab/value/%s" % _nonunit_summary(failing),
                     "polarisation vectors = factors %s x unit directions %s, dipoles %s, sides "
                     "%s: pref=%r, SO(3) average for the vectors passed *sign*rho0*evf=%r (rel.dev "
                     "%.3g); fails for %d of %d factor four-tuples x side patterns"
                     % (list(ft), dirs, list(dt), list(sides), g, e, r, len(failing),
                        len(facs) ** 4 * len(POLLEN_SIDES)),
                     {"factors": list(ft), "directions": dirs, "vectors": ev, "dipoles": list(dt),
                      "sides": list(sides), "F4eM4": f4,
                      "failing_factor_tuples": [list(x) for x in sorted(set(failing))[:20]]}))
    return {"nontrivial": bool(obs[1] > 1e-9), "outcome": ["pollen-lab", dirs, round(obs[0], 9),
                                                          round(obs[1], 9)],
            "violations": viol, "n": nev - 1,
            "info": {"dev": {"pollen-pref-lab": worst}, "unbuildable": 0}}


def eval_pollen_sys(case, tier):
    """Real pipeline: one system, one direction four-tuple, ALL factor four-tuples."""
    spec = spec_of(case)
    n, shape, dirs = spec["n"], spec["shape"], case["dirs"]
    facs = POLLEN_FACTORS[tier] if n == 2 else POLLEN_FACTORS[tier][:3]
    viol, dev = {}, {}
    fails = {}                      # key -> failing factor tuples

    def add(key, ft, what, det=None):
        fails.setdefault(key, []).append(tuple(ft))
        if key not in viol:
            viol[key] = [key, what, dict(det or {}, factors=list(ft), directions=dirs)]

    def worst(name, x):
        x = float(x) if numpy.isfinite(x) else 1e300
        dev[name] = max(dev.get(name, 0.0), x)

    bench = Bench(spec)
    agg = bench.system()
    unit = (1.0, 1.0, 1.0, 1.0)
    base, pws1 = bench.response(agg, make_lab(nax_vectors(dirs, unit)))
    cen1 = census(pws1)
    digest = []
    for ft in itertools.product(facs, repeat=4):
        ev = nax_vectors(dirs, ft)
        r, p = bench.response(agg, make_lab(ev))
        fprod = float(numpy.prod(ft))
        where = "polarisation vectors = factors %s x unit directions %s" % (list(ft), dirs)
        digest.append(round(float(numpy.max(numpy.abs(r["total"]))) / abs(fprod), 6))
        # ---- pref for the vectors actually passed (prefactors as the pipeline made them)
        if p:
            rel, got, ref = pref_as_made(agg, p, ev)
            worst("pollen-pref", numpy.max(rel))
            if not numpy.max(rel) <= TOL:
                ip = int(numpy.argmax(rel))
                add("pol-length/pref/pathway/%s/value" % p[ip].pathway_name, ft,
                    "pathway #%d %s transitions %s: pref=%r but sign*rho0*evf*<SO(3) average for "
                    "the vectors passed>=%r (rel.dev %.3g); %s"
                    % (ip, p[ip].pathway_name, p[ip].transitions.tolist(), complex(got[ip]),
                       complex(ref[ip]), float(rel[ip]), where))
        # ---- the generated pathways do not depend on the lengths
        cen = census(p)
        if cen != cen1:
            add("pol-length/census/%s" % census_diff(cen, cen1), ft,
                "generated pathways %s, with unit vectors of the same directions %s; %s"
                % (sorted(cen.items()), sorted(cen1.items()), where))
        # ---- the response is linear in each of the four polarisation vectors
        d, parts = sig_dev(r, base, factor=fprod)
        worst("pollen-multilinear", d)
        if not d <= TOL:
            add("pol-length/multilinear/%s" % parts, ft,
                "%s signal differs from (f1 f2 f3 f4 = %g) x the response for the unit vectors "
                "of the same directions by %.3g (relative); %s" % (parts, fprod, d, where))
        # ---- total == REPH + NONR
        sc = max(float(numpy.max(numpy.abs(r["REPH"]))), float(numpy.max(numpy.abs(r["NONR"]))),
                 1e-300)
        d = float(numpy.max(numpy.abs(r["total"] - (r["REPH"] + r["NONR"])))) / sc
        worst("pollen-total-sum", d)
        if not d <= TOL:
            add("pol-length/total/sum/%s" % shape, ft,
                "total differs from REPH+NONR by %.3g (relative); %s" % (d, where))
    out = []
    for key, (k, what, det) in viol.items():
        det["failing_factor_tuples"] = [list(x) for x in fails[key][:20]]
        out.append((k + "/" + _nonunit_summary(fails[key]),
                    what + " [fails for %d of %d factor four-tuples]"
                    % (len(fails[key]), len(facs) ** 4), det))
    nontrivial = bool(len(pws1) > 0 and float(numpy.max(numpy.abs(base["total"]))) > 0.0)
    return {"nontrivial": nontrivial,
            "outcome": ["pollen-sys", n, case["J"], shape, dirs, sorted(cen1.items()),
                        round(float(numpy.max(numpy.abs(base["total"]))), 6),
                        round(float(numpy.sum(digest)), 6)],
            "violations": out, "n": bench.ncalc - 1,
            "info": {"dev": dev, "unbuildable": 0, "npw": len(pws1)}}


def eval_pollen(case, tier):
    return eval_pollen_lab(case, tier) if case["level"] == "lab" else eval_pollen_sys(case, tier)


# ------------------------------------------------------------------------------------------
def eval_case(case):
    tier = case.get("_tier", "quick")
    if case["kind"] == "lab":
        return eval_lab(case, tier)
    if case["kind"] == "reuse":
        return eval_reuse(case, tier)
    if case["kind"] == "wait":
        return eval_wait(case, tier)
    if case["kind"] == "hist":
        return eval_hist(case, tier)
    if case["kind"] == "pollen":
        return eval_pollen(case, tier)
    return eval_sys(case, tier)


def replay(case):
    return eval_case(case)["violations"]


# ------------------------------------------------------------------------------------------
# the grid
# ------------------------------------------------------------------------------------------
def sections(tier):
    quick = tier == "quick"
    sec = {}
    sec["lab"] = product({"kind": ["lab"],
                          "pol": ["".join(t) for t in itertools.product(POLN, repeat=4)]})
    sysc = []
    for n in (2, 3):
        ens = ["hetero"] if quick else ["hetero", "homo"]
        if n == 3:
            ens = ens + ["cyclic"] + ([] if quick else ["cyclic2"])
        lws = ["100", "mixed"] if (quick or n == 3) else ["100", "300", "mixed"]
        t2s = [20.0] if quick else [0.0, 20.0]
        for J in (0, 80, -150):
            topos = ["chain"] if (n == 2 or J == 0) else (["full"] if quick else ["chain", "full"])
            dyns = ["free", "deph"] if J == 0 else ["free", "deph", "relax"]
            if quick and J != 0:
                dyns = ["deph", "relax"]
            sysc += product({"kind": ["sys"], "n": [n], "en": ens, "J": [J], "topo": topos,
                             "lw": lws, "t2": t2s, "shape": ["Gaussian", "Lorentzian"],
                             "dyn": dyns})
    sysc.sort(key=lambda c: (c["n"], abs(c["J"])))
    sec["sys"] = sysc
    # one case = context x first operation; inside: ALL continuations up to the depth of the tier
    sec["reuse"] = product({"kind": ["reuse"], "depth": [REUSE_DEPTH[tier]],
                            "en": ["hetero"],
                            "dyn": ["deph"] if quick else ["deph", "free"],
                            "lw": ["mixed"] if quick else ["mixed", "100"],
                            "shape": ["Gaussian", "Lorentzian"], "api": ["one", "all"],
                            "first": REUSE_NAMES[tier] + [BOOT]})
    # the whole waiting-time axis inside every point
    waitc = []
    for n in (2, 3):
        if quick:
            ens, lws = ["hetero"], ["mixed"]
        else:
            ens = ["hetero", "homo"] if n == 2 else ["hetero", "cyclic"]
            lws = ["100", "mixed"]
        for J in (0, 80, -150):
            if quick and n == 3 and J != 0:
                continue
            topos = ["chain"] if (n == 2 or J == 0) else ["chain", "full"]
            dyns = ["free", "deph"] if J == 0 else (["deph", "relax"] if quick
                                                    else ["free", "deph", "relax"])
            waitc += product({"kind": ["wait"], "n": [n], "en": ens, "J": [J], "topo": topos,
                              "lw": lws, "t2": [0.0], "shape": ["Gaussian", "Lorentzian"],
                              "dyn": dyns})
    waitc.sort(key=lambda c: (c["n"], abs(c["J"])))
    sec["wait"] = waitc
    # one case = context x state of the aggregate object x first request; inside: ALL
    # continuations up to the depth of the tier
    sec["hist"] = product({"kind": ["hist"], "depth": [HIST_DEPTH[tier]], "en": ["hetero"],
                           "dyn": ["deph"], "lw": ["mixed"], "sys": HIST_SYSTEMS[tier],
                           "start": HIST_STARTS,
                           "shape": ["Gaussian"] if quick else ["Gaussian", "Lorentzian"],
                           "api": ["one"] if quick else ["one", "all"],
                           "first": HIST_OPS[tier]})
    # polarisation vectors of general length: one case = one direction four-tuple (stub level)
    # resp. system x line shape x direction four-tuple (real pipeline); inside: ALL factor
    # four-tuples
    pl = product({"kind": ["pollen"], "level": ["lab"],
                  "dirs": ["".join(t) for t in itertools.product(POLLEN_DIRS[tier], repeat=4)]})
    for (n, J) in POLLEN_SYS[tier]:
        pl += product({"kind": ["pollen"], "level": ["sys"], "n": [n], "en": ["hetero"],
                       "J": [J], "topo": ["chain"], "lw": ["mixed"], "t2": [20.0],
                       "shape": ["Gaussian", "Lorentzian"], "dyn": ["deph"],
                       "dirs": POLLEN_SYS_DIRS[tier]})
    sec["pollen"] = pl
    for lst in sec.values():
        for c in lst:
            c["_tier"] = tier
    return sec


def cases(tier):
    out = []
    for lst in sections(tier).values():
        out += lst
    return out


def run(run):
    run.rule = ("six complete products: `lab` = all 5^4 polarisation four-tuples (inside each: all "
                "4^4 dipole four-tuples x all side patterns of the tier); `sys` = size x site "
                "energies x coupling x topology x line-width pattern x waiting time x line shape "
                "x excited-state dynamics (inside each: all 5^4 polarisation four-tuples on every "
                "generated pathway, all rotations of the tier on dipoles and on polarisations for "
                "every base polarisation setting, all scale factors, the separately built "
                "monomers when J=0); `reuse` = line shape x api x line widths x dynamics x first "
                "operation on one bootstrapped calculator (inside each: ALL continuations up to "
                "the history depth over the alphabet {use for system s} + {bootstrap again}, every "
                "use = all base polarisations x waiting times, every result compared with a fresh "
                "calculator and with the reference oracles); dipole-scale dimension: inside "
                "every sys point and every reuse case ALL dipoles of every system x every s of "
                "the tier, with the cross-scale oracles s^4 / pathway census and the reference "
                "oracles on the scaled systems (lab: thorough only); non-trivial = lab: some average of the point exceeds 1e-9 in magnitude; sys: pathways of both "
                "excited-state-absorption types were generated and the total signal is non-zero; "
                "reuse: some history of the case uses the calculator for a system with two-exciton "
                "band right after one without (or the reverse) and all fresh signals are non-zero")
    run.assumptions = [
        "reference: mc/refmodels/iso_average.py, 5x3x5 = 75-rotation product quadrature over the "
        "Euler angles (periodic trapezoid x Gauss-Legendre in cos beta), exact for the degree-4 "
        "integrand; it is checked at start against a 9x6x8 rule and textbook moments",
        "the evolution factor and the initial population that multiply the orientational average "
        "in `pref` are taken from the pathway / aggregate as they are (the property is about the "
        "orientational factor); the sign is recomputed as (-1)^(interactions from the right)",
        "transition dipoles of the exciton states are read from the diagonalised aggregate for the "
        "transitions listed by the pathway (C03 owns the dipole operator itself)",
        "only MockTwoDResponseCalculator (effective line shapes) is runnable offline; "
        "TwoDResponseCalculator needs the compiled `aceto` extension and is outside this driver",
        "waiting-time dynamics: Lindblad form on the one-exciton block (zero rates = free; site "
        "projectors = pure dephasing; exciton projectors k+1 -> k = relaxation, only for J != 0); "
        "for J = 0 the monomers get the same site dephasing, so additivity is exact",
        "the Lorentzian dephasing rate of a molecule is a plain rate (the library stores it "
        "unconverted); it is set to the line width in internal units",
        "site energies are distinct or the Hamiltonian is diagonal, so eigenvectors are unique up "
        "to sign in both diagonalisations the pipeline performs",
    ]
    run.assumptions.append(
        "reuse histories: the same aggregate / evolution-superoperator objects of a system are "
        "used by the shared and by the fresh calculators; re-bootstrapping uses the arguments of "
        "the first bootstrap; a calculator is not shared between line shapes or time axes")
    run.assumptions.append(
        "dipole-scale dimension: the factor multiplies the molecular transition dipoles before "
        "the aggregate is built; within one reuse history all systems carry the same factor; "
        "line widths, energies, couplings and dynamics are not scaled")
    run.rule += ("; `wait` = size x site energies x coupling x topology x line widths x line shape "
                 "x dynamics (inside each: ALL waiting times of an axis longer than the longest "
                 "one-exciton coherence period x every base polarisation setting, with the "
                 "additivity, census, pref and total oracles at every waiting time; non-trivial = a "
                 "coherence element of the evolution superoperator visits all four quadrants of "
                 "the complex plane along the axis and the signal is non-zero); `hist` = system x "
                 "start state (built and diagonalised / only built) x line shape x api x first "
                 "request on a new aggregate object (inside each: the empty history and ALL "
                 "request sequences up to the history depth, then the response calculation, "
                 "compared with a new aggregate object and with the reference oracles)")
    run.assumptions.append(
        "wait: the census reference counts an evolution-superoperator element as present if its "
        "magnitude is >= 1e-4 and as absent if <= 1e-12 (the library screens at 1e-6); a waiting "
        "time with an element in between is not given a census verdict (counted in the notes)")
    run.rule += ("; `pollen` = polarisation vectors f_k x unit direction: stub level = ALL direction "
                 "four-tuples of the non-axis alphabet (inside each: ALL factor four-tuples x all "
                 "4^4 dipole four-tuples x side patterns), pipeline level = system x line shape x "
                 "direction four-tuple (inside each: ALL factor four-tuples); oracle = pref with "
                 "the SO(3) average for the vectors actually passed, census, multilinearity of "
                 "the response, total")
    run.assumptions.append(
        "pollen: a polarisation vector of length f stands for a field amplitude f; the prefactor "
        "is the average of the product of the four field-dipole projections for the vectors as "
        "passed (property text), so it and the response scale with f1 f2 f3 f4; a zero vector "
        "is not in the factor set")
    run.assumptions.append(
        "hist: the requests are made outside any basis / units context; a history starts from "
        "an aggregate that was built and diagonalised (the state every other section of this "
        "driver and every example script uses) or only built; the reference object is always "
        "built and diagonalised by hand; the requests' own results are not checked here")
    rots = rotations(run.tier)
    run.bounds = {"wait: t2 axes (start, points, step)": {str(k): list(v) for k, v in
                                                          WAIT_AXIS[run.tier].items()},
                  "hist: requests": HIST_OPS[run.tier], "hist: depth": HIST_DEPTH[run.tier],
                  "hist: systems": HIST_SYSTEMS[run.tier],
                  "hist: polarisations": HIST_POLS[run.tier],
                  "hist: start states": HIST_STARTS,
                  "pollen: factors per polarisation vector": POLLEN_FACTORS[run.tier],
                  "pollen: non-axis directions": POLLEN_DIRS[run.tier],
                  "pollen: pipeline systems (n, J) / directions": [list(map(list, POLLEN_SYS[run.tier])),
                                                                   POLLEN_SYS_DIRS[run.tier]],
                  "dipole scales (sys, reuse)": DIPSCALES[run.tier],
                  "dipole scales (lab)": LAB_SCALES[run.tier],
                  "rotations on scaled systems": len(ROTS_SCALED[run.tier]),
                  "reuse: history depth": REUSE_DEPTH[run.tier],
                  "reuse: history depth with scaled dipoles": REUSE_DEPTH_SCALED[run.tier],
                  "reuse: operations": REUSE_NAMES[run.tier] + [BOOT],
                  "reuse: polarisations": REUSE_POLS, "reuse: waiting times": REUSE_T2,
                  "polarisation alphabet": POLN, "dipole alphabet (lab)": ISO.DIPOLES4,
                  "side patterns (lab)": len(SIDES[run.tier]),
                  "sizes": [2, 3], "J": [0, 80, -150], "rotations": len(rots),
                  "base polarisations": POLBASES[run.tier], "scales": SCALES[run.tier],
                  "t1/t3 axes": [N13, DT13], "t2 axis": list(T2AXIS), "tolerance R": TOL}
    infos = []
    for name, cs in sections(run.tier).items():
        infos += run_grid(run, rotate(cs, run.seed), eval_case, section=name)
    devs = {}
    npw = 0
    namb = 0
    for i in infos:
        for k, v in i["dev"].items():
            devs[k] = max(devs.get(k, 0.0), v)
        npw = max(npw, i.get("npw", 0))
        namb += i.get("census_ambiguous", 0)
    from mc.refmodels import pathway_census
    run.note(worst_deviation=devs, max_pathways_in_a_case=npw,
             quadrature_selfcheck=ISO.selfcheck(), census_selfcheck=pathway_census.selfcheck(),
             wait_points_without_census_verdict=namb)
