"""C14 Initial and thermal states are valid Boltzmann density matrices.

E-grid.  Section "aggregate": full product
    system x ground-state energy of molecule 0 (E0) x ground-state offset of every molecule
    (e0) x bath x temperature x condition x relaxation_hamiltonian in {not given, the
    aggregate's own H, another operator commuting with H, another operator NOT commuting
    with H} x (temperature by argument / from the bath)
(quick tier: E0 and e0 not both non-zero -- either displaces the whole aggregate Hamiltonian
by a constant, E0 resp. N*e0, the combinations only add further values of that constant;
the two "another operator" kinds and the two multi-scale systems as complete sub-products at
E0 = e0 = 0 without bath, temperature by argument; thorough: "another operator" with E0 in
{0, 1000}, e0 = 0, temperature by argument, the multi-scale systems with e0 = 0; histories
with "another operator": temperature by argument, with bath, at 0 and 77 K)
The systems include MULTI-SCALE spectra (a 1 1/cm vibrational mode resp. two sites 1 1/cm
apart next to gaps of 100-10000 1/cm): temperatures at which kT is far below the total
spread of the levels and yet several levels carry population.
and inside every point the state is requested in every request context: outside any basis
context, inside eigenbasis_of(H), inside the eigenbasis of another operator X, nested
(X then H, H then X), and the same three X-containing contexts with a COMPLEX Hermitian
X (complex transformation matrices: the representation of a real state has complex
coherences there).
Section "aggregate_rdm": Aggregate.get_thermal_ReducedDensityMatrix (the OpenSystem
    version applied to an aggregate, whose Hamiltonian keeps the sum of the molecular
    ground-state energies) over system x e0 x bath x temperature, same request contexts.
Section "molecule": Molecule.get_thermal_ReducedDensityMatrix over
    molecule x ground-state energy x temperature, same request contexts.
Sections "aggregate_history" / "aggregate_rdm_history": OBJECT HISTORIES.  The aggregate is
    not fresh: a sequence of operations was performed on the SAME object after build() and
    before the request.  Alphabet HIST_OPS of prior operations: diag (Aggregate.diagonalize),
    dm_thermal / dm_tes_weak / dm_tes_strong / dm_impulsive (an earlier get_DensityMatrix of
    every condition type, at ANOTHER temperature), rdm (get_thermal_ReducedDensityMatrix),
    abs (linear absorption spectrum: AbsSpectrumCalculator bootstrap + calculate),
    rt_redfield / rt_foerster / rt_combined (get_RelaxationTensor: standard Redfield, standard
    Foerster, combined Redfield-Foerster with a coupling cutoff), rebuild (Aggregate.rebuild).
    Full product system x bath x temperature x temperature source x condition type
    (get_DensityMatrix; resp. get_thermal_ReducedDensityMatrix) x relaxation_hamiltonian x
    ALL histories up to the tier's length (quick: every single operation; thorough: every
    single operation and every ordered pair, repetitions included) x every request context;
    operations the library does not support for a system (no bath, vibrational modes,
    two-exciton band) are left out of that system's alphabet.  Checked: every oracle below
    (the reference takes the Hamiltonian read right after build(), BEFORE the history), and
 history    |rho_after_history - rho_fresh| <= 1e-10 + expm1(128*eps*max|H|/kT): the state
            handed out equals the one an identical, never touched aggregate hands out for the
            same request in the same context (not at T = 0 with a degenerate lowest level;
            impulsive_excitation, whose state is built from |d_ab| in the basis of the request
            and therefore depends on the arbitrary signs of that basis' vectors, only for
            requests made outside or in the eigenbasis of X, where both objects get
            bit-identical bases; in an eigenbasis of H the Hamiltonian of the used object
            carries the rounding noise of earlier context round trips).

Every returned matrix is read back at depth 0 (site basis), so what is compared is the
physical operator.  Oracles (reference model mc/refmodels/boltzmann.py, log space):

 valid      finite, |rho-rho^+| <= 1e-10*scale, eigenvalues >= -1e-12*scale      (all)
 trace      |tr rho - 1| <= 1e-10                                               (thermal ones)
 structure  diagonal (<= 1e-10) in the defining basis, nothing outside the band (thermal ones)
 ratio      populations in the defining basis = Boltzmann populations of the diagonal
            energies there, reference computed in log space (cannot underflow):
            |p - p_ref| <= 1e-10 + p_ref*expm1(1e-9 + 1e-6*(x_a+<x>) + 128*eps*max|H|/kT)
            (x = (E-Emin)/kT; the 1e-6 term is the admitted relative uncertainty of k_B,
            the library hard-codes a CODATA-2010 value 5.8e-8 away from scipy's; the
            absolute 1e-10 is class R for numbers of scale 1: a state stored in a basis
            other than its defining one carries ~1e-16 absolute rounding noise; the last
            term is the computed conditioning of populations w.r.t. energies that went
            through a basis transformation, ~1e-10 at 10 K, smaller above);
            T = 0: everything on the lowest level (skipped -> support check when the
            lowest level is degenerate, where the statement fixes no split)
            requests made in a complex basis (contexts ...Xc...): a coherence between two
            DEGENERATE levels of the defining basis is allowed 1e-10 + expm1(128*eps*max|H|/kT)
            (the basis inside a degenerate level is arbitrary and the populations of its
            members differ by the conditioning term; observed 4e-13/T[K] for two degenerate
            uncoupled sites, 4e-10 at 1 mK); all other coherences and all real contexts
            keep 1e-10
 same state for thermal_excited_state weak/strong, the molecular state and the aggregate's
            thermal reduced density matrix the reference is
            the same operator for all request contexts, and additionally
            |rho_ctx - rho_out| <= 1e-10 + expm1(128*eps*max|H|/kT) is checked directly
            (class R plus the same conditioning term); not at T = 0 with a degenerate lowest
            level, where the state is not unique.

Defining basis: weak coupling -> eigenbasis of H (band = states >= Nb[0]); strong coupling
-> site basis with site reorganisation energies subtracted (not subtracted when a
relaxation_hamiltonian is supplied, as documented).  With a relaxation_hamiltonian R
(documented: "Hamiltonian according to which we form thermal equilibrium") the energies AND,
for weak coupling, the defining basis are those of R: weak -> eigenbasis of R, populations
Boltzmann in R's eigenvalues; strong -> site basis, Boltzmann in R's site diagonal.  R is a
Hamiltonian object created outside all contexts from a site-basis matrix; molecule and aggregate thermal reduced
density matrix -> eigenbasis of the respective H (all bands, energies as they stand in H: a
molecular H starts at 0, an aggregate's at the sum of the molecular ground-state energies).
Plain `thermal`: the library defines it on the diagonal of H in the basis current at the
request; the statement does not fix that, so the check accepts either this reading or the
true canonical state exp(-H/kT)/Z, and does NOT demand inside == outside for it.
`impulsive_excitation`: only the validity clause (that is all the statement says).
"""
import numpy

from mc import isolation
from mc.explore import run_grid, product
from mc.refmodels import boltzmann as BZ

LEVEL = "model_checking"

TOL_R = 1e-10          # class R
TOL_PSD = 1e-12
TOL_SIG = 1e-4         # recognising a *signature* of a known wrong state (a label, not an oracle)

# ----------------------------------------------------------------------------
# alphabets
# ----------------------------------------------------------------------------
T_DESIGN = [0, 1e-3, 0.5, 1, 2, 5, 10, 20, 23, 30, 77, 150, 300, 1e3, 1e4]
T_EXTRA = [0.1, 3, 15, 18, 19, 21, 25, 40, 50, 100, 200, 500, 3e3, 1e5]

_M2 = {"omega": 200.0, "n0": 2, "n1": 2, "hr": 0.3}
_M3 = {"omega": 150.0, "n0": 3, "n1": 3, "hr": 0.5}
_MSOFT = {"omega": 1.0, "n0": 3, "n1": 2, "hr": 0.3}      # quantum ~ kT at 1-2 K

SYSTEMS = {
    # name: (site energies 1/cm, J spec, modes per site, mult)
    "mono": ([10000.0], None, None, 1),
    "dim_g100_J0": ([10000.0, 10100.0], 0.0, None, 1),
    "dim_g100_J100": ([10000.0, 10100.0], 100.0, None, 1),
    "dim_desc_J0": ([10100.0, 10000.0], 0.0, None, 1),
    "dim_g1000_J100": ([10000.0, 11000.0], 100.0, None, 1),
    "dim_mode2": ([10000.0, 10300.0], 100.0, [[_M2], []], 1),
    "trimer_chain": ([10000.0, 10200.0, 10500.0], 100.0, None, 1),
    "dim_g1_J05": ([10000.0, 10001.0], 0.5, None, 1),     # gap ~ kT at 1-2 K
    # MULTI-SCALE spectra: level spacings ~ kT at 1-2 K next to gaps 100-10000 times larger
    # (kT far below the total spread of the levels, yet several levels populated)
    "dim_softmode": ([10000.0, 10300.0], 100.0, [[_MSOFT], []], 1),
    "trimer_neardeg": ([10000.0, 10001.0, 10400.0], [0.5, 0.0, 30.0], None, 1),
    # thorough only
    "dim_desc_J100": ([10100.0, 10000.0], 100.0, None, 1),
    "dim_degen_J100": ([10000.0, 10000.0], 100.0, None, 1),
    "dim_degen_J0": ([10000.0, 10000.0], 0.0, None, 1),
    "dim_g100_Jneg": ([10000.0, 10100.0], -250.0, None, 1),
    "dim_lowE": ([1000.0, 1100.0], 50.0, None, 1),
    "dim_highE": ([25000.0, 25100.0], 100.0, None, 1),
    "dim_mode3": ([10000.0, 10300.0], 100.0, [[_M3], [_M2]], 1),
    "mono_mode3": ([10000.0], None, [[_M3]], 1),
    "trimer_full": ([10500.0, 10000.0, 10200.0], [100.0, -50.0, 30.0], None, 1),
    "tetramer_chain": ([10000.0, 10150.0, 10050.0, 10400.0], 80.0, None, 1),
    "dim_g100_J100_m2": ([10000.0, 10100.0], 100.0, None, 2),
    "trimer_chain_m2": ([10000.0, 10200.0, 10500.0], 100.0, None, 2),
}
SYS_QUICK = ["mono", "dim_g100_J0", "dim_g100_J100", "dim_desc_J0", "dim_g1000_J100",
             "dim_mode2", "trimer_chain", "dim_g1_J05", "dim_softmode", "trimer_neardeg"]
SYS_MULTISCALE = ("dim_softmode", "trimer_neardeg")
SYS_THOROUGH = list(SYSTEMS)

MOLECULES = {
    # name: (electronic energies above E0, adiabatic couplings [(i,j,c)], modes [(omega,[nmax per state],[hr per state])])
    "two_level": ([0.0, 10000.0], [], []),
    "two_level_mode2": ([0.0, 10000.0], [], [(200.0, [2, 2], [0.0, 0.3])]),
    "two_level_mode3": ([0.0, 10000.0], [], [(150.0, [3, 2], [0.0, 0.5])]),
    "three_level_adiab": ([0.0, 10000.0, 10200.0], [(1, 2, 150.0)], []),
    "soft_mode": ([0.0, 10000.0], [], [(1.0, [3, 2], [0.0, 0.3])]),   # quantum ~ kT at 1-2 K
    # thorough only
    "three_level_adiab_mode": ([0.0, 10000.0, 10200.0], [(1, 2, 150.0)],
                               [(180.0, [2, 2, 2], [0.0, 0.2, 0.4])]),
    "low_gap": ([0.0, 300.0], [], []),
    "two_modes": ([0.0, 12000.0], [], [(200.0, [2, 2], [0.0, 0.3]), (330.0, [2, 2], [0.0, 0.1])]),
}
MOL_QUICK = ["two_level", "two_level_mode2", "two_level_mode3", "three_level_adiab",
             "soft_mode"]
MOL_THOROUGH = list(MOLECULES)

BATHS = {"none": None, "same": (30.0, 0.0), "diff": (30.0, 50.0)}   # reorg_i = a + b*i  (1/cm)
CONDS = ["thermal", "tes_weak", "tes_strong", "impulsive"]
# inXH / inHX: nested, non-commuting contexts; ...Xc...: X complex Hermitian (complex basis)
CTXS = ["out", "inH", "inX", "inXH", "inHX", "inXc", "inXcH", "inHXc"]
E0_ALL = [0.0, 150.0, -300.0]     # ground-state energy offset given to EVERY molecule (1/cm)
# relaxation_hamiltonian of thermal_excited_state ("Hamiltonian according to which we form
# thermal equilibrium"): False = not given, True = the aggregate's own Hamiltonian object,
# "commuting" = ANOTHER operator with the eigenvectors of H but other level energies (band
# reflected and compressed), "noncommuting" = another operator with other eigenvectors (other
# site energies and couplings inside the excited band); see _relham_matrix
RELHAM = [False, True, "commuting", "noncommuting"]
RELHAM_OTHER = ("commuting", "noncommuting")


# prior operations on the same aggregate object (section *_history), see _do_op
HIST_OPS = ["diag", "dm_thermal", "dm_tes_weak", "dm_tes_strong", "dm_impulsive", "rdm", "abs",
            "rt_redfield", "rt_foerster", "rt_combined", "rebuild"]
HIST_SYS_QUICK = ["dim_g100_J100", "trimer_chain", "dim_mode2"]
HIST_SYS_THOROUGH = HIST_SYS_QUICK + ["trimer_full", "dim_g100_J100_m2"]
RT_CUTOFF = 75.0       # 1/cm, coupling cutoff of the combined Redfield-Foerster tensor


def _op_supported(op, sysname, bath):
    """Operations the library supports for the system (observed on the unchanged tree: tensors
    and spectra need a bath; Foerster-type tensors and the strong-coupling equilibrium a purely
    electronic one-exciton aggregate; thermal_excited_state one band)."""
    en, J, modes, mult = SYSTEMS[sysname]
    has_bath = BATHS[bath] is not None
    if op in ("abs", "rt_redfield"):
        return has_bath
    if op in ("rt_foerster", "rt_combined", "dm_tes_strong"):
        return has_bath and not modes and mult == 1
    if op == "dm_tes_weak":
        return mult == 1
    return True


def _histories(depth):
    h = [[a] for a in HIST_OPS]
    if depth >= 2:
        h += [[a, b] for a in HIST_OPS for b in HIST_OPS]
    return h


def _constraint_hist(c):
    # another operator as relaxation Hamiltonian: temperature by argument, with the bath, at 0
    # and 77 K (quick: 77 K), all histories
    if c.get("relham") in RELHAM_OTHER and (c["tsrc"] != "arg" or c["bath"] != "diff"
                                            or c["T"] not in (0, 77)):
        return False
    return all(_op_supported(op, c["sys"], c["bath"]) for op in c["hist"]) and \
        (_constraint(c) if "cond" in c else _constraint_rdm(c))


def _constraint(c):
    if c["tsrc"] == "bath" and (c["bath"] == "none" or c["T"] == 0):
        return False            # a bath at T = 0 cannot be constructed (division by zero)
    if c["relham"] and c["cond"] not in ("tes_weak", "tes_strong"):
        return False
    if SYSTEMS[c["sys"]][3] != 1 and c["cond"] in ("tes_weak", "tes_strong"):
        return False            # excited-state equilibrium is documented for one band only
    return True


def _constraint_quick(c):
    # quick tier: E0 (molecule 0) and e0 (every molecule) both displace the whole aggregate
    # Hamiltonian by a constant (E0 resp. N*e0); their combinations (thorough tier) only add
    # further values of that constant.  A relaxation Hamiltonian that is another operator
    # than H: complete product system x limit x temperature x request context at
    # E0 = e0 = 0 with the temperature passed by argument and no bath (which then enters
    # nowhere: no reorganisation energies are subtracted when the option is used); thorough:
    # E0 in {0, 1000}, all baths
    if c["relham"] in RELHAM_OTHER and (c["E0"] != 0 or c["e0"] != 0 or c["tsrc"] != "arg"
                                        or c["bath"] != "none"):
        return False
    # the multi-scale systems: complete product condition x relaxation_hamiltonian x
    # temperature x request context at E0 = e0 = 0, no bath, temperature by argument
    # (thorough: the full product)
    if c["sys"] in SYS_MULTISCALE and (c["E0"] != 0 or c["e0"] != 0 or c["tsrc"] != "arg"
                                       or c["bath"] != "none"):
        return False
    return _constraint(c) and not (c["E0"] != 0 and c["e0"] != 0)


def _constraint_thorough(c):
    # another operator as relaxation Hamiltonian: ground-state energy of molecule 0 in {0, 1000},
    # not combined with the offset of every molecule (both are constant displacements of both
    # Hamiltonians), temperature by argument (the source of the number does not meet the option);
    # all systems, baths, temperatures.  The multi-scale systems: not combined with e0.
    if c["relham"] in RELHAM_OTHER and (c["e0"] != 0 or c["E0"] not in (0.0, 1000.0)
                                        or c["tsrc"] != "arg"):
        return False
    if c["sys"] in SYS_MULTISCALE and c["e0"] != 0:
        return False
    return _constraint(c)


def _constraint_rdm(c):
    # the temperature of get_thermal_ReducedDensityMatrix is the one of the bath; without a
    # bath it is 0 K, and a bath at exactly 0 K cannot be constructed
    return (c["bath"] == "none") == (c["T"] == 0)


def _constraint_rdm_quick(c):
    # quick tier: the multi-scale systems without the offset of every molecule
    return _constraint_rdm(c) and not (c["sys"] in SYS_MULTISCALE and c["e0"] != 0)


def cases(tier):
    if tier == "quick":
        dom = {"sys": SYS_QUICK, "E0": [0.0, 1000.0], "e0": E0_ALL, "bath": ["none", "diff"],
               "cond": CONDS, "relham": RELHAM, "tsrc": ["arg", "bath"],
               "T": T_DESIGN}
        rdom = {"sys": SYS_QUICK + ["dim_lowE"], "e0": E0_ALL, "bath": ["none", "diff"],
                "T": T_DESIGN}
        mdom = {"mol": MOL_QUICK, "E0": [0.0, 1000.0] + E0_ALL[1:], "T": T_DESIGN}
        hdom = {"sys": HIST_SYS_QUICK, "E0": [0.0], "e0": [0.0], "bath": ["diff"],
                "cond": CONDS, "relham": RELHAM, "tsrc": ["arg"], "T": [77],
                "hist": _histories(1)}
        hrdom = {"sys": HIST_SYS_QUICK, "e0": [0.0], "bath": ["diff"], "T": [77],
                 "hist": _histories(1)}
    else:
        dom = {"sys": SYS_THOROUGH, "E0": [0.0, 1000.0, -1000.0, 20000.0], "e0": E0_ALL,
               "bath": ["none", "same", "diff"],
               "cond": CONDS, "relham": RELHAM, "tsrc": ["arg", "bath"],
               "T": sorted(T_DESIGN + T_EXTRA)}
        rdom = {"sys": SYS_THOROUGH, "e0": E0_ALL, "bath": ["none", "same", "diff"],
                "T": sorted(T_DESIGN + T_EXTRA)}
        mdom = {"mol": MOL_THOROUGH, "E0": [0.0, 1000.0, -1000.0, 20000.0] + E0_ALL[1:],
                "T": sorted(T_DESIGN + T_EXTRA)}
        hdom = {"sys": HIST_SYS_THOROUGH, "E0": [0.0], "e0": [0.0], "bath": ["none", "diff"],
                "cond": CONDS, "relham": RELHAM, "tsrc": ["arg", "bath"],
                "T": [0, 2, 77, 300], "hist": _histories(2)}
        hrdom = {"sys": HIST_SYS_THOROUGH, "e0": [0.0], "bath": ["none", "diff"],
                 "T": [0, 77, 300], "hist": _histories(2)}
    agg = product(dom, _constraint_quick if tier == "quick" else _constraint_thorough)
    for c in agg:
        c["section"] = "aggregate"
    rdm = product(rdom, _constraint_rdm_quick if tier == "quick" else _constraint_rdm)
    for c in rdm:
        c["section"] = "aggregate_rdm"
        c["tsrc"] = "bath"
    mol = product(mdom)
    for c in mol:
        c["section"] = "molecule"
    hag = product(hdom, _constraint_hist)
    for c in hag:
        c["section"] = "aggregate_history"
    hrd = product(hrdom, _constraint_hist)
    for c in hrd:
        c["section"] = "aggregate_rdm_history"
        c["tsrc"] = "bath"
    return agg + rdm + mol + hag + hrd


# ----------------------------------------------------------------------------
# builders (real objects)
# ----------------------------------------------------------------------------
def _reorgs(bath, n):
    if BATHS[bath] is None:
        return None
    a, b = BATHS[bath]
    return [a + b * i for i in range(n)]


def _cf(ta, reorg, T):
    qr = isolation.qr()
    params = dict(ftype="OverdampedBrownian", reorg=float(reorg), cortime=100.0, T=float(T))
    with qr.energy_units("1/cm"):
        return qr.CorrelationFunction(ta, params)


DIP = [[1.0, 0.0, 0.0], [0.3, 0.9, 0.1], [-0.4, 0.2, 0.8], [0.5, -0.7, 0.4]]


def build_aggregate(case):
    qr = isolation.qr()
    en, J, modes, mult = SYSTEMS[case["sys"]]
    n = len(en)
    E0 = float(case.get("E0", 0.0))      # ground-state energy of molecule 0
    e0 = float(case.get("e0", 0.0))      # offset of the ground-state energy of every molecule
    mols = []
    with qr.energy_units("1/cm"):
        for i, e in enumerate(en):
            g = (E0 if i == 0 else 0.0) + e0
            m = qr.Molecule(elenergies=[g, g + float(e)])
            m.set_dipole(0, 1, list(DIP[i % len(DIP)]))
            mols.append(m)
    reorgs = _reorgs(case["bath"], n)
    if reorgs is not None:
        ta = qr.TimeAxis(0.0, 50, 2.0)
        Tb = float(case["T"]) if case["tsrc"] == "bath" else 300.0
        for i, m in enumerate(mols):
            m.set_transition_environment((0, 1), _cf(ta, reorgs[i], Tb))
    if modes:
        with qr.energy_units("1/cm"):
            for i, m in enumerate(mols):
                for md in modes[i]:
                    mod = qr.Mode(frequency=float(md["omega"]))
                    m.add_Mode(mod)
                    mod.set_nmax(0, int(md["n0"]))
                    mod.set_nmax(1, int(md["n1"]))
                    mod.set_HR(1, float(md["hr"]))
    agg = qr.Aggregate(molecules=mols)
    if J is not None:
        with qr.energy_units("1/cm"):
            k = 0
            for i in range(n):
                for j in range(i + 1, n):
                    if isinstance(J, list):
                        v = J[k % len(J)]
                        k += 1
                    else:
                        v = J if j == i + 1 else 0.0
                    if v != 0.0:
                        agg.set_resonance_coupling(i, j, float(v))
    agg.build(mult=mult)
    isolation.reset_units()      # C05 owns the units leak of Aggregate.build
    return agg, reorgs


def build_molecule(case):
    qr = isolation.qr()
    en, adiab, modes = MOLECULES[case["mol"]]
    E0 = float(case["E0"])
    with qr.energy_units("1/cm"):
        m = qr.Molecule(elenergies=[E0 + e for e in en])
        for (i, j, c) in adiab:
            m.set_adiabatic_coupling(i, j, float(c))
        for (om, nmax, hr) in modes:
            mod = qr.Mode(frequency=float(om))
            m.add_Mode(mod)
            for s, nm in enumerate(nmax):
                mod.set_nmax(s, int(nm))
            for s, h in enumerate(hr):
                if s > 0:
                    mod.set_HR(s, float(h))
    T = float(case["T"])
    if T > 0:       # T = 0 is "no environment" (a bath at exactly 0 K is not constructible)
        ta = qr.TimeAxis(0.0, 50, 2.0)
        cf = _cf(ta, 30.0, T)
        for s in range(1, len(en)):
            m.set_transition_environment((0, s), cf)
    return m


def _other_operator(H0, start, cplx=False):
    """Hermitian X = H + W, W a fixed symmetric perturbation inside the band >= start
    (block structure kept, eigenvectors differ from those of H and from the site basis).
    cplx: W additionally gets a fixed imaginary antisymmetric part (never zero on a pair of
    band states), X is complex Hermitian and its eigenvectors are genuinely complex."""
    n = H0.shape[0]
    X = numpy.array(H0, dtype=float)
    w = 60.0 * BZ.CM2INT
    for i in range(start, n):
        for j in range(i, n):
            a, b = i - start, j - start
            v = w * (((3 * a + 7 * b + a * b) % 5) - 2.0) if i != j else w * ((a % 3) - 1.0) * 4.0
            X[i, j] += v
            if i != j:
                X[j, i] += v
    if not cplx:
        return X
    X = X.astype(complex)
    for i in range(start, n):
        for j in range(i + 1, n):
            a, b = i - start, j - start
            u = w * (((5 * a + 3 * b + 2 * a * b) % 7) - 2.5)
            X[i, j] += 1j * u
            X[j, i] -= 1j * u
    return X


def _relham_matrix(H0, start, kind):
    """Matrix (site basis, internal units) of the relaxation Hamiltonian of kind `kind`; None
    when the option is not used, H itself for True.  Ground band and band structure as in H.
    commuting      c - 0.6*H inside the excited band: the eigenvectors of H, the level order
                   reversed and the gaps compressed (other Boltzmann weights, other diagonal
                   in the site basis)
    noncommuting   H + W inside the excited band, W a fixed symmetric matrix (other site
                   energies AND couplings; another pattern than the context operator X)"""
    if not kind:
        return None
    R = numpy.array(H0, dtype=float)
    if kind is True:
        return R
    n = R.shape[0]
    if numpy.max(numpy.abs(R[start:, :start])) > 0 or n - start < 1:
        raise isolation.HarnessError("H couples the ground and the excited band")
    Hb = R[start:, start:].copy()
    if kind == "commuting":
        wb = numpy.linalg.eigvalsh(Hb)
        R[start:, start:] = (wb[0] + 0.6 * wb[-1]) * numpy.eye(n - start) - 0.6 * Hb
    elif kind == "noncommuting":
        w = 45.0 * BZ.CM2INT
        for i in range(start, n):
            for j in range(i, n):
                a, b = i - start, j - start
                if i == j:
                    R[i, i] += w * (((2 * a) % 5) - 2.0) * 3.0
                else:
                    v = w * (((2 * a + 5 * b + 3 * a * b) % 7) - 3.0)
                    R[i, j] += v
                    R[j, i] += v
        # the harness promises a relaxation Hamiltonian that does not commute with H whenever
        # one exists (H not a multiple of unity inside the band)
        Rb = R[start:, start:]
        scalar = numpy.max(numpy.abs(Hb - Hb[0, 0] * numpy.eye(n - start))) <= 1e-12 * abs(Hb[0, 0])
        if n - start >= 2 and not scalar and \
                numpy.max(numpy.abs(Hb @ Rb - Rb @ Hb)) <= 1e-6 * numpy.max(numpy.abs(Hb)) * w:
            raise isolation.HarnessError("'noncommuting' relaxation Hamiltonian commutes with H")
    else:
        raise isolation.HarnessError("unknown relaxation Hamiltonian kind %r" % (kind,))
    return R


def _relham_operator(kind, Hop, Rmat):
    """The object passed as relaxation_hamiltonian: the aggregate's own Hamiltonian (True) or
    a new Hamiltonian created OUTSIDE all basis contexts from the site-basis matrix."""
    if not kind:
        return None
    if kind is True:
        return Hop
    return isolation.qr().Hamiltonian(data=numpy.array(Rmat, dtype=float))


def _relham_tag(case):
    """Condition tag of the violation keys (unchanged for the option not used / = H)."""
    k = case.get("relham")
    return case["cond"] if k in (False, True, None) else "%s[relham=%s]" % (case["cond"], k)


def _check_context_bases(case, start, *bases):
    """The reference needs the ground band to stay the lowest block in every eigenbasis and
    the spectra of the context operators to be non-degenerate (bases fixed up to phases)."""
    for (wv, M) in bases:
        if numpy.max(numpy.abs(M[start:, :start])) > 1e-12 or \
           numpy.max(numpy.abs(M[:start, start:])) > 1e-12:
            raise isolation.HarnessError("band structure lost in eigenbasis: %r" % (case,))


def _check_nondegenerate(case, wv):
    d = numpy.diff(numpy.sort(numpy.real(wv)))
    if d.size and numpy.min(d) <= 1e-9 * max(1.0, float(numpy.max(numpy.abs(wv)))):
        raise isolation.HarnessError("context operator X has a degenerate spectrum: %r" % (case,))


class _Skip(Exception):
    pass


def _prior_temperature(T):
    """Temperature of the earlier requests of a history: never the one of the checked request."""
    return 300.0 if float(T) != 300.0 else 77.0


def _do_op(agg, op, case):
    """One prior operation of a history, performed outside all contexts on the aggregate."""
    qr = isolation.qr()
    en, J, modes, mult = SYSTEMS[case["sys"]]
    Tp = _prior_temperature(case["T"])
    if op == "diag":
        agg.diagonalize()
    elif op == "dm_thermal":
        agg.get_DensityMatrix(condition_type="thermal", temperature=Tp)
    elif op == "dm_tes_weak":
        agg.get_DensityMatrix(condition_type="thermal_excited_state",
                              relaxation_theory_limit="weak_coupling", temperature=Tp)
    elif op == "dm_tes_strong":
        agg.get_DensityMatrix(condition_type="thermal_excited_state",
                              relaxation_theory_limit="strong_coupling", temperature=Tp)
    elif op == "dm_impulsive":
        agg.get_DensityMatrix(condition_type="impulsive_excitation", temperature=Tp)
    elif op == "rdm":
        agg.get_thermal_ReducedDensityMatrix()
    elif op == "abs":
        calc = qr.AbsSpectrumCalculator(qr.TimeAxis(0.0, 50, 2.0), system=agg)
        with qr.energy_units("1/cm"):
            calc.bootstrap(rwa=float(min(en)))
        calc.calculate()
    elif op == "rt_redfield":
        agg.get_RelaxationTensor(qr.TimeAxis(0.0, 50, 2.0), relaxation_theory="standard_Redfield")
    elif op == "rt_foerster":
        agg.get_RelaxationTensor(qr.TimeAxis(0.0, 50, 2.0), relaxation_theory="standard_Foerster")
    elif op == "rt_combined":
        agg.get_RelaxationTensor(qr.TimeAxis(0.0, 50, 2.0),
                                 relaxation_theory="combined_RedfieldFoerster",
                                 coupling_cutoff=RT_CUTOFF * BZ.CM2INT)
    elif op == "rebuild":
        agg.rebuild(mult=mult)
    else:
        raise isolation.HarnessError("unknown prior operation %r" % (op,))
    isolation.reset_units()


def _apply_history(agg, case, hist):
    """Perform the history; returns None, or the name of the exception a prior operation raised
    (then nothing is claimed about the object: the case point is trivial)."""
    for op in hist:
        try:
            _do_op(agg, op, case)
        except isolation.HarnessError:
            raise
        except Exception as e:
            isolation.reset_units()
            return "%s:%s" % (op, type(e).__name__)
    return None


def _dm_kwargs(case, Hop):
    cond = case["cond"]
    kw = {}
    if case["tsrc"] == "arg":
        kw["temperature"] = case["T"]
    if cond == "thermal":
        kw["condition_type"] = "thermal"
    elif cond == "impulsive":
        kw["condition_type"] = "impulsive_excitation"
    else:
        kw["condition_type"] = "thermal_excited_state"
        kw["relaxation_theory_limit"] = ("weak_coupling" if cond == "tes_weak"
                                         else "strong_coupling")
        if case["relham"]:
            kw["relaxation_hamiltonian"] = Hop      # (the operator made by _relham_operator)
    return kw


_FRESH = {}      # per worker process: (case without its history, context) -> state


def _fresh_state(case, ctx, method):
    """The state an identical, never touched aggregate hands out for the same request in the
    same context (None if that request raises; the sections without history own that).
    A deterministic function of the case without its history and of the context: computed
    once per worker process for all histories of the same point."""
    key = (method, ctx) + tuple((k, case.get(k)) for k in
                                ("sys", "E0", "e0", "bath", "T", "tsrc", "cond", "relham"))
    if key not in _FRESH:
        _FRESH[key] = _fresh_state_uncached(case, ctx, method)
    return _FRESH[key]


def _fresh_state_uncached(case, ctx, method):
    isolation.reset_manager()
    agg, _ = build_aggregate(case)
    Hop = agg.get_Hamiltonian()
    H0 = numpy.real(numpy.array(Hop.data, dtype=complex))
    H0 = 0.5 * (H0 + H0.T)
    start = int(agg.Nb[0])
    Xmat = _other_operator(H0, start)
    Xcmat = _other_operator(H0, start, cplx=True)
    if method == "dm":
        kw = _dm_kwargs(case, _relham_operator(case["relham"], Hop,
                                               _relham_matrix(H0, start, case["relham"])))
        fn = lambda: agg.get_DensityMatrix(**kw)
    else:
        fn = lambda: agg.get_thermal_ReducedDensityMatrix()
    try:
        return _request(ctx, fn, Hop, Xmat, Xcmat)
    except isolation.HarnessError:
        raise
    except Exception:
        return None


def _check_history(acc, tag, hist, rho, fresh, T, condn, ambiguous):
    if fresh is None or fresh.shape != rho.shape or ambiguous:
        return
    dev = float(numpy.max(numpy.abs(rho - fresh)))
    acc.seen("history_vs_fresh", dev)
    if dev > TOL_R + numpy.expm1(condn):
        acc.add("history/%s/differs-from-fresh-aggregate" % tag,
                "T=%g: after %s on the same aggregate the handed-out state differs from the "
                "one an identical fresh aggregate hands out for the same request by %.3g"
                % (T, " then ".join(hist), dev))


def _request(ctx, fn, Hop, Xmat, Xcmat=None):
    """Call fn() outside / inside eigenbasis_of(H) / inside eigenbasis_of(X) / nested; return
    the returned operator's matrix read at depth 0 (reference = site basis).  The ...Xc...
    contexts are the X-containing ones with the complex Hermitian X."""
    qr = isolation.qr()
    from quantarhei.qm.hilbertspace.operators import SelfAdjointOperator
    if "Xc" in ctx:
        if Xcmat is None:
            raise isolation.HarnessError("complex X missing for context %s" % ctx)
        ctx = ctx.replace("Xc", "X")
        Xmat = Xcmat
    if ctx == "out":
        rho = fn()
    elif ctx == "inH":
        with qr.eigenbasis_of(Hop):
            rho = fn()
    elif ctx == "inX":
        Xop = SelfAdjointOperator(data=Xmat.copy())
        with qr.eigenbasis_of(Xop):
            rho = fn()
    elif ctx == "inXH":
        Xop = SelfAdjointOperator(data=Xmat.copy())
        with qr.eigenbasis_of(Xop):
            with qr.eigenbasis_of(Hop):
                rho = fn()
    elif ctx == "inHX":
        Xop = SelfAdjointOperator(data=Xmat.copy())
        with qr.eigenbasis_of(Hop):
            with qr.eigenbasis_of(Xop):
                rho = fn()
    else:
        raise isolation.HarnessError(ctx)
    return numpy.array(rho.data, dtype=complex)


# ----------------------------------------------------------------------------
# oracles
# ----------------------------------------------------------------------------
class _Acc:
    """Collects violations (first per key) and worst deviations per clause."""

    def __init__(self):
        self.v = []
        self.keys = set()
        self.worst = {}

    def add(self, key, what, det=None):
        if key not in self.keys:
            self.keys.add(key)
            self.v.append((key, what, det))

    def seen(self, clause, x):
        if numpy.isfinite(x):
            self.worst[clause] = max(self.worst.get(clause, 0.0), float(x))


def _check_valid(acc, rho, tag, need_trace):
    v = BZ.validity(rho)
    if not v["finite"]:
        acc.add("finite/%s/non-finite-entries" % tag, "returned matrix has NaN/inf entries")
        return False
    scale = max(v["scale"], 1e-300)
    acc.seen("hermitian", v["herm_dev"] / scale)
    if v["herm_dev"] > TOL_R * scale:
        acc.add("hermitian/%s" % tag, "|rho-rho^+| = %.3g (scale %.3g)" % (v["herm_dev"], scale))
    acc.seen("psd", max(0.0, -v["min_eig"]) / scale)
    if v["min_eig"] < -TOL_PSD * max(scale, 1.0):
        acc.add("psd/%s" % tag, "smallest eigenvalue %.3g" % v["min_eig"])
    if need_trace:
        dev = abs(v["trace"] - 1.0)
        acc.seen("trace", dev)
        if dev > TOL_R:
            acc.add("trace/%s" % tag, "trace = %r" % (v["trace"],))
    return True


def _cond_slack(ctx, condn):
    """Extra allowance for coherences between DEGENERATE levels of the defining basis, used for
    requests made in a complex basis only (the real contexts keep the plain class R bound).
    The populations of two degenerate levels differ by the conditioning term (their energies
    come back from a complex similarity transformation with rounding noise ~eps*max|H|, the
    condition number of populations w.r.t. energies is 1/kT); the defining basis inside a
    degenerate level is arbitrary, so the same difference shows as a coherence between the
    reference's basis vectors of that level.  Same bound as the ratio and same-state clauses."""
    return float(numpy.expm1(condn)) if "Xc" in ctx else 0.0


def _boltzmann_in_basis(rho, H0, B, start, T, subtract=None, cond_slack=0.0):
    """Evaluate the structure and ratio clauses of rho w.r.t. defining basis B.
    Returns dict(ok, structure, ratio_excess, ratio_abs, kind).
    cond_slack: subtracted from |coherence| between degenerate band levels (see _cond_slack)."""
    n = H0.shape[0]
    Bm = numpy.eye(n) if B is None else B
    R = Bm.conj().T @ rho @ Bm
    p = numpy.real(numpy.diag(R)).copy()
    off = R - numpy.diag(numpy.diag(R))
    if cond_slack > 0.0 and n - start > 1:
        eb = numpy.real(numpy.einsum("ia,ij,ja->a", Bm.conj(), H0, Bm))[start:]
        if subtract is not None:
            eb = eb - subtract
        deg = numpy.abs(eb[:, None] - eb[None, :]) <= 1e-9 * max(1.0, float(numpy.max(numpy.abs(eb))))
        blk = off[start:, start:]
        mag = numpy.abs(blk)
        red = numpy.where(deg, numpy.maximum(mag - cond_slack, 0.0), mag)
        off = off.copy()
        off[start:, start:] = numpy.where(mag > 0, blk * (red / numpy.where(mag > 0, mag, 1.0)), 0.0)
    structure = float(numpy.max(numpy.abs(off))) if n > 1 else 0.0
    structure = max(structure, float(numpy.max(numpy.abs(numpy.diag(R).imag))))
    if start > 0:
        structure = max(structure, float(numpy.max(numpy.abs(p[:start]))))
    eps = numpy.real(numpy.einsum("ia,ij,ja->a", Bm.conj(), H0, Bm))[start:]
    if subtract is not None:
        eps = eps - subtract
    res = {"structure": structure, "kind": "ratio", "ratio_abs": 0.0, "ratio_dlog": 0.0,
           "degenerate_T0": False}
    if T == 0 and BZ.lowest_is_degenerate(eps):
        res["degenerate_T0"] = True
        # no split fixed by the statement: all population must sit on the lowest level(s)
        d = eps - numpy.min(eps)
        low = d <= 1e-9 * max(1.0, abs(numpy.min(eps)))
        # any state supported on the lowest (degenerate) level qualifies, also a
        # superposition of the reference's basis vectors there
        idx = start + numpy.nonzero(low)[0]
        off2 = off.copy()
        off2[numpy.ix_(idx, idx)] = 0.0
        structure = float(numpy.max(numpy.abs(off2)))
        structure = max(structure, float(numpy.max(numpy.abs(numpy.diag(R).imag))))
        if start > 0:
            structure = max(structure, float(numpy.max(numpy.abs(p[:start]))))
        res["structure"] = structure
        dev = abs(float(numpy.sum(p[start:][low])) - 1.0)
        res.update(kind="support", ratio_excess=dev / TOL_R, ratio_abs=dev)
    else:
        ok, excess, dlog = BZ.compare_populations(p[start:], eps, T,
                                                  enorm=float(numpy.max(numpy.abs(H0))))
        dabs = float(numpy.max(numpy.abs(p[start:] - BZ.populations(eps, T))))
        res.update(ratio_excess=excess, ratio_abs=dabs, ratio_dlog=dlog)
        if T == 0:
            res["kind"] = "zero-temperature-not-lowest-level"
    res["ok"] = (structure <= TOL_R) and (res["ratio_excess"] <= 1.0)
    return res


def _signature(rho, H0, B, start, T, subtract=None):
    """Is rho = B diag(Boltzmann(diag(B^+ H B)[start:] - subtract)) B^+ (to TOL_SIG)?"""
    ref, _, _ = BZ.band_equilibrium(H0, T, start=start, basis=B, subtract=subtract)
    return float(numpy.max(numpy.abs(rho - ref))) <= TOL_SIG


def _digest(rho):
    if not numpy.all(numpy.isfinite(rho)):
        return "nan"
    d = numpy.real(numpy.diag(rho))
    off = rho - numpy.diag(numpy.diag(rho))
    return [[float("%.5g" % x) for x in d], float("%.4g" % numpy.max(numpy.abs(off)))]


# ----------------------------------------------------------------------------
# ratio clause on WEAKLY populated levels (relative, in the defining basis)
# ----------------------------------------------------------------------------
# The class R clause above admits an absolute 1e-10 on every population (what a state that went
# through basis changes carries), so a level whose Boltzmann population is below that is only
# required to be "small".  The statement demands the RATIO exp(-(E_a-E_b)/kT): here the state is
# read by the library itself in the basis in which it is defined (inside eigenbasis_of(H)) and
# every level whose reference population is representable (x_a = (E_a-E_0)/kT < EIG_XMAX) is
# compared RELATIVELY.  Admitted besides the relative terms of the class R clause: the rounding
# of the round trip eigenbasis -> site basis -> eigenbasis, which reaches level a only from
# levels b whose eigenvectors overlap with it in support,
#     C * eps * sum_b M_ab^2 p_b,   M_ab = sum_i |U_ia||U_ib|,  C = EIG_C * n
# (exactly zero between levels that the diagonalisation does not mix, e.g. vibrational levels of
# the electronic ground state vs. the excited block).  Only requests made outside any context or
# inside eigenbasis_of(H): a request inside another basis X takes the state through a
# transformation that mixes all levels (absolute noise eps * p_0 everywhere, class R).
EIG_RATIO_CTXS = ("out", "inH")
EIG_XMAX = 600.0
EIG_C = 256.0


def _read_in_eigenbasis(op, Hop):
    qr = isolation.qr()
    with qr.eigenbasis_of(Hop):
        return numpy.array(op.data, dtype=complex)


def _check_eigen_ratio(acc, rtag, ctx, op, Hop, H0, U, T):
    """Relative Boltzmann clause on the populations the library reports in eigenbasis_of(H)."""
    if T == 0 or ctx not in EIG_RATIO_CTXS:
        return
    R = _read_in_eigenbasis(op, Hop)
    if R.shape != H0.shape or not numpy.all(numpy.isfinite(R)):
        return                      # reported by the validity clauses
    n = H0.shape[0]
    en = numpy.real(numpy.einsum("ia,ij,ja->a", U.conj(), H0, U))
    # the library sorts its eigenbasis by energy as the reference does; populations are
    # compared level by level after sorting both by energy (degenerate levels carry equal ones)
    order = numpy.argsort(en, kind="stable")
    en = en[order]
    Us = numpy.abs(U[:, order])
    p = numpy.real(numpy.diag(R))
    logp, x = BZ.log_populations(en, T)
    with numpy.errstate(under="ignore"):
        pref = numpy.exp(logp)
    rel = numpy.expm1(1e-9 + BZ.log_slack(logp, x)
                      + BZ.conditioning(float(numpy.max(numpy.abs(H0))), T))
    M = Us.T @ Us
    noise = EIG_C * n * numpy.finfo(float).eps * ((M * M) @ pref)
    allowed = pref * rel + noise
    sel = numpy.nonzero(x < EIG_XMAX)[0]
    worst, wa = 0.0, None
    for a in sel:
        e = abs(p[a] - pref[a]) / allowed[a]
        if e > worst:
            worst, wa = float(e), int(a)
    acc.seen("eigen_ratio_excess", worst)
    if worst > 1.0:
        acc.add("boltzmann/%s/weakly-populated-level-not-in-ratio" % rtag,
                "T=%g (requested %s): level %d, (E-E0)/kT = %.2f, population read in "
                "eigenbasis_of(H) %.6e, Boltzmann %.6e (%.3g x allowed)"
                % (T, ctx, wa, x[wa], p[wa], pref[wa], worst))


UNSUPPORTED = ("strong-coupling equilibrium without relaxation_hamiltonian needs site "
               "reorganisation energies from a bath and a purely electronic aggregate")


def eval_case(case):
    if case.get("section") == "molecule":
        return _eval_molecule(case)
    if case.get("section") in ("aggregate_rdm", "aggregate_rdm_history"):
        return _eval_aggregate_rdm(case)
    return _eval_aggregate(case)


def _eval_aggregate(case):
    acc = _Acc()
    cond, T = case["cond"], float(case["T"])
    en, J, modes, mult = SYSTEMS[case["sys"]]
    outcome = []
    states = {}
    refused = 0
    band_n = None
    ambiguous = False    # T = 0 with a degenerate lowest level: the state is not unique
    hist = list(case.get("hist") or [])
    rtag_ = _relham_tag(case)
    ctag = rtag_ if not hist else "after-%s/%s" % ("+".join(hist), rtag_)
    other = case["relham"] in RELHAM_OTHER
    prior_raised = 0
    for ctx in CTXS:
        fresh = _fresh_state(case, ctx, "dm") if hist else None
        isolation.reset_manager()
        agg, reorgs = build_aggregate(case)
        Hop = agg.get_Hamiltonian()
        H0 = numpy.real(numpy.array(Hop.data, dtype=complex))
        if numpy.max(numpy.abs(H0 - H0.T)) > 0:
            H0 = 0.5 * (H0 + H0.T)
        n = H0.shape[0]
        start = int(agg.Nb[0])
        band_n = n - start
        condn = BZ.conditioning(float(numpy.max(numpy.abs(H0))), T)
        w, U = BZ.eigenbasis(H0)
        Xmat = _other_operator(H0, start)
        wx, V = BZ.eigenbasis(Xmat)
        Xcmat = _other_operator(H0, start, cplx=True)
        wxc, Vc = BZ.eigenbasis(Xcmat)
        _check_context_bases(case, start, (w, U), (wx, V), (wxc, Vc))
        _check_nondegenerate(case, wx)
        _check_nondegenerate(case, wxc)
        # the Hamiltonian "according to which we form thermal equilibrium": H, or the other
        # operator supplied as relaxation_hamiltonian (defining basis: ITS eigenbasis for weak
        # coupling, the site basis with ITS diagonal for strong coupling)
        Rmat = _relham_matrix(H0, start, case["relham"])
        if other:
            Href = Rmat
            wr, Ur = BZ.eigenbasis(Href)
            _check_context_bases(case, start, (wr, Ur))
            condn = BZ.conditioning(max(float(numpy.max(numpy.abs(H0))),
                                        float(numpy.max(numpy.abs(Href)))), T)
        else:
            Href, wr, Ur = H0, w, U
        # basis current at the request (innermost context)
        Breq = {"out": None, "inH": U, "inX": V, "inXH": U, "inHX": V,
                "inXc": Vc, "inXcH": U, "inHXc": Vc}[ctx]
        tag = "%s/req-%s" % (ctag, ctx)

        if hist:
            # the reference above was built from the Hamiltonian BEFORE the history
            err = _apply_history(agg, case, hist)
            if err is not None:
                prior_raised += 1
                outcome.append("prior-raised:" + err)
                continue
            Hop = agg.get_Hamiltonian()      # (rebuild makes a new operator)
        kw = _dm_kwargs(case, _relham_operator(case["relham"], Hop, Rmat))
        unsupported = (cond == "tes_strong" and not case["relham"]
                       and (reorgs is None or bool(modes) or mult != 1))
        try:
            rho = _request(ctx, lambda: agg.get_DensityMatrix(**kw), Hop, Xmat, Xcmat)
        except isolation.HarnessError:
            raise
        except Exception as e:
            if unsupported:
                refused += 1
                outcome.append("refused")
                continue
            cached = getattr(agg, "rho0", None)
            if cached is not None and not numpy.all(numpy.isfinite(numpy.asarray(cached))):
                # the context of the request is irrelevant for this failure: one key per
                # condition (the first failing context is named in the text)
                acc.add("finite/%s/nan-then-raise" % ctag,
                        "T=%g (requested %s): populations are NaN (Boltzmann factors under/"
                        "overflow to 0/0 or inf/inf), DensityMatrix constructor raises: %s"
                        % (T, ctx, str(e)[:80]),
                        {"exception": "%s: %s" % (type(e).__name__, str(e)[:200])})
            else:
                acc.add("handed-out/%s/raises-%s" % (tag, type(e).__name__),
                        "request raised %s: %s" % (type(e).__name__, str(e)[:120]))
            outcome.append("raise")
            continue
        if unsupported:
            outcome.append("unsupported-but-returned")
            continue
        if rho.shape != (n, n):
            acc.add("shape/%s" % tag, "returned shape %r for a %d-state system" % (rho.shape, n))
            continue
        outcome.append(_digest(rho))
        # HISTORY request -> re-issue: get_DensityMatrix() without a condition hands out "the
        # initial condition calculated sometime in the past", i.e. the state just requested.
        # Claimed for requests made outside all contexts only: the cache is a raw array in the
        # basis of the request, so after a request inside a context the re-issue outside is that
        # array read in another basis (observed on the unchanged tree for every condition type;
        # the statement lists the request kinds, not the cache, so this is not claimed).
        try:
            if ctx != "out":
                raise _Skip()
            again = numpy.array(agg.get_DensityMatrix().data, dtype=complex)
            dev = float(numpy.max(numpy.abs(again - rho))) if again.shape == rho.shape else 1.0
            acc.seen("reissue", dev)
            if dev > TOL_R:
                acc.add("reissue/%s/stored-state-differs" % tag,
                        "T=%g: get_DensityMatrix() without a condition, called outside all "
                        "contexts after the request, hands out a state differing from the "
                        "requested one by %.3g" % (T, dev))
        except (isolation.HarnessError):
            raise
        except _Skip:
            pass
        except Exception as e:
            acc.add("reissue/%s/raises-%s" % (tag, type(e).__name__),
                    "re-issue of the stored state raised %s" % str(e)[:100])
        if not _check_valid(acc, rho, tag, need_trace=(cond != "impulsive")):
            continue
        if cond == "impulsive":
            # The impulsive state is built from |d_ab| in the basis of the request, so inside a
            # context it depends on the arbitrary signs of that basis' vectors; an eigenbasis of
            # H after a history (H went through a context and back: rounding noise) may come
            # with other signs than on the fresh object.  Compared only where the basis of the
            # request is bit-identical on both objects: outside, and in the eigenbasis of X.
            if hist and ctx in ("out", "inX", "inXc"):
                _check_history(acc, tag, hist, rho, fresh, T, condn, False)
            continue
        states[ctx] = rho
        if cond == "thermal":
            # reading (a): Boltzmann on the diagonal of H in the basis of the request;
            # reading (b): the canonical state.  Either satisfies the statement.
            slack = _cond_slack(ctx, condn)
            ra = _boltzmann_in_basis(rho, H0, Breq, 0, T, cond_slack=slack)
            rb = ra if ctx in ("inH", "inXH", "inXcH") else \
                _boltzmann_in_basis(rho, H0, U, 0, T, cond_slack=slack)
            best = ra if (ra["ok"] or not rb["ok"]) else rb
            if hist:
                _check_history(acc, tag, hist, rho, fresh, T, condn, best["degenerate_T0"])
            acc.seen("structure", best["structure"])
            acc.seen("ratio_excess", best["ratio_excess"])
            acc.seen("ratio_abs", best["ratio_abs"])
            acc.seen("ratio_dlog_p>1e-6", best["ratio_dlog"])
            if not best["ok"]:
                if best["structure"] > TOL_R:
                    acc.add("boltzmann/%s/not-diagonal-in-defining-basis" % tag,
                            "coherences/out-of-band population %.3g in the basis of the "
                            "request" % best["structure"])
                else:
                    acc.add("boltzmann/%s/%s" % (tag, best["kind"]),
                            "T=%g populations are not Boltzmann on the diagonal energies "
                            "(|dp|=%.3g, %.3g x allowed)" % (T, best["ratio_abs"],
                                                                 best["ratio_excess"]))
            continue
        # thermal_excited_state: defining basis fixed by the request
        if cond == "tes_weak":
            Bdef, sub = Ur, None
        else:
            Bdef = None
            sub = None
            if not case["relham"]:
                sub = numpy.zeros(n - start)
                for i in range(len(en)):
                    sub[i] = reorgs[i] * BZ.CM2INT
        r = _boltzmann_in_basis(rho, Href, Bdef, start, T, subtract=sub,
                                cond_slack=_cond_slack(ctx, condn))
        ambiguous = ambiguous or r["degenerate_T0"]
        if hist:
            _check_history(acc, tag, hist, rho, fresh, T, condn, r["degenerate_T0"])
        if r["ok"]:
            acc.seen("structure", r["structure"])
            acc.seen("ratio_excess", r["ratio_excess"])
            acc.seen("ratio_abs", r["ratio_abs"])
            acc.seen("ratio_dlog_p>1e-6", r["ratio_dlog"])
            continue
        # classify: is it the state built from the diagonal of H in the request basis
        # and tagged with the request basis?  (only meaningful if that differs)
        sig = False
        if ctx not in (("inH", "inXH", "inXcH") if cond == "tes_weak" else ("out",)):
            if cond == "tes_weak":
                # exciton populations placed on the diagonal of the request basis
                pe = numpy.zeros(n)
                pe[start:] = BZ.populations(wr[start:], T)
                Bm = numpy.eye(n) if Breq is None else Breq
                sig = float(numpy.max(numpy.abs(rho - BZ.state_in_basis(Bm, pe)))) <= TOL_SIG
            else:
                sig = _signature(rho, Href, Breq, start, T, subtract=sub)
                if not sig and T == 0:
                    # at T = 0 the library populates the first band state of the basis
                    # it works in, whatever its energy
                    Bm = numpy.eye(n) if Breq is None else Breq
                    b = Bm[:, start]
                    sig = float(numpy.max(numpy.abs(rho - numpy.outer(b, b.conj())))) <= TOL_SIG
        # label (not an oracle): a state that is diagonal in the eigenbasis of the AGGREGATE
        # Hamiltonian although another operator was supplied to define the equilibrium
        wrongham = False
        if other and cond == "tes_weak" and band_n >= 2:
            Rw = U.conj().T @ rho @ U
            wrongham = float(numpy.max(numpy.abs(Rw - numpy.diag(numpy.diag(Rw))))) <= TOL_R
        if wrongham:
            acc.add("relham/%s/diagonal-in-eigenbasis-of-aggregate-hamiltonian" % tag,
                    "T=%g: a relaxation_hamiltonian (%s) was supplied, the state handed out is "
                    "diagonal in the eigenbasis of the aggregate Hamiltonian, not of the "
                    "Hamiltonian according to which the equilibrium is formed (coherence %.3g, "
                    "population error %.3g in the eigenbasis of the latter)"
                    % (T, case["relham"], r["structure"],
                       r["ratio_abs"] if numpy.isfinite(r["ratio_abs"]) else float("nan")))
        elif sig and cond == "tes_weak":
            acc.add("basis/%s/exciton-populations-tagged-as-request-basis" % tag,
                    "T=%g: the matrix holds the exciton-basis Boltzmann populations but is "
                    "labelled with the basis of the request (%s), so it is a different "
                    "physical state (coherence/pop. error %.3g in the exciton basis)"
                    % (T, ctx, max(r["structure"], r["ratio_abs"] if numpy.isfinite(r["ratio_abs"]) else 0)))
        elif sig:
            acc.add("basis/%s/populations-from-request-basis-diagonal" % tag,
                    "T=%g: site equilibrium was built from the diagonal of H in the basis of "
                    "the request (%s) instead of the site basis (site-basis coherence %.3g)"
                    % (T, ctx, r["structure"]))
        elif r["structure"] > TOL_R:
            acc.add("boltzmann/%s/not-diagonal-in-defining-basis" % tag,
                    "T=%g coherences/out-of-band population %.3g in the defining basis"
                    % (T, r["structure"]))
        else:
            acc.add("boltzmann/%s/%s" % (tag, r["kind"]),
                    "T=%g populations are not Boltzmann in the defining basis (|dp|=%.3g, "
                    "%.3g x allowed)" % (T, r["ratio_abs"], r["ratio_excess"]))
    # same physical state inside / outside (class R), only where the request fixes the basis
    if cond in ("tes_weak", "tes_strong") and "out" in states and not ambiguous:
        for ctx in CTXS[1:]:
            if ctx not in states:
                continue
            dev = float(numpy.max(numpy.abs(states[ctx] - states["out"])))
            explained = any(k.startswith("basis/%s/" % ctag) or k.startswith("boltzmann/%s/" % ctag)
                            for k in acc.keys)
            if not explained:
                acc.seen("same_state", dev)
            if dev > TOL_R + numpy.expm1(condn) and not explained:
                acc.add("same-state/%s/req-%s-vs-out" % (ctag, ctx),
                        "T=%g state requested inside (%s) differs from the one requested "
                        "outside by %.3g" % (T, ctx, dev))
    excited = any(isinstance(o, list) and max(abs(x) for x in o[0]) > 0 for o in outcome)
    nontrivial = (refused + prior_raised < len(CTXS)) and (
        (cond == "impulsive" and excited) or (cond != "impulsive" and T > 0 and band_n is not None and
                                  (band_n >= 2 if cond != "thermal" else True)))
    return {"nontrivial": bool(nontrivial),
            "outcome": [cond, case["sys"], T, outcome] if not hist else
                       [cond, case["sys"], T, hist, outcome],
            "violations": acc.v, "n": (2 if hist else 1) * len(CTXS) - 1,
            "info": {"worst": acc.worst, "refused": refused, "prior_raised": prior_raised}}


def _eval_aggregate_rdm(case):
    """Aggregate.get_thermal_ReducedDensityMatrix(): canonical state of the whole aggregate
    Hamiltonian (all bands) at the temperature of the bath; defining basis = eigenbasis of H."""
    acc = _Acc()
    T = float(case["T"])
    outcome = []
    states = {}
    ambiguous = False
    hist = list(case.get("hist") or [])
    rtag = "aggregate-rdm" if not hist else "after-%s/aggregate-rdm" % "+".join(hist)
    prior_raised = 0
    for ctx in CTXS:
        fresh = _fresh_state(case, ctx, "rdm") if hist else None
        isolation.reset_manager()
        agg, reorgs = build_aggregate(case)
        Hop = agg.get_Hamiltonian()
        H0 = numpy.real(numpy.array(Hop.data, dtype=complex))
        H0 = 0.5 * (H0 + H0.T)
        n = H0.shape[0]
        start = int(agg.Nb[0])
        condn = BZ.conditioning(float(numpy.max(numpy.abs(H0))), T)
        w, U = BZ.eigenbasis(H0)
        Xmat = _other_operator(H0, start)
        Xcmat = _other_operator(H0, start, cplx=True)
        _check_nondegenerate(case, numpy.linalg.eigvalsh(Xmat))
        _check_nondegenerate(case, numpy.linalg.eigvalsh(Xcmat))
        tag = "%s/req-%s" % (rtag, ctx)
        Tlib = float(agg.get_temperature())
        if Tlib != T:
            raise isolation.HarnessError("bath temperature %r, wanted %r: %r" % (Tlib, T, case))
        if hist:
            # the reference above was built from the Hamiltonian BEFORE the history
            err = _apply_history(agg, case, hist)
            if err is not None:
                prior_raised += 1
                outcome.append("prior-raised:" + err)
                continue
            Hop = agg.get_Hamiltonian()      # (rebuild makes a new operator)
        try:
            held = []
            rho = _request(ctx, lambda: (held.append(agg.get_thermal_ReducedDensityMatrix()),
                                         held[-1])[1], Hop, Xmat, Xcmat)
        except isolation.HarnessError:
            raise
        except Exception as e:
            # label (not an oracle): do plain Boltzmann factors exp(-E_n/kT) of the absolute
            # eigenvalues under/overflow, so that their normalisation is 0/0 or inf/inf?
            naive = False
            if T > 0:
                with numpy.errstate(all="ignore"):
                    f = numpy.exp(-w / (BZ.KB_INT * T))
                    naive = not numpy.all(numpy.isfinite(f / numpy.sum(f)))
            if naive:
                # the context of the request is irrelevant for this failure: one key per case
                acc.add("finite/%s/nan-then-raise" % rtag,
                        "T=%g, lowest eigenvalue of H %.6g 1/cm (requested %s): Boltzmann "
                        "factors of the absolute energies under/overflow (0/0 or inf/inf), the "
                        "state is NaN and the constructor raises: %s"
                        % (T, w[0] / BZ.CM2INT, ctx, str(e)[:80]),
                        {"exception": "%s: %s" % (type(e).__name__, str(e)[:200])})
            else:
                acc.add("handed-out/%s/raises-%s" % (tag, type(e).__name__),
                        "T=%g request raised %s: %s" % (T, type(e).__name__, str(e)[:120]))
            outcome.append("raise")
            continue
        outcome.append(_digest(rho))
        if rho.shape != (n, n):
            acc.add("shape/%s" % tag, "returned shape %r" % (rho.shape,))
            continue
        if not _check_valid(acc, rho, tag, need_trace=True):
            continue
        states[ctx] = rho
        r = _boltzmann_in_basis(rho, H0, U, 0, T, cond_slack=_cond_slack(ctx, condn))
        ambiguous = ambiguous or r["degenerate_T0"]
        if not hist:
            _check_eigen_ratio(acc, rtag, ctx, held[-1], Hop, H0, U, T)
        if hist:
            _check_history(acc, tag, hist, rho, fresh, T, condn, r["degenerate_T0"])
        acc.seen("structure", r["structure"])
        acc.seen("ratio_excess", r["ratio_excess"])
        acc.seen("ratio_abs", r["ratio_abs"])
        acc.seen("ratio_dlog_p>1e-6", r["ratio_dlog"])
        if not r["ok"]:
            if r["structure"] > TOL_R:
                acc.add("boltzmann/%s/not-diagonal-in-defining-basis" % tag,
                        "T=%g coherences %.3g in the eigenbasis of the aggregate Hamiltonian"
                        % (T, r["structure"]))
            else:
                acc.add("boltzmann/%s/%s" % (tag, r["kind"]),
                        "T=%g populations are not Boltzmann (|dp|=%.3g, %.3g x allowed)"
                        % (T, r["ratio_abs"], r["ratio_excess"]))
    if "out" in states and not ambiguous:
        for ctx in CTXS[1:]:
            if ctx in states:
                dev = float(numpy.max(numpy.abs(states[ctx] - states["out"])))
                acc.seen("same_state", dev)
                if dev > TOL_R + numpy.expm1(condn) and \
                        not any(k.startswith("boltzmann/%s" % rtag) for k in acc.keys):
                    acc.add("same-state/%s/req-%s-vs-out" % (rtag, ctx),
                            "T=%g state requested inside (%s) differs from outside by %.3g"
                            % (T, ctx, dev))
    return {"nontrivial": bool(T > 0) and prior_raised < len(CTXS),
            "outcome": ["aggregate-rdm", case["sys"], case["e0"], T, outcome] if not hist else
                       ["aggregate-rdm", case["sys"], case["e0"], T, hist, outcome],
            "violations": acc.v, "n": (2 if hist else 1) * len(CTXS) - 1,
            "info": {"worst": acc.worst, "refused": 0, "prior_raised": prior_raised}}


def _eval_molecule(case):
    acc = _Acc()
    T = float(case["T"])
    outcome = []
    states = {}
    ambiguous = False
    for ctx in CTXS:
        isolation.reset_manager()
        m = build_molecule(case)
        Hop = m.get_Hamiltonian()
        H0 = numpy.real(numpy.array(Hop.data, dtype=complex))
        H0 = 0.5 * (H0 + H0.T)
        n = H0.shape[0]
        condn = BZ.conditioning(float(numpy.max(numpy.abs(H0))), T)
        w, U = BZ.eigenbasis(H0)
        Xmat = _other_operator(H0, 1)
        Xcmat = _other_operator(H0, 1, cplx=True)
        _check_nondegenerate(case, numpy.linalg.eigvalsh(Xmat))
        _check_nondegenerate(case, numpy.linalg.eigvalsh(Xcmat))
        tag = "molecule/req-%s" % ctx
        try:
            held = []
            rho = _request(ctx, lambda: (held.append(m.get_thermal_ReducedDensityMatrix()),
                                         held[-1])[1], Hop, Xmat, Xcmat)
        except isolation.HarnessError:
            raise
        except Exception as e:
            acc.add("handed-out/%s/raises-%s" % (tag, type(e).__name__),
                    "T=%g request raised %s: %s" % (T, type(e).__name__, str(e)[:120]))
            outcome.append("raise")
            continue
        outcome.append(_digest(rho))
        if rho.shape != (n, n):
            acc.add("shape/%s" % tag, "returned shape %r" % (rho.shape,))
            continue
        if not _check_valid(acc, rho, tag, need_trace=True):
            continue
        states[ctx] = rho
        r = _boltzmann_in_basis(rho, H0, U, 0, T, cond_slack=_cond_slack(ctx, condn))
        ambiguous = ambiguous or r["degenerate_T0"]
        _check_eigen_ratio(acc, "molecule", ctx, held[-1], Hop, H0, U, T)
        acc.seen("structure", r["structure"])
        acc.seen("ratio_excess", r["ratio_excess"])
        acc.seen("ratio_abs", r["ratio_abs"])
        acc.seen("ratio_dlog_p>1e-6", r["ratio_dlog"])
        if not r["ok"]:
            if r["structure"] > TOL_R:
                acc.add("boltzmann/%s/not-diagonal-in-defining-basis" % tag,
                        "T=%g coherences %.3g in the eigenbasis of the molecular Hamiltonian"
                        % (T, r["structure"]))
            else:
                acc.add("boltzmann/%s/%s" % (tag, r["kind"]),
                        "T=%g populations are not Boltzmann (|dp|=%.3g, %.3g x allowed)"
                        % (T, r["ratio_abs"], r["ratio_excess"]))
    if "out" in states and not ambiguous:
        for ctx in CTXS[1:]:
            if ctx in states:
                dev = float(numpy.max(numpy.abs(states[ctx] - states["out"])))
                acc.seen("same_state", dev)
                if dev > TOL_R + numpy.expm1(condn) and \
                        not any(k.startswith("boltzmann/molecule") for k in acc.keys):
                    acc.add("same-state/molecule/req-%s-vs-out" % ctx,
                            "T=%g state requested inside (%s) differs from outside by %.3g"
                            % (T, ctx, dev))
    return {"nontrivial": bool(T > 0), "outcome": ["molecule", case["mol"], case["E0"], T, outcome],
            "violations": acc.v, "n": len(CTXS) - 1, "info": {"worst": acc.worst, "refused": 0}}


def replay(case):
    return eval_case(case)["violations"]


def _merge(infos):
    worst, refused = {}, 0
    for i in infos:
        refused += i.get("refused", 0)
        for k, v in i.get("worst", {}).items():
            worst[k] = max(worst.get(k, 0.0), v)
    return worst, refused


def _prior_raised(infos):
    return sum(i.get("prior_raised", 0) for i in infos)


def run(run):
    run.rule = ("full product system x ground-state energy of molecule 0 x ground-state offset "
                "of every molecule x bath x condition x relaxation_hamiltonian (not given / H "
                "itself / another commuting operator / another non-commuting operator) x "
                "temperature source x temperature (aggregates, get_DensityMatrix), system x "
                "ground-state "
                "offset of every molecule x bath x temperature (aggregates, "
                "get_thermal_ReducedDensityMatrix) and "
                "molecule x ground-state energy x temperature (molecules); each point requested "
                "outside, inside eigenbasis_of(H), inside eigenbasis_of(X), nested X/H and H/X, "
                "each X-containing context with a real symmetric and with a complex Hermitian X; "
                "sections *_history: system x bath x temperature x temperature source x "
                "condition (resp. get_thermal_ReducedDensityMatrix) x relaxation_hamiltonian x "
                "ALL histories of prior operations on the same aggregate up to the tier's length "
                "(quick 1, thorough 2; alphabet HIST_OPS restricted to what the library supports "
                "for the system) x the same request contexts; "
                "non-trivial = "
                "T > 0 and (>= 2 levels in the excited band for thermal_excited_state) or a "
                "non-zero impulsive excitation; refused (unsupported) requests are trivial")
    run.assumptions = [
        "the aggregate/molecule Hamiltonian matrix (site basis, internal units) is taken from "
        "the library as the input of the reference model (C03/C10 own its correctness)",
        "k_B recomputed from scipy.constants; 1e-6 relative slack on the exponent",
        "plain `thermal`: Boltzmann on the diagonal of H in the basis of the request OR the "
        "canonical state is accepted; inside == outside not demanded for it",
        "strong coupling without relaxation_hamiltonian is only supported for electronic "
        "aggregates with a bath (reorganisation energies); other combinations are counted "
        "as refused, and covered through relaxation_hamiltonian=H",
        "thermal_excited_state only for single-exciton aggregates (mult=1)",
        "a supplied relaxation_hamiltonian is the Hamiltonian according to which the equilibrium "
        "is formed (docstring of get_DensityMatrix): its eigenbasis/eigenvalues define the "
        "weak-coupling state, its site diagonal the strong-coupling state; it is created outside "
        "all contexts from a site-basis matrix that keeps the ground band of H; quick tier: the "
        "two 'another operator' kinds and the multi-scale systems only at E0 = e0 = 0, no bath, "
        "temperature by argument",
        "a bath at exactly 0 K cannot be built; T=0 is passed by argument / no environment",
        "get_thermal_ReducedDensityMatrix takes its temperature from the bath only: the "
        "aggregate_rdm section has T > 0 with a bath and T = 0 without one",
        "quick tier: ground-state energy of molecule 0 (E0) and the offset of every molecule "
        "(e0) are not combined (both are constant displacements of the aggregate Hamiltonian); "
        "the thorough tier has the full product",
        "context operators X (real symmetric and complex Hermitian) are H plus a fixed "
        "perturbation inside the excited bands, with a non-degenerate spectrum (verified per "
        "case), so that the basis of a context is fixed up to phases",
        "histories: every prior operation is performed outside all contexts; earlier requests "
        "of a history use another temperature than the checked one; a prior operation that "
        "raises ends the case point without a claim (counted in the notes; none on the "
        "unchanged tree); the reference Hamiltonian is the one read right after build()",
    ]
    allc = cases(run.tier)
    agg = [c for c in allc if c["section"] == "aggregate"]
    rdm = [c for c in allc if c["section"] == "aggregate_rdm"]
    mol = [c for c in allc if c["section"] == "molecule"]
    hag = [c for c in allc if c["section"] == "aggregate_history"]
    hrd = [c for c in allc if c["section"] == "aggregate_rdm_history"]
    run.bounds = {"temperatures": sorted(set(c["T"] for c in agg)),
                  "systems": SYS_QUICK if run.tier == "quick" else SYS_THOROUGH,
                  "molecules": MOL_QUICK if run.tier == "quick" else MOL_THOROUGH,
                  "E0": sorted(set(c["E0"] for c in agg)),
                  "e0_every_molecule": E0_ALL, "contexts": CTXS,
                  "relaxation_hamiltonian": [str(k) for k in RELHAM],
                  "history_operations": HIST_OPS,
                  "history_length": max(len(c["hist"]) for c in hag),
                  "history_systems": sorted(set(c["sys"] for c in hag)),
                  "history_temperatures": sorted(set(c["T"] for c in hag)),
                  "tolerances": {"R": TOL_R, "psd": TOL_PSD, "kB_rel": BZ.KB_REL,
                                 "ratio_rtol_log": 1e-9}}
    i1 = run_grid(run, agg, eval_case, section="aggregate")
    i3 = run_grid(run, rdm, eval_case, section="aggregate_rdm")
    i2 = run_grid(run, mol, eval_case, section="molecule")
    i4 = run_grid(run, hag, eval_case, section="aggregate_history")
    i5 = run_grid(run, hrd, eval_case, section="aggregate_rdm_history")
    w1, r1 = _merge(i1)
    w2, r2 = _merge(i2)
    w3, r3 = _merge(i3)
    w4, r4 = _merge(i4)
    w5, r5 = _merge(i5)
    run.note(worst_aggregate=w1, worst_aggregate_rdm=w3, worst_molecule=w2,
             worst_aggregate_history=w4, worst_aggregate_rdm_history=w5,
             refused_requests=r1 + r2 + r3, refused_requests_history=r4 + r5,
             history_requests_after_a_raising_prior_operation=_prior_raised(i4) + _prior_raised(i5))
