"""C19 Two-dimensional response storage conserves what was added.

E-bfs over operation histories of a real TwoDResponse object (additions at every level,
with valid / invalid type names and tags, resolution changes), a reference ledger per
step, every readable view compared after every transition, refused operations checked
for leaving the storage untouched.
"""
import copy

import numpy

from mc import isolation
from mc.explore import run_bfs
from mc.refmodels import twod_ledger as TL

LEVEL = "model_checking"

# the two frequency axes have DIFFERENT lengths (2 and 3): index order matters
A = numpy.array([[1, 2, 9], [3, 5, 11]], dtype=complex)
B = numpy.array([[16, 32, 256], [64, 128, 512]], dtype=complex) * (1 + 1j)
SHAPE = (2, 3)
ARR = {"A": A, "B": B}


def _names():
    qr = isolation.qr()
    return [qr.signal_REPH, qr.signal_NONR, qr.signal_DC], qr.signal_TOTL


def alphabet(tier):
    sig, tot = _names()
    ops = []

    def add(res, d, t, x):
        ops.append(["add", res, d, t, x])
    for d in ["R1g", "R2g", "R1fs", "GSB"]:
        for t in ["p1", "p2", None]:
            add("pathways", d, t, "A")
    # legal but falsy tags (an enumerate() index, an empty label)
    add("pathways", "R1g", 0, "B")
    add("pathways", "R1g", "", "A")
    add("pathways", "R2g", 0, "A")
    add("pathways", "R1g", "p1", "B")
    add("pathways", "R2g", "p2", "B")
    for d in ["R1g", "R2g", "R3fs", sig[0]]:
        for t in [None, "p1"]:
            add("types", d, t, "A")
    add("types", "R1g", None, "B")
    for d in ["GSB", "ESA", "R1g"]:
        for t in [None, "p1"]:
            add("processes", d, t, "A")
    add("processes", "GSB", None, "B")
    for d in [sig[0], sig[1], "GSB"]:
        for t in [None, "p1"]:
            add("signals", d, t, "A")
    add("signals", sig[0], None, "B")
    for d in [tot, sig[0]]:
        for t in [None, "p1"]:
            add("off", d, t, "A")
    add("off", tot, None, "B")
    for d in ["R1g", "GSB", sig[0], tot, "bogus"]:
        add(None, d, None, "B")
    add(None, "R1g", "p1", "B")
    add("bogus", "R1g", None, "A")
    if tier == "thorough":
        for d in ["R4g", "R2fs", "R4fs"]:
            add("types", d, None, "B")
            add("pathways", d, "p1", "B")
        add("processes", "SE", None, "B")
        add("processes", "DC", None, "B")
        add("signals", sig[2], None, "B")
    for r in TL.RESOLUTIONS + ["bogus"]:
        ops.append(["setres", r])
    # a spectrum derived from the response is the user's own object: scaling it, normalising it
    # or adding to it through its API is not an addition to the response
    for how in (("devide_by", "add_data") if tier == "quick"
                else ("devide_by", "normalize2", "add_data")):
        for d in ([tot, sig[0]] if tier == "quick" else [tot, sig[0], sig[1]]):
            ops.append(["derive", d, how])
    return ops


_ALPHA = {}


def _flat(obj):
    """Canonical, JSON-able form of the stored data."""
    out = []
    st = getattr(obj, "_d__data", None)
    if st is None:
        return None
    for k in sorted(st, key=str):
        v = st[k]
        if isinstance(v, dict):
            for t in sorted(v, key=str):
                out.append([str(k), str(t), _arr(v[t])])
        else:
            out.append([str(k), "", _arr(v)])
    return out


def _arr(a):
    if a is None:
        return None
    a = numpy.asarray(a)
    return [list(a.shape), a.astype(complex).round(9).tobytes().hex()]


def _snapshot(obj):
    return (obj.storage_resolution, bool(obj.storage_initialized),
            copy.deepcopy(_flat(obj)))


def _read(obj, flag):
    obj.set_data_flag(flag)
    return obj.d__data


def _as_array(x, shape):
    if x is None:
        return numpy.zeros(shape, dtype=complex)
    return numpy.asarray(x, dtype=complex)


def _apply(obj, led, op, viol, check):
    """Apply one op to the real object and the ledger. Returns nothing."""
    qr = isolation.qr()
    sig, tot = _names()
    a_before = {k: v.copy() for k, v in ARR.items()}
    before = _snapshot(obj)
    if op[0] == "derive":
        _, d, how = op
        try:
            sp = obj.get_TwoDSpectrum(d)
        except Exception:
            return                      # an inexpressible / empty view: nothing to derive
        try:
            if how == "devide_by":
                sp.devide_by(2.0)
            elif how == "normalize2":
                sp.normalize2()
            else:
                sp.add_data(numpy.ones(SHAPE, dtype=complex))
        except Exception:
            pass
        if _snapshot(obj) != before:
            viol.append(("derived-spectrum-operation-changed-the-response/%s/at-%s"
                         % (how, before[0]),
                         "%s on the TwoDSpectrum returned by get_TwoDSpectrum(%r) changed the "
                         "stored data of the response" % (how, d), None))
        return
    if op[0] == "add":
        _, res, d, t, x = op
        adm = led.admissible_add(obj.storage_resolution, obj.storage_initialized, res, d, t)
        was_init = obj.storage_initialized
        try:
            obj._add_data(ARR[x].copy() if False else ARR[x], resolution=res, dtype=d, tag=t)
            accepted = True
        except Exception as e:
            accepted = False
            err = "%s: %s" % (type(e).__name__, str(e)[:80])
        if accepted:
            eff = res if res is not None else before[0]
            led.add(eff, d, t, ARR[x])
            if check and adm is False:
                # accepted although the model calls it inadmissible: conservation decides
                pass
        else:
            if check and adm is True:
                viol.append(("admissible-add-refused/%s/%s" % (res, led.level_of(d)),
                             "admissible addition %r refused (%s)" % (op, err), None))
            if check:
                after = _snapshot(obj)
                # stored data must be untouched; on a never-initialised object the
                # refusal may initialise an EMPTY storage (no stored data changes)
                b_data = before[2] or []
                a_data = after[2] or []
                if was_init:
                    same = (after[0] == before[0]) and (a_data == b_data)
                else:
                    same = (after == before) or (a_data == [])
                if not same:
                    viol.append(("refused-add-changed-storage/%s" % res,
                                 "refused addition %r changed the stored data" % (op,),
                                 {"before": before, "after": after}))
    elif op[0] == "setres":
        r = op[1]
        old = before[0]
        try:
            obj.set_resolution(r)
            accepted = True
        except Exception as e:
            accepted = False
        if check:
            if old not in TL.RESOLUTIONS:
                legal = None          # corrupted bookkeeping, reported by the state invariant
            else:
                legal = (r in TL.RESOLUTIONS and
                         (TL.RESOLUTIONS.index(r) == TL.RESOLUTIONS.index(old) or
                          TL.RESOLUTIONS.index(r) in TL.REACH[TL.RESOLUTIONS.index(old)]))
            if accepted and legal is False:
                viol.append(("inadmissible-reduction-accepted/%s->%s" % (old, r),
                             "set_resolution(%r) accepted from %r" % (r, old), None))
            if (not accepted) and legal is True and obj.xaxis is not None:
                # (without frequency axes a reduction cannot allocate its arrays: refusing it is
                # fine, as long as nothing stored changes - checked below)
                viol.append(("admissible-reduction-refused/%s->%s" % (old, r),
                             "set_resolution(%r) refused from %r" % (r, old), None))
            if not accepted:
                after = _snapshot(obj)
                if after != before:
                    viol.append(("refused-reduction-changed-storage/%s->%s" % (old, r),
                                 "refused set_resolution(%r) changed the storage" % r,
                                 {"before": before, "after": after}))
            if accepted and obj.storage_resolution != r:
                viol.append(("reduction-not-applied/%s->%s" % (old, r),
                             "storage_resolution is %r after set_resolution(%r)"
                             % (obj.storage_resolution, r), None))
    if check and obj.storage_resolution not in TL.RESOLUTIONS:
        viol.append(("state/invalid-storage-resolution",
                     "storage_resolution is %r after %r" % (obj.storage_resolution, op), None))
    if check:
        for k in ARR:
            if not numpy.array_equal(ARR[k], a_before[k]):
                viol.append(("caller-array-modified", "the caller's array %s was modified" % k,
                             None))
                ARR[k][...] = a_before[k]


def _check_views(obj, led, viol):
    sig, tot = _names()
    if not obj.storage_initialized or not led.entries:
        return 0
    shape = SHAPE
    res = obj.storage_resolution
    n = 0
    stored0 = _snapshot(obj)
    held = []            # objects handed out by earlier reads, kept (not copied) by the caller

    def cmp(kind, name, flag, tag=None):
        nonlocal n
        exp = led.view(kind, name, shape, tag)
        if exp is None:
            return
        try:
            got = _read(obj, flag)
        except Exception as e:
            viol.append(("view-unreadable/%s/%s" % (res, kind),
                         "reading %r at resolution %s raised %s" % (flag, res, e), None))
            return
        n += 1
        try:
            arr = _as_array(got, shape)
        except (TypeError, ValueError):
            viol.append(("conservation/%s-view/at-%s" % (kind, res),
                         "view %r at resolution %s is not an array but a %s"
                         % (flag, res, type(got).__name__), None))
            return
        held.append((kind, flag, got, exp))
        got = arr
        if got.shape != shape or not numpy.array_equal(got, exp):
            viol.append(("conservation/%s-view/at-%s" % (kind, res),
                         "view %r at resolution %s = %s, ledger says %s"
                         % (flag, res, got.tolist(), exp.tolist()),
                         {"ledger": [(l, d, str(t)) for (l, d, t, a) in led.entries]}))
    views = []          # (kind, name, flag, tag) of every view read below

    cmp0 = cmp

    def cmp_(kind, name, flag, tag=None):
        views.append((kind, name, flag, tag))
        cmp0(kind, name, flag, tag)
    cmp = cmp_
    cmp("total", None, tot)
    if res in ("pathways", "types", "signals"):
        for s in sig:
            cmp("signal", s, s)
    if res in ("pathways", "types", "processes"):
        for p in TL.PROCESSES:
            cmp("process", p, p)
    if res in ("pathways", "types"):
        for t in TL.PTYPES:
            if res == "pathways" and not any(e[1] == t for e in led.entries):
                continue
            cmp("type", t, t)
    if res == "pathways":
        for (l, d, t, a) in led.entries:
            if l == "pathways" and t is not None:
                cmp("pathway", d, [d, t], tag=t)
    cmp = cmp0
    # sequences of reads: the view read SECOND does not depend on which view was read first
    # (all ordered pairs whose first member is a pathway or pathway-type view - the reads that
    # leave a tag selected)
    firsts = [v for v in views if v[0] in ("pathway", "type")]
    for (k1, n1, f1, t1) in firsts:
        for (k2, n2, f2, t2) in views:
            if (k1, n1, t1) == (k2, n2, t2):
                continue
            try:
                _read(obj, f1)
                got = _as_array(_read(obj, f2), shape)
            except Exception as e:
                viol.append(("view-unreadable/%s/%s-after-%s" % (res, k2, k1),
                             "reading %r after %r raised %s" % (f2, f1, e), None))
                continue
            n += 1
            exp = led.view(k2, n2, shape, t2)
            if exp is not None and (got.shape != shape or not numpy.array_equal(got, exp)):
                viol.append(("view-depends-on-previous-read/%s-after-%s/at-%s" % (k2, k1, res),
                             "view %r read right after view %r = %s, ledger says %s"
                             % (f2, f1, got.tolist(), exp.tolist()), None))
                break
    # get_all_data: the pieces handed out add up to the total
    try:
        pieces = obj.get_all_data()
        tot_exp = led.view("total", None, shape)
        s = numpy.zeros(shape, dtype=complex)
        for v in pieces.values():
            s = s + _as_array(v, shape)
        n += 1
        if not numpy.array_equal(s, tot_exp):
            viol.append(("conservation/get_all_data/at-%s" % res,
                         "sum of get_all_data() pieces %s != ledger total %s"
                         % (s.tolist(), tot_exp.tolist()), None))
    except Exception as e:
        viol.append(("view-unreadable/%s/get_all_data" % res, "get_all_data raised %s" % e, None))
    # inexpressible views must be refused and reads never change the storage
    if res == "processes":
        try:
            _read(obj, sig[0])
            viol.append(("inexpressible-view-served/processes/signal",
                         "signal view served from process-resolved storage", None))
        except Exception:
            pass
    if res == "signals":
        try:
            _read(obj, "GSB")
            viol.append(("inexpressible-view-served/signals/process",
                         "process view served from signal-resolved storage", None))
        except Exception:
            pass
    if _snapshot(obj) != stored0:
        viol.append(("read-changed-storage/at-%s" % res, "reading views changed the storage", None))
    # sequences of reads: what an earlier read returned still is that view after all the later
    # reads (nothing was added in between, nothing was written into the arrays)
    for (kind, flag, ret, exp) in held:
        now = _as_array(ret, shape)
        if now.shape != shape or not numpy.array_equal(now, exp):
            viol.append(("view-changed-by-later-read/%s-view/at-%s" % (kind, res),
                         "the array returned for view %r at resolution %s turned into %s after "
                         "later reads of other views; ledger says %s"
                         % (flag, res, now.tolist(), exp.tolist()), None))
            break
    return n


def execute(hist):
    qr = isolation.qr()
    sig, tot = _names()
    obj = qr.TwoDResponse()
    late = bool(getattr(execute, "late_axes", False))

    def setaxes():
        obj.set_axis_1(qr.FrequencyAxis(0.0, SHAPE[0], 1.0))
        obj.set_axis_3(qr.FrequencyAxis(0.0, SHAPE[1], 1.0))
    if not late:
        setaxes()
    led = TL.Ledger(sig, tot)
    viol = []
    for i, op in enumerate(hist):
        last = (i == len(hist) - 1)
        if op[0] == "setaxes":
            # section late-axes: the frequency axes are attached only now (the containers
            # of the package add data first and set the axes afterwards)
            if obj.xaxis is None:
                setaxes()
        else:
            _apply(obj, led, op, viol, check=last)
        if last:
            if obj.xaxis is None:
                setaxes()              # views are read on a complete object
            _check_views(obj, led, viol)
    seen, v2 = set(), []
    for v in viol:
        if v[0] not in seen:
            seen.add(v[0])
            v2.append(v)
    key = [_snapshot(obj), led.summary()]
    tier = execute.tier
    if tier not in _ALPHA:
        _ALPHA[tier] = alphabet(tier)
    if late:
        key = [key, obj.xaxis is None if False else any(o[0] == "setaxes" for o in hist)]
        en = [o for o in _ALPHA[tier] if o[0] in ("setres",) or
              (o[0] == "add" and o[4] == "A" and o[3] in (None, "p1"))] + [["setaxes"]]
        return {"key": key, "enabled": en, "violations": v2,
                "nontrivial": len(led.entries) >= 1,
                "outcome": ["late", obj.storage_resolution, len(led.entries), len(v2)]}
    return {"key": key, "enabled": _ALPHA[tier], "violations": v2,
            "nontrivial": len(led.entries) >= 1,
            "outcome": [obj.storage_resolution, len(led.entries), len(v2)]}


execute.tier = "quick"


def replay(case):
    execute.late_axes = any(o[0] == "setaxes" for o in case["history"]) or bool(case.get("late"))
    return execute(tuple(tuple(o) if isinstance(o, list) else o for o in case["history"]))["violations"]


def run(run):
    execute.tier = run.tier
    depth = 4 if run.tier == "quick" else 6
    cap = 50 if run.tier == "quick" else 720
    run.rule = ("BFS over histories of _add_data(resolution, dtype, tag, array) / set_resolution on "
                "a real TwoDResponse; state = (storage resolution, initialised flag, stored "
                "arrays, ledger); every transition executed on the implementation; non-trivial = "
                "history with at least one accepted addition")
    run.assumptions = ["type->process / type->signal tables are copied from the library's "
                       "published constants and checked for being partitions",
                       "integer-valued arrays so that sums are exact (equality, no tolerance)"]
    run.bounds = {"depth": depth, "alphabet": len(alphabet(run.tier)), "arrays": ["A", "B"]}
    execute.late_axes = False
    run_bfs(run, execute, depth, cap_s=cap, section="axes-first")
    # the same protocol on an object that gets its frequency axes late (additions and
    # resolution changes before the axes exist)
    execute.late_axes = True
    run_bfs(run, execute, depth, cap_s=cap / 2, section="late-axes")
    execute.late_axes = False
    run.note(alphabet_size=len(alphabet(run.tier)))
