"""C02 Propagated density matrices stay valid states and follow the generator.

E-grid (+ linearity closure).  Five exhaustive sub-products ("sections"), every case runs the
REAL propagators on the complete spanning set of Hermitian unit-trace states
{|i><i|, (|i>+|j>)(..)/2, (|i>+i|j>)(..)/2} (dim^2 pure states; they span the real space of
Hermitian matrices, so every clause that is linear in the initial state is decided for all
initial states), "mix" cases propagate all pairwise equal mixtures of these states.

  closed    no relaxation: ReducedDensityMatrixPropagator and StateVectorPropagator, lab frame
            and rotating frame (set_rwa + convert_from_RWA).  Initial state vectors: the dim^2
            spanning states PLUS the complete phase family (all amplitudes non-zero, phases from
            the full product SV_PHASES^dim, a common phase included).  Every state-vector
            evolution is turned into density matrices through EVERY public route
            (StateVectorEvolution.get_DensityMatrixEvolution, StateVector.get_DensityMatrix at
            every stored time, the stored initial StateVector), in the frame of the calculation
            and again after convert_from_RWA; every route must give |psi(t_i)><psi(t_i)| of the
            stored vectors at EVERY stored index (index 0 included, class R), be Hermitian, have
            trace one within the norm bound and agree with the density-matrix propagator.
  lindblad  LindbladForm generators (operator form / tensor form / converted), RWA on/off
  deph      LindbladForm + PureDephasing (Lorentzian / Gaussian)
  redfield  (TD)RedfieldRelaxationTensor of a built dimer/trimer (operator / tensor / secular
            tensor form, with and without PureDephasing): trace and Hermiticity only
  (mix flag on lindblad/deph cases: positivity + agreement on pairwise mixtures)
  lindblad / deph cases with a rotating frame check, next to the exact solution in the frame of
  the calculation: the is_in_rwa flag of the returned evolution (set after propagate, cleared by
  convert_from_RWA, never set without set_rwa), and the converted data against the exact
  exponential of the LABORATORY-frame GKSL generator - for the complete product
  {operator form, tensor form(, converted)} x {no dephasing, Lorentzian, Gaussian} x
  {rwa off, every admissible block definition of RWA_BLOCKS}.
  calling context (ctx_sites x ctx_units on closed / lindblad / deph / redfield cases): the calls
  named by ctx_sites (set = Hamiltonian.set_rwa, build = construction of LindbladForm / Redfield
  tensor / PureDephasing / propagator, prop = propagate, conv = convert_from_RWA) are made
  INSIDE `with energy_units(ctx_units)`; every clause of the section must hold as it does outside
  (keys prefixed units-context/<calls>-inside-<units>/) and the stored data must equal those of
  the same calls made outside any context (class R).

  basis context of the call (bctx on closed cases): propagate (density matrix AND state vector,
  rotating and laboratory frame) is called INSIDE `with eigenbasis_of(X)`, X = the Hamiltonian of
  the propagator ("H"), another real symmetric operator ("other") or another complex Hermitian
  operator ("otherC"); initial state objects are created outside and every result is read after
  leaving the context.  Every clause of the closed section applies unchanged (keys prefixed
  basis-context/propagate-inside-eigenbasis-of-<X>/), the stored data must equal those of the same
  calls made outside (class R), and the state stored at index 0 must be the input state.
  conversion direction (every rotating-frame case of every section): convert_from_RWA and
  convert_to_RWA are inverse to each other on the evolution objects in both orders (class R,
  flags included); closed cases additionally take the LABORATORY-frame propagation (density
  matrix and state vector) to the rotating frame with convert_to_RWA: valid states, equal to the
  exact rotating-frame dynamics and to the library's rotating-frame propagation.

  dephasing history (sec dephhist): ONE propagator object (LindbladForm + PureDephasing) lives
  through a history: first setting (type x rate set) and then every ordered sequence of one
  (pairs) or two (triples) changes from the alphabet {assign a new PureDephasing to the
  propagator, rewrite the held object in place} x type x rate set + {convert_to} x type.  After
  the construction and after every change ALL spanning states are propagated on that object;
  every run must satisfy every clause of the deph section for the dephasing in force AT THAT
  RUN (keys dephasing-history/run-<k>/<change>/after-<previous type>/...), and the runs after
  the last change are repeated on a fresh propagator with the same generator.

Oracles (reference model mc/refmodels/gksl.py, numpy/scipy only):
  R  trace = 1 and Hermiticity at every stored time: |dev| <= 1e-10 * max(1, max|rho|)
  T  b[i] = a-priori truncation bound of the declared scheme at stored time i,
        n * sup_k||S^k|| * sup_k||E^k|| * ||S - E||,   S = T_L(L h) (followed by the exact dephasing
        factor when PureDephasing is present), E = exp(L h), h = dt/Nref, n = i*Nref
     computed from the generator, the step and the declared order only; allowed deviation
     2*b[i]*||rho_0||_F + 1e-10 (+ the reference's own integration error for Gaussian dephasing).
"""
import json

import numpy
from scipy.linalg import expm

from mc import isolation, systems
from mc.explore import run_grid, product
from mc.refmodels import gksl as G

LEVEL = "model_checking"
RTOL = 1e-10
INFORMATIVE = 0.05        # a T-clause is counted as exercised only when its bound is below this

# ---------------------------------------------------------------------------------------------
# alphabets (everything dimensionless per step; H = scale*hmat/dt, rates = c/T, T = (Nt-1)*dt)
# ---------------------------------------------------------------------------------------------
HMATS = {
    2: {"diag": [[0.0, 0.0], [0.0, 0.40]],
        "coupled": [[0.0, 0.12], [0.12, 0.40]],
        "degenerate": [[0.20, 0.15], [0.15, 0.20]]},
    3: {"diag": [[0, 0, 0], [0, 0.32, 0], [0, 0, 0.44]],
        "coupled": [[0, 0, 0], [0, 0.32, 0.08], [0, 0.08, 0.44]],
        "degenerate": [[0, 0, 0], [0, 0.38, 0.10], [0, 0.10, 0.38]],
        "cross": [[0, 0.05, -0.03], [0.05, 0.32, 0.08], [-0.03, 0.08, 0.44]]},
    4: {"diag": [[0, 0, 0, 0], [0, 0.20, 0, 0], [0, 0, 0.26, 0], [0, 0, 0, 0.46]],
        "coupled": [[0, 0, 0, 0], [0, 0.20, 0.06, 0], [0, 0.06, 0.26, 0], [0, 0, 0, 0.46]],
        "degenerate": [[0, 0, 0, 0], [0, 0.23, 0.07, 0], [0, 0.07, 0.23, 0], [0, 0, 0, 0.46]],
        "cross": [[0, 0.04, 0, 0.02], [0.04, 0.20, 0.06, 0], [0, 0.06, 0.26, -0.05],
                  [0.02, 0, -0.05, 0.46]]},
}
RWA_BLOCKS = {"ge": [0, 1], "one": [0], "ge2": [0, 1, 3]}
JUMP_C = (0.8, 0.16)                 # jump rates * T
DEPH_L = (0.0, 0.8, 1.6, 1.2)        # Lorentzian site dephasing rates * T
DEPH_G = (0.0, 3.0, 5.0, 4.0)        # Gaussian site dephasing constants * T^2
SV_PHASES = (0.0, 2.1, -0.9)         # phase alphabet of the complex-amplitude state vectors (rad)
SV_MODULI = (1.0, 0.8, 0.6, 0.5)     # their (unnormalised) moduli, all non-zero and distinct
SV_ROUTES = ("evolution", "statevector")
# calling context: which calls are made inside `with energy_units(u)`
CTX_SITE_NAMES = {"set": "set_rwa", "build": "construction", "prop": "propagate",
                  "conv": "convert_from_RWA"}
CTX_UNIT_LABELS = {"1/cm": "1-per-cm", "eV": "eV", "THz": "THz", "int": "int", "meV": "meV"}
# propagate / convert_from_RWA read the Hamiltonian through unit-managed accessors WITHOUT
# protecting themselves: made inside a units context they fail on the unchanged tree (reported;
# DESIGN 7.5).  These two call sites are explored only on request.
CTX_CALLS_TOO = __import__("os").environ.get("VERIF_C02_CALL_CONTEXT", "") not in ("", "0")


def ctx_sites_domain():
    base = ["set", "build", "set+build"]
    if CTX_CALLS_TOO:
        base += ["prop", "conv", "set+build+prop+conv"]
    return base


def _ctx(case, site):
    """Context manager around one call site: energy_units(ctx_units) when the case puts this
    site inside a units context, a null context otherwise."""
    import contextlib
    sites = case.get("ctx_sites", "none")
    if sites != "none" and site in sites.split("+"):
        from quantarhei import energy_units
        return energy_units(case["ctx_units"])
    return contextlib.nullcontext()


def _ctx_prefix(case):
    pre = ""
    if case.get("bctx", "none") != "none":
        pre = "basis-context/propagate-inside-eigenbasis-of-%s/" % case["bctx"]
    sites = case.get("ctx_sites", "none")
    if sites == "none":
        return pre
    return pre + "units-context/%s-inside-%s/" % (
        "+".join(CTX_SITE_NAMES[x] for x in sites.split("+")), CTX_UNIT_LABELS[case["ctx_units"]])


def _no_ctx(case):
    c = dict(case)
    c.pop("ctx_sites", None)
    c.pop("ctx_units", None)
    c.pop("bctx", None)
    return c


# basis context of the propagate call: `with eigenbasis_of(X)`
BCTX = ("H", "other", "otherC")


def other_operator(d, kind):
    """A fully coupled, non-degenerate Hermitian d x d matrix that is NOT the Hamiltonian of any
    case (real symmetric for 'other', complex Hermitian for 'otherC'); a fixed formula."""
    A = numpy.zeros((d, d), dtype=complex if kind == "otherC" else float)
    for i in range(d):
        A[i, i] = 0.37 * i - 0.05 * i * i
        for j in range(i + 1, d):
            x = 0.11 + 0.04 * (i + 2 * j) * (-1) ** (i + j)
            if kind == "otherC":
                A[i, j] = x * numpy.exp(1j * (0.7 + 0.9 * i - 0.4 * j))
                A[j, i] = numpy.conj(A[i, j])
            else:
                A[i, j] = A[j, i] = x
    ev = numpy.linalg.eigvalsh(A)
    off = numpy.abs(A - numpy.diag(numpy.diag(A)))
    if numpy.min(numpy.diff(ev)) < 1e-3 or numpy.min(off + numpy.eye(d)) < 1e-3:
        raise isolation.HarnessError("other_operator(%d, %s) degenerate or not fully coupled"
                                     % (d, kind))
    return A


def _bctx(case, ham):
    """Context manager around a propagate call: eigenbasis_of(X) when the case puts the call
    inside a basis context (a fresh context object and, for X != H, a fresh operator per call)."""
    import contextlib
    b = case.get("bctx", "none")
    if b == "none":
        return contextlib.nullcontext()
    from quantarhei import eigenbasis_of
    if b == "H":
        return eigenbasis_of(ham)
    from quantarhei.qm.hilbertspace.operators import SelfAdjointOperator
    return eigenbasis_of(SelfAdjointOperator(data=other_operator(ham.dim, b)))


def all_unit_sets(d, maxsize=2):
    """All subsets of size <= maxsize of the matrix units |i><j| (names 'ij', joined by '+')."""
    import itertools
    units = ["%d%d" % (i, j) for i in range(d) for j in range(d)]
    out = list(units)
    if maxsize >= 2:
        out += ["%s+%s" % p for p in itertools.combinations(units, 2)]
    return out


def parse_gen(name, d):
    """'12+21' -> [K1, K2] (real d x d arrays).  'ij' = |i><j|; 'Sij' = |i><j|+|j><i|;
    'Aij' = |i><j| + 0.5|i><i|; 'Z' = zero-rate placeholder (|0><0| with rate 0)."""
    ops = []
    for tok in name.split("+"):
        K = numpy.zeros((d, d))
        if tok == "Z":
            K[0, 0] = 1.0
        elif tok[0] == "S":
            i, j = int(tok[1]), int(tok[2])
            K[i, j] = K[j, i] = 1.0
        elif tok[0] == "A":
            i, j = int(tok[1]), int(tok[2])
            K[i, j] = 1.0
            K[i, i] = 0.5
        else:
            i, j = int(tok[0]), int(tok[1])
            K[i, j] = 1.0
        ops.append(K)
    return ops


# ---------------------------------------------------------------------------------------------
# model side of a case
# ---------------------------------------------------------------------------------------------
def block_means(H, blocks):
    d = H.shape[0]
    om = numpy.zeros(d)
    for k, s in enumerate(blocks):
        e = blocks[k + 1] if k + 1 < len(blocks) else d
        om[s:e] = numpy.mean(numpy.diag(H)[s:e])
    return om


def model(case):
    """Everything the reference needs, from the JSON case alone."""
    d = case["dim"]
    Nt, dt = case["axis"]
    T = (Nt - 1) * dt
    H = float(case["scale"]) * numpy.array(HMATS[d][case["ham"]], dtype=float) / dt
    m = {"d": d, "Nt": Nt, "dt": dt, "H": H, "omega": None, "jumps": [], "rates": [],
         "Ks": [], "w": None}
    if case.get("rwa", "off") != "off":
        m["omega"] = block_means(H, RWA_BLOCKS[case["rwa"]])
    gen = case.get("gen", "none")
    if gen != "none":
        Ks = parse_gen(gen, d)
        for k, K in enumerate(Ks):
            r = 0.0 if gen == "Z" else JUMP_C[k % len(JUMP_C)] / T
            m["jumps"].append((r, K))
            m["rates"].append(r)
            m["Ks"].append(K)
    pd = case.get("pdeph", "none")
    if pd == "Lorentzian":
        m["w"] = numpy.array(DEPH_L[:d]) / T
    elif pd == "Gaussian":
        m["w"] = numpy.array(DEPH_G[:d]) / T ** 2
    return m


def rwa_admissible(case):
    """RWA cases are in the product only when the rotating-frame calculation is EXACTLY the
    laboratory dynamics seen from the rotating frame: [L, ad_Omega] = 0 (decided by the
    reference model; true when H has no coupling between RWA blocks and every jump operator
    is an eigen-operator of ad_Omega)."""
    if case.get("rwa", "off") == "off":
        return True
    if case["rwa"] == "ge2" and case["dim"] < 4:
        return False
    m = model(case)
    Lv = G.liouvillian(m["H"], m["jumps"])
    return G.commutes_with_rotation(Lv, m["omega"])


def _deph_B(m):
    """Dephasing super-operator of a model: site rates m["w"] (GKSL dissipator of the site
    projectors) or, for the dephasing-history cases, an explicit rate matrix m["gamma"]."""
    if m.get("gamma") is not None:
        return G.dephasing_generator(m["gamma"])
    return G.dissipator(G.dephasing_jumps(m["w"]), m["d"])


def reference(case, m, vecs0, norms0):
    """Bounds and exact states in the frame the library propagates in (rotating if rwa).
    Returns dict(b (Nt,), exact (Nt, d^2, nstates), ref_err, lab_exact or None)."""
    d, Nt, dt = m["d"], m["Nt"], m["dt"]
    nref, order = case["nref"], case["order"]
    h = dt / nref
    nsub = (Nt - 1) * nref
    Hf = m["H"] - (numpy.diag(m["omega"]) if m["omega"] is not None else 0.0)
    A = G.liouvillian(Hf, m["jumps"])
    if not G.is_gksl_trace_preserving(A, d):
        raise isolation.HarnessError("reference generator is not trace preserving")
    pd = case.get("pdeph", "none")
    out = {"ref_err": 0.0}
    if pd == "Gaussian":
        B = _deph_B(m)
        R = G.gaussian_reference(A, B, order, h, nsub, nref, 0.0, vecs0, d, m=4)
        out.update(b=R["bound"], exact=R["exact"], ref_err=10.0 * R["ref_err"])
    else:
        if pd == "Lorentzian":
            B = _deph_B(m)
            bd = numpy.real(numpy.diag(B))
            S = numpy.exp(bd * h)[:, None] * G.taylor(A * h, order)
            Lfull = A + B
        else:
            S = G.taylor(A * h, order)
            Lfull = A
        E = expm(Lfull * h)
        b, _ = G.bound_constant(S, E, nsub, nref)
        Est = expm(Lfull * dt)
        if not G.check_semigroup(Lfull, Est, dt, Nt):
            raise isolation.HarnessError("reference semigroup inconsistent")
        out.update(b=b, exact=G.exact_states_constant(Est, vecs0, Nt))
    return out


def lab_exact(case, m, ref, vecs0):
    """Exact states of an admissible rotating-frame case in the LABORATORY frame, array
    (Nt, d^2, nstates), and the reference's own error allowance.

    Constant generators: powers of expm(L_lab dt) with the laboratory Liouvillian (Hamiltonian
    without the frame frequencies), independent of the rotating-frame reference; the two references
    must be the same dynamics seen from two frames (harness self-test, this is what admissibility
    [L, ad_Omega] = 0 means).  Gaussian dephasing: the rotating-frame reference (Magnus) carried
    to the laboratory frame, rho(t) = e^{-i Om t} rho_rot(t) e^{+i Om t} (the dephasing
    dissipator is diagonal in the matrix-unit basis and commutes with the rotation)."""
    d, Nt, dt = m["d"], m["Nt"], m["dt"]
    rot = ref["exact"]
    carried = numpy.zeros_like(rot)
    for i in range(Nt):
        for k in range(rot.shape[2]):
            carried[i, :, k] = G.to_lab(rot[i, :, k].reshape(d, d), m["omega"], i * dt).reshape(-1)
    pd = case.get("pdeph", "none")
    if pd == "Gaussian":
        return carried, ref["ref_err"]
    Llab = G.liouvillian(m["H"], m["jumps"])
    if pd == "Lorentzian":
        Llab = Llab + _deph_B(m)
    Est = expm(Llab * dt)
    if not G.check_semigroup(Llab, Est, dt, Nt):
        raise isolation.HarnessError("laboratory reference semigroup inconsistent")
    direct = G.exact_states_constant(Est, vecs0, Nt)
    if float(numpy.max(numpy.abs(direct - carried))) > 1e-9:
        raise isolation.HarnessError("laboratory-frame and rotating-frame references disagree "
                                     "for an admissible RWA case")
    return direct, 0.0


# ---------------------------------------------------------------------------------------------
# library side
# ---------------------------------------------------------------------------------------------
def lib_hamiltonian(m, case, rwa=True):
    qr = isolation.qr()
    ham = qr.Hamiltonian(data=numpy.array(m["H"], dtype=float))
    if rwa and case.get("rwa", "off") != "off":
        with _ctx(case, "set"):
            ham.set_rwa(list(RWA_BLOCKS[case["rwa"]]))
    return ham


def lib_lindblad(m, case, ham):
    with _ctx(case, "build"):
        return _lib_lindblad(m, case, ham)


def _lib_lindblad(m, case, ham):
    from quantarhei.qm import SystemBathInteraction, Operator, LindbladForm
    ops = [Operator(data=numpy.array(K, dtype=float)) for K in m["Ks"]]
    sbi = SystemBathInteraction(ops, rates=list(m["rates"]))
    form = case["form"]
    if form == "operators":
        return LindbladForm(ham, sbi, as_operators=True)
    if form == "tensor":
        return LindbladForm(ham, sbi, as_operators=False)
    if form == "converted":
        lf = LindbladForm(ham, sbi, as_operators=True)
        lf.convert_2_tensor()
        return lf
    raise isolation.HarnessError("form " + str(form))


def lib_pdeph(m, case):
    from quantarhei.qm import PureDephasing
    if case.get("pdeph", "none") == "none":
        return None
    with _ctx(case, "build"):
        return PureDephasing(G.dephasing_rate_matrix(m["w"]), dtype=case["pdeph"])


def propagate_dm(case, ta, ham, rho0, tensor=None, pdeph=None):
    """One propagation on a FRESH propagator (Nref is a sticky setting of the object)."""
    from quantarhei.qm import ReducedDensityMatrixPropagator, ReducedDensityMatrix
    kw = {}
    if tensor is not None:
        kw["RTensor"] = tensor
    if pdeph is not None:
        kw["PDeph"] = pdeph
    with _ctx(case, "build"):
        pr = ReducedDensityMatrixPropagator(ta, ham, **kw)
    rho = ReducedDensityMatrix(data=numpy.array(rho0, dtype=complex))
    with _ctx(case, "prop"), _bctx(case, ham):
        ev = pr.propagate(rho, method="short-exp-%d" % case["order"], Nref=case["nref"])
    return ev


def from_rwa(case, ev, ham):
    """convert_from_RWA at the call site 'conv'."""
    with _ctx(case, "conv"):
        ev.convert_from_RWA(ham)


def to_rwa(case, ev, ham):
    """convert_to_RWA (the other direction of the conversion) at the call site 'conv'."""
    with _ctx(case, "conv"):
        ev.convert_to_RWA(ham)


def _maxdev(a, b):
    """max |a - b| per stored index (inf for shape mismatch / non-finite data)."""
    a, b = numpy.asarray(a), numpy.asarray(b)
    if a.shape != b.shape or not numpy.all(numpy.isfinite(a)):
        return numpy.array([numpy.inf])
    return numpy.max(numpy.abs((a - b).reshape(a.shape[0], -1)), axis=1)


def check_round_trip(book, case, kind, tag, lab, ev, ham, raw, conv):
    """Conversion direction, on an evolution object that was computed in the rotating frame
    (data raw) and has been converted to the laboratory frame (data conv): convert_to_RWA takes
    it back to the rotating-frame data, sets the flag, a second convert_to_RWA does nothing, and
    convert_from_RWA gives the laboratory-frame data again (all class R: the conversions are
    multiplications by phase factors of modulus one)."""
    sc = max(1.0, float(numpy.max(numpy.abs(raw))))
    to_rwa(case, ev, ham)
    if not bool(getattr(ev, "is_in_rwa", False)):
        book.check("rwa-direction", "rwa/%s/to-rwa/flag-not-set/%s" % (kind, tag), [1.0], 0.0,
                   "evolution converted by convert_to_RWA is not flagged is_in_rwa")
    book.check("rwa-direction", "rwa/%s/round-trip/from-then-to-not-identity/%s" % (kind, tag),
               _maxdev(numpy.array(ev.data), raw), RTOL * sc,
               "rotating-frame evolution after convert_from_RWA followed by convert_to_RWA "
               "differs from the rotating-frame data it started from (state %s)" % lab,
               {"state": lab})
    to_rwa(case, ev, ham)
    book.check("rwa-direction", "rwa/%s/to-rwa/applied-twice/%s" % (kind, tag),
               _maxdev(numpy.array(ev.data), raw), RTOL * sc,
               "convert_to_RWA on an evolution that is already in the rotating frame changed "
               "its data (state %s)" % lab, {"state": lab})
    from_rwa(case, ev, ham)
    if bool(getattr(ev, "is_in_rwa", False)):
        book.check("rwa-direction", "rwa/%s/round-trip/flag-still-set/%s" % (kind, tag), [1.0], 0.0,
                   "evolution converted to the rotating frame and back by convert_from_RWA is "
                   "still flagged is_in_rwa")
    book.check("rwa-direction", "rwa/%s/round-trip/from-to-from-differs/%s" % (kind, tag),
               _maxdev(numpy.array(ev.data), conv), RTOL * sc,
               "laboratory-frame data after convert_to_RWA followed by convert_from_RWA differ "
               "from the laboratory-frame data before (state %s)" % lab, {"state": lab})


def propagate_sv(case, ta, ham, psi0):
    from quantarhei import StateVector, StateVectorPropagator
    with _ctx(case, "build"):
        pr = StateVectorPropagator(ta, ham)
        if case["nref"] > 1:
            pr.setDtRefinement(case["nref"])
    psi = StateVector(data=numpy.array(psi0, dtype=complex))
    with _ctx(case, "prop"), _bctx(case, ham):
        sev = pr.propagate(psi, L=case["order"])
    return sev


def sv_routes(sev, which=SV_ROUTES):
    """Every public route from a state-vector evolution to density matrices.  Returns
    ({route: array (Nt, d, d)}, the derived DensityMatrixEvolution object, rho of the stored
    initial StateVector)."""
    from quantarhei import StateVector
    sd = numpy.array(sev.data, copy=True)
    nt, d = sd.shape
    dme = sev.get_DensityMatrixEvolution()
    out = {"evolution": numpy.array(dme.data, copy=True)}
    if "statevector" in which:
        arr = numpy.zeros((nt, d, d), dtype=complex)
        for i in range(nt):
            arr[i] = StateVector(data=numpy.array(sd[i], dtype=complex)).get_DensityMatrix().data
        out["statevector"] = arr
    ini = numpy.array(sev.psi_i.get_DensityMatrix().data, copy=True)
    return out, dme, ini


def check_sv_routes(book, tag, lab, routes, svdata, dmref, tol_T, tol_norm, inform_T):
    """routes[r][i] must be |psi_i><psi_i| of the stored vectors svdata[i] (class R, every stored
    index), Hermitian (class R), of trace one within the norm bound, and agree with the
    density-matrix propagation dmref within the sum of both truncation bounds (zero at index 0)."""
    proj = numpy.einsum("ti,tj->tij", svdata, svdata.conj())
    sc = max(1.0, float(numpy.max(numpy.abs(proj))))
    for r in SV_ROUTES:
        if r not in routes:
            continue
        arr = numpy.asarray(routes[r])
        if arr.shape != proj.shape or not numpy.all(numpy.isfinite(arr)):
            book.check("sv-route", "sv-route/%s/not-psi-psi-dagger/%s" % (r, tag), [numpy.inf],
                       RTOL, "density matrices derived from a state-vector evolution (route %s) "
                       "have shape %r / non-finite entries (state %s)" % (r, arr.shape, lab),
                       {"state": lab})
            continue
        book.check("sv-route", "sv-route/%s/not-psi-psi-dagger/%s" % (r, tag),
                   numpy.max(numpy.abs(arr - proj), axis=(1, 2)), RTOL * sc,
                   "density matrix derived from the state-vector evolution (route %s) is not "
                   "|psi><psi| of the stored state vector (state %s)" % (r, lab), {"state": lab})
        he = numpy.max(numpy.abs(arr - numpy.conj(numpy.transpose(arr, (0, 2, 1)))), axis=(1, 2))
        book.check("hermiticity", "hermiticity/%s/sv-route=%s" % (tag, r), he, RTOL * sc,
                   "density matrix derived from the state-vector evolution (route %s) is not "
                   "Hermitian (state %s)" % (r, lab), {"state": lab})
        tr = numpy.abs(numpy.trace(arr, axis1=1, axis2=2) - 1.0)
        book.check("trace", "trace/%s/sv-route=%s" % (tag, r), tr, tol_norm,
                   "trace of the density matrix derived from the state-vector evolution (route "
                   "%s) differs from 1 by more than the norm bound (state %s)" % (r, lab),
                   {"state": lab}, informative=inform_T)
        book.check("sv-vs-dm", "sv-vs-dm/%s/sv-route=%s" % (tag, r), _fro(arr - dmref), tol_T,
                   "density matrix derived from the state-vector evolution (route %s) differs "
                   "from the density-matrix propagator by more than the sum of both truncation "
                   "bounds (state %s)" % (r, lab), {"state": lab}, informative=inform_T)


# ---------------------------------------------------------------------------------------------
# clause bookkeeping
# ---------------------------------------------------------------------------------------------
class Book:
    """Keeps, per violation key, the worst offender; per clause the worst usage of the
    allowed deviation (err/tol) and the worst absolute deviation on this case."""

    def __init__(self, prefix=""):
        self.v = {}
        self.worst = {}
        self.prefix = prefix

    def check(self, clause, key, err, tol, what, details=None, informative=True):
        key = self.prefix + key
        err = numpy.asarray(err, dtype=float)
        tol = numpy.asarray(tol, dtype=float) * numpy.ones_like(err)
        bad = ~(err <= tol)             # NaN counts as bad
        with numpy.errstate(divide="ignore", invalid="ignore"):
            use = numpy.where(tol > 0, err / tol, numpy.inf)
        use = numpy.where(numpy.isfinite(err), use, numpy.inf)
        i = int(numpy.argmax(use)) if use.size else 0
        u = float(use.reshape(-1)[i]) if use.size else 0.0
        e = float(numpy.nanmax(err)) if err.size and not numpy.all(numpy.isnan(err)) else float("nan")
        if informative:
            w = self.worst.setdefault(clause, [0.0, 0.0])
            w[0] = max(w[0], u if numpy.isfinite(u) else 1e300)
            w[1] = max(w[1], e if numpy.isfinite(e) else 1e300)
        if numpy.any(bad):
            old = self.v.get(key)
            if old is None or u > old[0]:
                det = {"time_index": i, "deviation": float(err.reshape(-1)[i]),
                       "allowed": float(tol.reshape(-1)[i])}
                det.update(details or {})
                self.v[key] = (u, "%s: deviation %.3g > allowed %.3g at stored index %d"
                               % (what, det["deviation"], det["allowed"], i), det)

    def violations(self):
        return [(k, v[1], v[2]) for k, v in sorted(self.v.items())]


def _validity(book, tag, lab, D):
    """Class R: trace one and Hermiticity at every stored time."""
    D = numpy.asarray(D)
    if not numpy.all(numpy.isfinite(D)):
        book.check("trace", "trace/" + tag, [numpy.inf], RTOL, "non-finite density matrix "
                   "(initial state %s)" % lab, {"state": lab})
        return
    sc = max(1.0, float(numpy.max(numpy.abs(D))))
    tr = numpy.abs(numpy.trace(D, axis1=1, axis2=2) - 1.0)
    he = numpy.max(numpy.abs(D - numpy.conj(numpy.transpose(D, (0, 2, 1)))), axis=(1, 2))
    book.check("trace", "trace/" + tag, tr, RTOL * sc,
               "trace of the stored state differs from 1 (initial state %s)" % lab, {"state": lab})
    book.check("hermiticity", "hermiticity/" + tag, he, RTOL * sc,
               "stored state is not Hermitian (initial state %s)" % lab, {"state": lab})


def _independent(book, tag, lab, got, base):
    """Class R: data obtained with some calls made inside a units context equal the data of the
    same calls made outside any context."""
    got, base = numpy.asarray(got), numpy.asarray(base)
    if got.shape != base.shape or not numpy.all(numpy.isfinite(got)) \
            or not numpy.all(numpy.isfinite(base)):
        err = [numpy.inf]
        sc = 1.0
    else:
        err = numpy.max(numpy.abs((got - base).reshape(got.shape[0], -1)), axis=1)
        sc = max(1.0, float(numpy.max(numpy.abs(base))))
    book.check("units-context", "differs-from-calls-outside/" + tag, err, RTOL * sc,
               "result of calls made inside a units context differs from the result of the same "
               "calls made outside (initial state %s)" % lab, {"state": lab})


def _fro(X):
    X = numpy.asarray(X)
    return numpy.sqrt(numpy.sum(numpy.abs(X.reshape(X.shape[0], -1)) ** 2, axis=1))


def _maxfro(a, b):
    """Frobenius norm of a - b per stored index (inf for a shape mismatch)."""
    a, b = numpy.asarray(a), numpy.asarray(b)
    if a.shape != b.shape:
        return numpy.full(b.shape[0], numpy.inf)
    return _fro(a - b)


def _digest(D):
    D = numpy.asarray(D)
    if not numpy.all(numpy.isfinite(D)):
        return "nonfinite"
    return [round(float(x), 6) for x in numpy.real(numpy.diagonal(D[-1]))] + \
           [round(float(abs(D[-1][0, -1])), 6)]


def _tag(case):
    if case["sec"] == "closed":
        return "closed/rwa=%s" % case["rwa"]
    if case["sec"] == "redfield":
        return "redfield-%s/%s/pdeph=%s/rwa=%s" % ("td" if case["td"] else "ti", case["form"],
                                                     case["pdeph"], case["rwa"])
    return "lindblad/%s/pdeph=%s/rwa=%s" % (case["form"], case.get("pdeph", "none"),
                                              case.get("rwa", "off"))


# ---------------------------------------------------------------------------------------------
# sections
# ---------------------------------------------------------------------------------------------
def _states(case, d):
    labels, psis = G.spanning_states(d)
    rhos = [G.projector(p) for p in psis]
    if not G.spans_hermitian(rhos):
        raise isolation.HarnessError("initial states do not span the Hermitian matrices")
    if case.get("mix"):
        pairs = G.pairwise_mixtures(labels)
        rhos = [0.5 * (rhos[a] + rhos[b]) for a, b in pairs]
        labels = ["%s|%s" % (labels[a], labels[b]) for a, b in pairs]
        psis = None
    return labels, psis, rhos


def eval_closed(case):
    qr = isolation.qr()
    m = model(case)
    d, Nt, dt = m["d"], m["Nt"], m["dt"]
    book = Book(_ctx_prefix(case))
    in_ctx = case.get("ctx_sites", "none") != "none" or case.get("bctx", "none") != "none"
    case0 = _no_ctx(case)
    labels, psis, rhos = _states(case, d)
    if not in_ctx:
        # complex-amplitude state vectors: complete phase family (after the spanning set); the
        # calling-context cases run on the spanning set (every clause they add is linear)
        glabels, gpsis = G.phase_family(d, SV_PHASES, SV_MODULI)
        labels = list(labels) + glabels
        psis = list(psis) + gpsis
        rhos = list(rhos) + [G.projector(p) for p in gpsis]
    vecs0 = [r.reshape(-1) for r in rhos]
    rwa = case["rwa"] != "off"
    tag = _tag(case)
    t0 = float(case.get("t0", 0.0))
    ta = qr.TimeAxis(t0, Nt, dt)
    times = numpy.arange(Nt) * dt
    nref, order = case["nref"], case["order"]
    h = dt / nref

    def _rwa_key(kind, conv_arr, lab_arr, tol, base, sgn=1):
        """A time axis that does not start at zero: the library anchors the rotating frame at the
        absolute time 0 without rotating the initial state, so the converted result is the
        laboratory dynamics conjugated by the constant phase exp(-i Omega t0) (sgn=-1, the
        direction convert_to_RWA: the rotating-frame dynamics conjugated by exp(+i Omega t0)).
        Exactly that signature gets its own key; anything else keeps the generic one."""
        if t0 == 0.0:
            return base
        ph = numpy.exp(-1j * sgn * om * t0)
        if kind == "dm":
            anch = ph[None, :, None] * lab_arr * numpy.conj(ph)[None, None, :]
        else:
            anch = ph[None, :] * lab_arr
        if numpy.all(_fro(conv_arr - anch) <= tol):
            return "rwa/%s/nonzero-axis-start/frame-anchored-at-absolute-time-zero" % kind
        return base + "/nonzero-axis-start"
    nsub = (Nt - 1) * nref

    # reference, frame of the calculation
    ref = reference(case, m, vecs0, None)
    b_dm = ref["b"]
    om = m["omega"] if rwa else numpy.zeros(d)
    Hf = m["H"] - numpy.diag(om)
    Tsv = G.taylor(-1j * Hf * h, order)
    Esv = expm(-1j * Hf * h)
    b_sv, _ = G.bound_constant(Tsv, Esv, nsub, nref)
    Efull = expm(G.liouvillian(Hf) * h)
    b_svdm, _ = G.bound_constant(G.sv_super(Tsv), Efull, nsub, nref)
    Esv_store = expm(-1j * Hf * dt)
    # laboratory frame (needed for the RWA clause)
    if rwa:
        lab_case = dict(case, rwa="off")
        mlab = model(lab_case)
        reflab = reference(lab_case, mlab, vecs0, None)
        Tl = G.taylor(-1j * m["H"] * h, order)
        El = expm(-1j * m["H"] * h)
        b_sv_lab, _ = G.bound_constant(Tl, El, nsub, nref)
        Elab_store = expm(-1j * m["H"] * dt)

    ham = lib_hamiltonian(m, case)
    ham_lab = lib_hamiltonian(m, case, rwa=False) if rwa else None
    ham0 = lib_hamiltonian(m, case0) if in_ctx else None    # same calls outside any context
    Hlab = m["H"]
    hn = float(numpy.linalg.norm(Hlab))
    digest = []
    sv_lab_refused = 0
    for k, lab in enumerate(labels):
        rho0, psi0 = rhos[k], psis[k]
        # ---------------- density matrix -----------------------------------------------
        ev = propagate_dm(case, ta, ham, rho0)
        raw = numpy.array(ev.data, copy=True)
        _validity(book, tag + "/raw", lab, raw)
        book.check("initial-state", "initial-state/dm/%s" % tag, _maxdev(raw[:1], rho0[None]), RTOL,
                   "density matrix stored at index 0 is not the initial density matrix handed to "
                   "propagate (state %s)" % lab, {"state": lab})
        ex = ref["exact"][:, :, k].reshape(Nt, d, d)
        tolT = 2.0 * b_dm + RTOL
        book.check("exact", "exact/%s/dm" % tag, _fro(raw - ex), tolT,
                   "closed-system density matrix differs from exp(-i[H,.]t) rho0 by more than "
                   "the truncation bound (state %s, order %d, Nref %d)" % (lab, order, nref),
                   {"state": lab}, informative=b_dm[-1] <= INFORMATIVE)
        if rwa:
            if not getattr(ev, "is_in_rwa", False):
                book.check("rwa-dm", "rwa/dm/flag-not-set", [1.0], 0.0,
                           "evolution computed with an RWA Hamiltonian is not flagged is_in_rwa")
            from_rwa(case, ev, ham)
            if getattr(ev, "is_in_rwa", False):
                book.check("rwa-dm", "rwa/dm/flag-still-set-after-conversion", [1.0], 0.0,
                           "evolution converted by convert_from_RWA is still flagged is_in_rwa")
            conv = numpy.array(ev.data, copy=True)
            _validity(book, tag + "/converted", lab, conv)
            exlab = reflab["exact"][:, :, k].reshape(Nt, d, d)
            book.check("rwa-dm", _rwa_key("dm", conv, exlab, tolT, "rwa/dm/vs-exact-lab"),
                       _fro(conv - exlab), tolT,
                       "RWA density matrix converted back differs from the exact laboratory-frame "
                       "dynamics (state %s)" % lab, {"state": lab},
                       informative=b_dm[-1] <= INFORMATIVE)
            # history: ONE propagator object survives a re-definition of the rotating-wave blocks
            # of its Hamiltonian (set_rwa called again between two runs)
            if t0 == 0.0 and k < 4:
                for other in RWA_BLOCKS:
                    if other == case["rwa"] or not (other != "one" or d == 2):
                        continue
                    oc = dict(case, rwa=other)
                    if (other == "ge2" and d < 4) or not rwa_admissible(oc):
                        continue
                    from quantarhei.qm import ReducedDensityMatrixPropagator as _P
                    from quantarhei.qm import ReducedDensityMatrix as _R
                    h2 = lib_hamiltonian(m, oc)
                    p2 = _P(ta, h2)
                    p2.propagate(_R(data=numpy.array(rho0, dtype=complex)),
                                 method="short-exp-%d" % order, Nref=nref)
                    with _ctx(case, "set"):
                        h2.set_rwa(list(RWA_BLOCKS[case["rwa"]]))
                    rr2 = _R(data=numpy.array(rho0, dtype=complex))
                    with _ctx(case, "prop"), _bctx(case, h2):
                        e2 = p2.propagate(rr2, method="short-exp-%d" % order, Nref=nref)
                    from_rwa(case, e2, h2)
                    book.check("rwa-dm", "rwa/dm/propagator-reused-after-set_rwa/vs-exact-lab",
                               _fro(numpy.array(e2.data) - exlab), tolT,
                               "a propagator used before and after Hamiltonian.set_rwa(%r -> %r): "
                               "converted result differs from the exact laboratory dynamics "
                               "(state %s)" % (RWA_BLOCKS[other], RWA_BLOCKS[case["rwa"]], lab),
                               {"state": lab}, informative=b_dm[-1] <= INFORMATIVE)
                    break
            evl = propagate_dm(lab_case, ta, ham_lab, rho0)
            labD = numpy.array(evl.data, copy=True)
            _validity(book, "closed/rwa=off/raw", lab, labD)
            tol2 = 2.0 * (b_dm + reflab["b"]) + RTOL
            book.check("rwa-dm", _rwa_key("dm", conv, labD, tol2, "rwa/dm/vs-library-lab"),
                       _fro(conv - labD), tol2,
                       "RWA density matrix converted back differs from the library's own "
                       "laboratory-frame propagation (state %s)" % lab, {"state": lab},
                       informative=(b_dm[-1] + reflab["b"][-1]) <= INFORMATIVE)
            # conversion direction: both round trips on the rotating-frame evolution, then the
            # laboratory-frame propagation taken TO the rotating frame
            check_round_trip(book, case, "dm", tag, lab, ev, ham, raw, conv)
            to_rwa(case, evl, ham)
            if not bool(getattr(evl, "is_in_rwa", False)):
                book.check("rwa-direction", "rwa/dm/to-rwa/flag-not-set/%s/lab-propagation" % tag,
                           [1.0], 0.0, "laboratory-frame evolution converted by convert_to_RWA "
                           "is not flagged is_in_rwa")
            torot = numpy.array(evl.data, copy=True)
            _validity(book, tag + "/lab-to-rwa", lab, torot)
            tolL = 2.0 * reflab["b"] + RTOL
            book.check("rwa-direction", _rwa_key("dm", torot, ex, tolL,
                                                 "rwa/dm/to-rwa/vs-exact-rotating", sgn=-1),
                       _maxfro(torot, ex), tolL,
                       "laboratory-frame density matrix evolution converted by convert_to_RWA "
                       "differs from the exact rotating-frame dynamics (state %s)" % lab,
                       {"state": lab}, informative=reflab["b"][-1] <= INFORMATIVE)
            book.check("rwa-direction", _rwa_key("dm", torot, raw, tol2,
                                                 "rwa/dm/to-rwa/vs-library-rotating", sgn=-1),
                       _maxfro(torot, raw), tol2,
                       "laboratory-frame density matrix evolution converted by convert_to_RWA "
                       "differs from the library's own rotating-frame propagation (state %s)"
                       % lab, {"state": lab},
                       informative=(b_dm[-1] + reflab["b"][-1]) <= INFORMATIVE)
            from_rwa(case, evl, ham)
            book.check("rwa-direction", "rwa/dm/round-trip/to-then-from-not-identity/%s" % tag,
                       _maxdev(numpy.array(evl.data), labD),
                       RTOL * max(1.0, float(numpy.max(numpy.abs(labD)))),
                       "laboratory-frame evolution after convert_to_RWA followed by "
                       "convert_from_RWA differs from the laboratory-frame data it started from "
                       "(state %s)" % lab, {"state": lab})
        else:
            conv = raw
            if getattr(ev, "is_in_rwa", False):
                book.check("rwa-dm", "rwa/dm/flag-set-without-rwa", [1.0], 0.0,
                           "evolution computed with a Hamiltonian without RWA is flagged is_in_rwa")
        if in_ctx:
            ev0 = propagate_dm(case0, ta, ham0, rho0)
            raw0 = numpy.array(ev0.data, copy=True)
            _independent(book, tag + "/dm-raw", lab, raw, raw0)
            if rwa:
                ev0.convert_from_RWA(ham0)
                _independent(book, tag + "/dm-converted", lab, conv, numpy.array(ev0.data))
        # conservation laws (laboratory frame, laboratory Hamiltonian)
        bb = b_dm
        pur = numpy.real(numpy.einsum("tij,tji->t", conv, conv))
        book.check("purity", "conserve/purity/%s" % tag, numpy.abs(pur - 1.0),
                   2.0 * (2.0 * bb + bb ** 2) + RTOL,
                   "purity of a closed system is not conserved (state %s)" % lab, {"state": lab},
                   informative=bb[-1] <= INFORMATIVE)
        en = numpy.real(numpy.einsum("ij,tji->t", Hlab, conv))
        e0 = float(numpy.real(numpy.trace(Hlab @ rho0)))
        book.check("energy", "conserve/energy/%s" % tag, numpy.abs(en - e0),
                   2.0 * hn * bb + RTOL * max(1.0, hn),
                   "energy <H> of a closed system is not conserved (state %s)" % lab,
                   {"state": lab}, informative=bb[-1] <= INFORMATIVE)
        # ---------------- state vector ---------------------------------------------------
        sev = propagate_sv(case, ta, ham, psi0)
        sraw = numpy.array(sev.data, copy=True)
        if in_ctx:
            sev0 = propagate_sv(case0, ta, ham0, psi0)
            _independent(book, tag + "/sv-raw", lab, sraw, numpy.array(sev0.data))
        if not numpy.all(numpy.isfinite(sraw)):
            book.check("norm", "conserve/norm/sv/%s" % tag, [numpy.inf], RTOL,
                       "non-finite state vector")
            continue
        book.check("initial-state", "initial-state/sv/%s" % tag,
                   _maxdev(sraw[:1], numpy.asarray(psi0)[None]), RTOL,
                   "state vector stored at index 0 is not the initial state vector handed to "
                   "propagate (state %s)" % lab, {"state": lab})
        nrm = numpy.real(numpy.sum(numpy.abs(sraw) ** 2, axis=1))
        book.check("norm", "conserve/norm/sv/%s" % tag, numpy.abs(nrm - 1.0),
                   2.0 * (2.0 * b_sv + b_sv ** 2) + RTOL,
                   "norm of the state vector is not conserved (state %s)" % lab, {"state": lab},
                   informative=b_sv[-1] <= INFORMATIVE)
        psi_ex = numpy.zeros((Nt, d), dtype=complex)
        psi_ex[0] = psi0
        for i in range(1, Nt):
            psi_ex[i] = Esv_store @ psi_ex[i - 1]
        book.check("exact", "exact/%s/sv" % tag, _fro(sraw - psi_ex), 2.0 * b_sv + RTOL,
                   "state vector differs from exp(-iHt) psi0 by more than the truncation bound "
                   "(state %s, order %d, Nref %d)" % (lab, order, nref), {"state": lab},
                   informative=b_sv[-1] <= INFORMATIVE)
        proj = numpy.einsum("ti,tj->tij", sraw, sraw.conj())
        book.check("sv-vs-dm", "sv-vs-dm/%s" % tag, _fro(proj - raw),
                   2.0 * (b_svdm + b_dm) + RTOL,
                   "|psi><psi| of the state-vector propagator differs from the density-matrix "
                   "propagator by more than the sum of both truncation bounds (state %s)" % lab,
                   {"state": lab}, informative=(b_svdm[-1] + b_dm[-1]) <= INFORMATIVE)
        # every public route state-vector evolution -> density matrices, frame of the calculation
        tol_route = 2.0 * (b_svdm + b_dm) + RTOL
        tol_norm = 2.0 * (2.0 * b_sv + b_sv ** 2) + RTOL
        inf_route = bool((b_svdm[-1] + b_dm[-1]) <= INFORMATIVE)
        routes, dme, ini = sv_routes(sev)
        check_sv_routes(book, tag + "/raw", lab, routes, sraw, raw, tol_route, tol_norm, inf_route)
        book.check("sv-route", "sv-route/initial-statevector/not-psi-psi-dagger/%s" % tag,
                   [float(numpy.max(numpy.abs(ini - rho0)))] if ini.shape == rho0.shape
                   else [numpy.inf], RTOL,
                   "get_DensityMatrix() of the initial StateVector kept by the evolution is not "
                   "|psi0><psi0| (state %s)" % lab, {"state": lab})
        if rwa:
            try:
                flagged = bool(sev.is_in_rwa)
            except AttributeError:
                flagged = False
            if not flagged:
                book.check("rwa-sv", "rwa/sv/flag-not-set", [1.0], 0.0,
                           "state-vector evolution computed with an RWA Hamiltonian is not "
                           "flagged is_in_rwa")
            # the density-matrix evolution derived from a rotating-frame state-vector evolution
            # holds rotating-frame data: it has to say so, and convert back like the original
            if flagged:
                if not bool(getattr(dme, "is_in_rwa", False)):
                    book.check("rwa-sv", "rwa/sv-derived-dm/flag-not-carried-over", [1.0], 0.0,
                               "get_DensityMatrixEvolution() of a state-vector evolution that "
                               "is_in_rwa returns rotating-frame data flagged is_in_rwa=False "
                               "(convert_from_RWA on it silently does nothing)")
                else:
                    from_rwa(case, dme, ham)
                    book.check("rwa-sv", "rwa/sv-derived-dm/vs-library-converted",
                               _fro(numpy.array(dme.data) - conv), tol_route,
                               "density-matrix evolution derived from an RWA state-vector "
                               "evolution and converted by convert_from_RWA differs from the "
                               "converted density-matrix propagation (state %s)" % lab,
                               {"state": lab}, informative=inf_route)
            from_rwa(case, sev, ham)
            sconv = numpy.array(sev.data, copy=True)
            if in_ctx:
                sev0.convert_from_RWA(ham0)
                _independent(book, tag + "/sv-converted", lab, sconv, numpy.array(sev0.data))
            # the evolution object again after its conversion to the laboratory frame (the route
            # through StateVector is a stateless function of one stored vector: done above on
            # every stored vector of the calculation)
            routes, _, _ = sv_routes(sev, which=("evolution",))
            check_sv_routes(book, tag + "/converted", lab, routes, sconv, conv, tol_route,
                            tol_norm, inf_route)
            psi_lab = numpy.zeros((Nt, d), dtype=complex)
            psi_lab[0] = psi0
            for i in range(1, Nt):
                psi_lab[i] = Elab_store @ psi_lab[i - 1]
            book.check("rwa-sv", _rwa_key("sv", sconv, psi_lab, 2.0 * b_sv + RTOL,
                                          "rwa/sv/vs-exact-lab"), _fro(sconv - psi_lab),
                       2.0 * b_sv + RTOL,
                       "RWA state vector converted back by convert_from_RWA differs from the exact "
                       "laboratory-frame dynamics (state %s)" % lab, {"state": lab},
                       informative=b_sv[-1] <= INFORMATIVE)
            sl = propagate_sv(lab_case, ta, ham_lab, psi0)
            slab = numpy.array(sl.data, copy=True)
            book.check("rwa-sv", _rwa_key("sv", sconv, slab, 2.0 * (b_sv + b_sv_lab) + RTOL,
                                          "rwa/sv/vs-library-lab"), _fro(sconv - slab),
                       2.0 * (b_sv + b_sv_lab) + RTOL,
                       "RWA state vector converted back differs from the library's own "
                       "laboratory-frame propagation (state %s)" % lab, {"state": lab},
                       informative=(b_sv[-1] + b_sv_lab[-1]) <= INFORMATIVE)
            # conversion direction, state vectors
            check_round_trip(book, case, "sv", tag, lab, sev, ham, sraw, sconv)
            if not hasattr(sl, "is_in_rwa"):
                # a laboratory-frame StateVectorEvolution without a frame flag (trees before
                # /repo a959609): its convert_to_RWA refuses with AttributeError; counted
                sv_lab_refused += 1
            else:
                to_rwa(case, sl, ham)
                if not bool(sl.is_in_rwa):
                    book.check("rwa-direction", "rwa/sv/to-rwa/flag-not-set/%s/lab-propagation"
                               % tag, [1.0], 0.0, "laboratory-frame state-vector evolution "
                               "converted by convert_to_RWA is not flagged is_in_rwa")
                storot = numpy.array(sl.data, copy=True)
                tolS = 2.0 * b_sv_lab + RTOL
                book.check("rwa-direction", _rwa_key("sv", storot, psi_ex, tolS,
                                                     "rwa/sv/to-rwa/vs-exact-rotating", sgn=-1),
                           _maxfro(storot, psi_ex), tolS,
                           "laboratory-frame state-vector evolution converted by convert_to_RWA "
                           "differs from the exact rotating-frame dynamics (state %s)" % lab,
                           {"state": lab}, informative=b_sv_lab[-1] <= INFORMATIVE)
                tolS2 = 2.0 * (b_sv + b_sv_lab) + RTOL
                book.check("rwa-direction", _rwa_key("sv", storot, sraw, tolS2,
                                                     "rwa/sv/to-rwa/vs-library-rotating", sgn=-1),
                           _maxfro(storot, sraw), tolS2,
                           "laboratory-frame state-vector evolution converted by convert_to_RWA "
                           "differs from the library's own rotating-frame propagation (state %s)"
                           % lab, {"state": lab},
                           informative=(b_sv[-1] + b_sv_lab[-1]) <= INFORMATIVE)
                from_rwa(case, sl, ham)
                book.check("rwa-direction", "rwa/sv/round-trip/to-then-from-not-identity/%s" % tag,
                           _maxdev(numpy.array(sl.data), slab), RTOL,
                           "laboratory-frame state-vector evolution after convert_to_RWA followed "
                           "by convert_from_RWA differs from the data it started from (state %s)"
                           % lab, {"state": lab})
        if k < 3:
            digest.append(_digest(conv))
    coupled = bool(numpy.max(numpy.abs(Hlab - numpy.diag(numpy.diag(Hlab)))) > 0)
    distinct = len(set(numpy.round(numpy.diag(Hlab), 12))) >= 2
    nontrivial = (coupled or distinct) and bool(b_dm[-1] <= INFORMATIVE)
    return {"nontrivial": nontrivial,
            "outcome": [tag, digest, "%.2e" % b_dm[-1]],
            # propagations (dm, sv [, lab dm, lab sv]) + route evaluations (raw [, converted])
            "violations": book.violations(),
            "n": len(labels) * ((6 if rwa else 3) + (2 if in_ctx else 0)) - 1,
            "info": {"worst": book.worst, "sec": "closed", "informative": nontrivial,
                     "sv_lab_to_rwa_refused": sv_lab_refused, "bctx": case.get("bctx", "none")}}


UNBUILDABLE = (
    ("no attribute 'RelaxationTensor'", "pure-dephasing-without-relaxation-tensor"),
    ("Cannot be secularized in an opeator form", "td-operator-form-secular"),
    ("Incompatible number of refinement steps", "td-refinement-does-not-divide"),
)


def _unbuildable(e):
    s = str(e)
    for pat, name in UNBUILDABLE:
        if pat in s:
            return name
    return None


def eval_lindblad(case):
    """Sections lindblad / deph (and their mix variants)."""
    qr = isolation.qr()
    m = model(case)
    d, Nt, dt = m["d"], m["Nt"], m["dt"]
    book = Book(_ctx_prefix(case))
    in_ctx = case.get("ctx_sites", "none") != "none"
    case0 = _no_ctx(case)
    labels, psis, rhos = _states(case, d)
    vecs0 = [r.reshape(-1) for r in rhos]
    rwa = case.get("rwa", "off") != "off"
    tag = _tag(case)
    ta = qr.TimeAxis(0.0, Nt, dt)
    ham = lib_hamiltonian(m, case)
    pde = lib_pdeph(m, case)
    if case["gen"] == "none":
        # pure dephasing alone: the propagator accepts it but cannot propagate
        try:
            propagate_dm(case, ta, ham, rhos[0], tensor=None, pdeph=pde)
        except AttributeError as e:
            name = _unbuildable(e)
            if name is None:
                raise
            return {"nontrivial": False, "outcome": "unbuildable:" + name, "violations": [],
                    "info": {"unbuildable": name, "sec": case["sec"]}}
        raise isolation.HarnessError("pure dephasing without tensor became buildable: "
                                     "extend the driver")
    tensor = lib_lindblad(m, case, ham)
    if in_ctx:                      # the same objects from calls made outside any context
        ham0 = lib_hamiltonian(m, case0)
        pde0 = lib_pdeph(m, case0)
        tensor0 = lib_lindblad(m, case0, ham0)
    ref = reference(case, m, vecs0, None)
    b = ref["b"]
    inform = bool(b[-1] <= INFORMATIVE)
    if rwa:
        exlab_all, lab_err = lab_exact(case, m, ref, vecs0)
    digest = []
    for k, lab in enumerate(labels):
        rho0 = rhos[k]
        n0 = float(numpy.linalg.norm(rho0))
        ev = propagate_dm(case, ta, ham, rho0, tensor=tensor, pdeph=pde)
        raw = numpy.array(ev.data, copy=True)
        _validity(book, tag + "/raw", lab, raw)
        flagged = bool(getattr(ev, "is_in_rwa", False))
        if rwa and not flagged:
            book.check("rwa-flag", "rwa/flag-not-set/%s" % tag, [1.0], 0.0,
                       "evolution computed with an RWA Hamiltonian is not flagged is_in_rwa "
                       "(convert_from_RWA on it silently does nothing)")
        if flagged and not rwa:
            book.check("rwa-flag", "rwa/flag-set-without-rwa/%s" % tag, [1.0], 0.0,
                       "evolution computed with a Hamiltonian without RWA is flagged is_in_rwa")
        if in_ctx:
            ev0 = propagate_dm(case0, ta, ham0, rho0, tensor=tensor0, pdeph=pde0)
            _independent(book, tag + "/dm-raw", lab, raw, numpy.array(ev0.data))
        if not numpy.all(numpy.isfinite(raw)):
            continue
        tolT = 2.0 * b * n0 + RTOL + ref["ref_err"]
        ex = ref["exact"][:, :, k].reshape(Nt, d, d)
        book.check("exact", "exact/%s" % tag, _fro(raw - ex), tolT,
                   "stored states differ from exp(L t) rho0 of the GKSL generator by more than "
                   "the truncation bound (state %s, order %d, Nref %d, generator %s)"
                   % (lab, case["order"], case["nref"], case["gen"]), {"state": lab},
                   informative=inform)
        if rwa:
            from_rwa(case, ev, ham)
            if getattr(ev, "is_in_rwa", False):
                book.check("rwa-flag", "rwa/flag-still-set-after-conversion/%s" % tag, [1.0], 0.0,
                           "evolution converted by convert_from_RWA is still flagged is_in_rwa")
            conv = numpy.array(ev.data, copy=True)
            _validity(book, tag + "/converted", lab, conv)
            if in_ctx:
                ev0.convert_from_RWA(ham0)
                _independent(book, tag + "/dm-converted", lab, conv, numpy.array(ev0.data))
            # the clause "agree with the exact exponential of the GKSL generator" on the result
            # in the laboratory frame (conversion is unitary: same bound as in the rotating frame)
            exl = exlab_all[:, :, k].reshape(Nt, d, d)
            book.check("rwa-exact-lab", "rwa/vs-exact-lab/%s" % tag, _fro(conv - exl),
                       tolT + lab_err,
                       "rotating-frame dynamics converted back by convert_from_RWA differ from "
                       "exp(L t) rho0 of the laboratory-frame GKSL generator by more than the "
                       "truncation bound (state %s, order %d, Nref %d, generator %s)"
                       % (lab, case["order"], case["nref"], case["gen"]), {"state": lab},
                       informative=inform)
            # conversion direction: convert_to_RWA / convert_from_RWA are inverse to each other
            check_round_trip(book, case, "dm", tag, lab, ev, ham, raw, conv)
        else:
            conv = raw
        mine = numpy.array([G.min_eigenvalue(x) for x in conv])
        book.check("positivity", "positivity/%s" % tag, numpy.maximum(-mine, 0.0), tolT,
                   "stored state has a negative eigenvalue beyond the truncation bound "
                   "(state %s, order %d, Nref %d, generator %s)"
                   % (lab, case["order"], case["nref"], case["gen"]), {"state": lab},
                   informative=inform)
        if k < 3:
            digest.append(_digest(conv))
    has_gen = any(r > 0 for r in m["rates"]) or m["w"] is not None
    nontrivial = has_gen and inform
    return {"nontrivial": nontrivial,
            "outcome": [tag, case["gen"], digest, "%.2e" % b[-1]],
            "violations": book.violations(), "n": len(labels) * (2 if in_ctx else 1) - 1,
            "info": {"worst": book.worst, "sec": case["sec"], "informative": nontrivial}}


REDFIELD_SYS = {
    # energies (1/cm), chain coupling J (1/cm); "low": small transition energies, laboratory
    # frame; "optical": optical transition energies, rotating frame (set_rwa([0,1]))
    2: {"low": [150.0, 300.0], "optical": [12000.0, 12150.0]},
    3: {"low": [150.0, 300.0, 210.0], "optical": [12000.0, 12150.0, 12060.0]},
}


def eval_redfield(case):
    qr = isolation.qr()
    from quantarhei.qm import RedfieldRelaxationTensor, TDRedfieldRelaxationTensor, PureDephasing
    n = case["nsites"]
    d = n + 1
    Nt, dt = case["axis"]
    book = Book(_ctx_prefix(case))
    in_ctx = case.get("ctx_sites", "none") != "none"
    case0 = _no_ctx(case)
    tag = _tag(case)
    en = REDFIELD_SYS[n]["optical" if case["rwa"] == "ge" else "low"]
    J = systems.chain_J(n, 60.0) if n == 2 else systems.full_J(n, [60.0, -40.0, 25.0])
    bath = {"reorg": 30.0, "cortime": 60.0, "T": 300.0}
    cls = TDRedfieldRelaxationTensor if case["td"] else RedfieldRelaxationTensor
    form = case["form"]
    T = (Nt - 1) * dt

    def build(c):
        """Hamiltonian (+ set_rwa), relaxation tensor and pure dephasing; the calls the case
        names are made inside its units context."""
        tb = qr.TimeAxis(0.0, 10 * Nt, dt / 10.0) if c["td"] else qr.TimeAxis(0.0, 300, 1.0)
        ham, sbi = systems.ham_sbi(en, J, bath, tb)
        if c["rwa"] == "ge":
            with _ctx(c, "set"):
                ham.set_rwa([0, 1])
        with _ctx(c, "build"):
            if form == "operators":
                RT = cls(ham, sbi, as_operators=True)
            elif form == "tensor":
                RT = cls(ham, sbi, as_operators=False)
            elif form == "secular":
                RT = cls(ham, sbi, as_operators=False)
                RT.secularize()
            elif form == "operators-secular":
                RT = cls(ham, sbi, as_operators=True)
                RT.secularize()
            else:
                raise isolation.HarnessError(form)
            pde = None
            if c["pdeph"] == "Lorentzian":
                pde = PureDephasing(G.dephasing_rate_matrix(numpy.array(DEPH_L[:d]) / T),
                                    dtype="Lorentzian")
            elif c["pdeph"] == "Gaussian":
                pde = PureDephasing(G.dephasing_rate_matrix(numpy.array(DEPH_G[:d]) / T ** 2),
                                    dtype="Gaussian")
        return ham, RT, pde
    try:
        ham, RT, pde = build(case)
        if in_ctx:
            ham0, RT0, pde0 = build(case0)
    except isolation.HarnessError:
        raise
    except Exception as e:
        name = _unbuildable(e)
        if name is None:
            raise
        return {"nontrivial": False, "outcome": "unbuildable:" + name, "violations": [],
                "info": {"unbuildable": name, "sec": "redfield"}}
    ta = qr.TimeAxis(0.0, Nt, dt)
    labels, psis, rhos = _states(case, d)
    digest = []
    for k, lab in enumerate(labels):
        try:
            ev = propagate_dm(case, ta, ham, rhos[k], tensor=RT, pdeph=pde)
        except Exception as e:
            name = _unbuildable(e)
            if name is None:
                raise
            return {"nontrivial": False, "outcome": "unbuildable:" + name, "violations": [],
                    "info": {"unbuildable": name, "sec": "redfield"}}
        raw = numpy.array(ev.data, copy=True)
        _validity(book, tag + "/raw", lab, raw)
        flagged = bool(getattr(ev, "is_in_rwa", False))
        if flagged != (case["rwa"] == "ge"):
            book.check("rwa-flag", "rwa/flag-%s/%s" % ("set-without-rwa" if flagged else "not-set",
                                                        tag), [1.0], 0.0,
                       "evolution computed with%s RWA Hamiltonian is%s flagged is_in_rwa"
                       % ((" a Hamiltonian without", "") if flagged else (" an", " not")))
        if in_ctx:
            ev0 = propagate_dm(case0, ta, ham0, rhos[k], tensor=RT0, pdeph=pde0)
            _independent(book, tag + "/dm-raw", lab, raw, numpy.array(ev0.data))
        if case["rwa"] == "ge":
            from_rwa(case, ev, ham)
            if getattr(ev, "is_in_rwa", False):
                book.check("rwa-flag", "rwa/flag-still-set-after-conversion/%s" % tag, [1.0], 0.0,
                           "evolution converted by convert_from_RWA is still flagged is_in_rwa")
            conv = numpy.array(ev.data, copy=True)
            _validity(book, tag + "/converted", lab, conv)
            if in_ctx:
                ev0.convert_from_RWA(ham0)
                _independent(book, tag + "/dm-converted", lab, conv, numpy.array(ev0.data))
            check_round_trip(book, case, "dm", tag, lab, ev, ham, raw, conv)
        if k in (1, 2, d):
            digest.append(_digest(raw))
    return {"nontrivial": True, "outcome": [tag, n, case["order"], case["nref"], digest],
            "violations": book.violations(), "n": len(labels) * (2 if in_ctx else 1) - 1,
            "info": {"worst": book.worst, "sec": "redfield", "informative": True}}


# ---------------------------------------------------------------------------------------------
# field-driven propagation (Efield= real array sampled on the time axis, Trdip= dipole operator)
# ---------------------------------------------------------------------------------------------
FIELD_KINDS = ("const+", "const-", "zero", "pulse", "step")
FIELD_AMP = 0.10          # |mu E| * dt of the strongest dipole element (dimensionless per step)
FIELD_DIPS = ("ladder", "single")


def field_dipole(d, pattern):
    """Transition dipole operator data (d, d, 3): real symmetric x component between the lowest
    level and the others (the documented convention of the array-field routes: the field is
    x polarised); y and z components vanish."""
    mu = numpy.zeros((d, d, 3))
    if pattern == "ladder":
        for j in range(1, d):
            mu[0, j, 0] = mu[j, 0, 0] = 1.0 / j
    elif pattern == "single":
        mu[0, d - 1, 0] = mu[d - 1, 0, 0] = 1.0
    else:
        raise isolation.HarnessError("dipole pattern " + str(pattern))
    return mu


def field_samples(kind, Nt, dt, amp):
    """Real field sampled at the points of the time axis."""
    i = numpy.arange(Nt, dtype=float)
    if kind == "const+":
        return numpy.full(Nt, amp)
    if kind == "const-":
        return numpy.full(Nt, -0.6 * amp)
    if kind == "zero":
        return numpy.zeros(Nt)
    if kind == "pulse":
        return amp * numpy.exp(-((i - 0.4 * Nt) / (0.12 * Nt)) ** 2)
    if kind == "step":
        return numpy.where(i <= Nt // 2, amp, -0.5 * amp)
    raise isolation.HarnessError("field kind " + str(kind))


def _field_tag(case):
    return "field/%s/%s/field=%s" % (case["gen_kind"], case["form"], case["field"])


def eval_field(case):
    """Section field: ReducedDensityMatrixPropagator(ta, ham, RTensor=..., Efield=array, Trdip=D).
    Every route that is implemented must keep trace and Hermiticity at every stored time
    (class R) for every field; with a Lindblad generator and a field that is constant in time
    the generator is the constant GKSL generator of H - mu_x E (documented x polarisation, sign
    decided by the harness self-test on the unchanged scheme definition: the generator the
    docstring names), so positivity and the exact exponential apply with the usual truncation
    bound; a vanishing field must reproduce the field-free propagation."""
    qr = isolation.qr()
    from quantarhei.qm import ReducedDensityMatrixPropagator, ReducedDensityMatrix
    from quantarhei.qm import TransitionDipoleMoment
    book = Book()
    tag = _field_tag(case)
    Nt, dt = case["axis"]
    order = case["order"]
    kind = case["field"]
    if case["gen_kind"] == "lindblad":
        m = model(case)
        d = m["d"]
        ham = lib_hamiltonian(m, case)
        tensor = _lib_lindblad(m, case, ham)
    else:
        from quantarhei.qm import RedfieldRelaxationTensor, TDRedfieldRelaxationTensor
        n = case["nsites"]
        d = n + 1
        td = case["gen_kind"] == "redfield-td"
        en = REDFIELD_SYS[n]["low"]
        J = systems.chain_J(n, 60.0) if n == 2 else systems.full_J(n, [60.0, -40.0, 25.0])
        bath = {"reorg": 30.0, "cortime": 60.0, "T": 300.0}
        tb = qr.TimeAxis(0.0, 10 * Nt, dt / 10.0) if td else qr.TimeAxis(0.0, 300, 1.0)
        ham, sbi = systems.ham_sbi(en, J, bath, tb)
        cls = TDRedfieldRelaxationTensor if td else RedfieldRelaxationTensor
        tensor = cls(ham, sbi, as_operators=(case["form"] == "operators"))
        m = None
    mu = field_dipole(d, case["dip"])
    amp = FIELD_AMP / dt
    E = field_samples(kind, Nt, dt, amp)
    ta = qr.TimeAxis(0.0, Nt, dt)
    labels, psis, rhos = _states(case, d)
    vecs0 = [r.reshape(-1) for r in rhos]
    ref = None
    if m is not None and kind in ("const+", "const-", "zero"):
        m2 = dict(m)
        m2["H"] = m["H"] - mu[:, :, 0] * E[0]
        ref = reference(case, m2, vecs0, None)
    digest = []
    for k, lab in enumerate(labels):
        rho0 = rhos[k]
        E_in = numpy.array(E, copy=True)
        mu_op = TransitionDipoleMoment(data=numpy.array(mu, copy=True))
        pr = ReducedDensityMatrixPropagator(ta, ham, RTensor=tensor, Efield=E_in, Trdip=mu_op)
        rho = ReducedDensityMatrix(data=numpy.array(rho0, dtype=complex))
        try:
            ev = pr.propagate(rho, method="short-exp-%d" % order, Nref=case["nref"])
        except Exception as e:
            if "refined time-step" in str(e) and case["nref"] != 1:
                return {"nontrivial": False, "outcome": "refused:refinement-with-field",
                        "violations": [], "info": {"unbuildable": "field-refinement-refused",
                                                   "sec": "field"}}
            raise
        if ev is None:
            # route not implemented in the package (stub returning None): nothing is handed out
            return {"nontrivial": False, "outcome": "unimplemented:" + tag, "violations": [],
                    "info": {"unbuildable": "field-route-not-implemented:%s/%s"
                             % (case["gen_kind"], case["form"]), "sec": "field"}}
        raw = numpy.array(ev.data, copy=True)
        _validity(book, tag, lab, raw)
        if not numpy.array_equal(E_in, E):
            book.check("field-input", "field-array-changed/" + tag, [1.0], 0.0,
                       "the field array handed to the propagator was modified by propagate()")
        if not numpy.all(numpy.isfinite(raw)):
            continue
        he0 = float(numpy.max(numpy.abs(raw[0] - rho0)))
        book.check("initial", "initial-state-not-stored/" + tag, [he0], RTOL,
                   "state stored at index 0 differs from the initial state (state %s)" % lab)
        if ref is not None:
            n0 = float(numpy.linalg.norm(rho0))
            b = ref["b"]
            inform = bool(b[-1] <= INFORMATIVE)
            tolT = 2.0 * b * n0 + RTOL
            ex = ref["exact"][:, :, k].reshape(Nt, d, d)
            book.check("field-exact", "exact/" + tag, _fro(raw - ex), tolT,
                       "states propagated under a constant field differ from exp(L t) rho0 of the "
                       "GKSL generator with the Hamiltonian H - mu_x E by more than the truncation "
                       "bound (state %s, order %d, generator %s)" % (lab, order, case["gen"]),
                       {"state": lab}, informative=inform)
            mine = numpy.array([G.min_eigenvalue(x) for x in raw])
            book.check("field-positivity", "positivity/" + tag, numpy.maximum(-mine, 0.0), tolT,
                       "stored state has a negative eigenvalue beyond the truncation bound "
                       "(state %s, order %d, generator %s)" % (lab, order, case["gen"]),
                       {"state": lab}, informative=inform)
            if kind == "zero":
                pr0 = ReducedDensityMatrixPropagator(ta, ham, RTensor=tensor)
                ev0 = pr0.propagate(ReducedDensityMatrix(data=numpy.array(rho0, dtype=complex)),
                                    method="short-exp-%d" % order, Nref=1)
                book.check("field-zero", "zero-field-differs-from-field-free/" + tag,
                           _fro(raw - numpy.array(ev0.data)), 2.0 * tolT,
                           "propagation with a vanishing field differs from the propagation "
                           "without field by more than both truncation allowances (state %s)" % lab,
                           {"state": lab}, informative=inform)
        if k < 3:
            digest.append(_digest(raw))
    inform = True if ref is None else bool(ref["b"][-1] <= INFORMATIVE)
    return {"nontrivial": inform, "outcome": [tag, case.get("gen", case.get("nsites")), order,
                                               case["dip"], digest],
            "violations": book.violations(), "n": len(labels) - 1,
            "info": {"worst": book.worst, "sec": "field", "informative": inform}}


# ---------------------------------------------------------------------------------------------
# history of the pure dephasing of ONE propagator object
# ---------------------------------------------------------------------------------------------
DEPH_TYPES = ("Lorentzian", "Gaussian")
# site rate sets per type ("a" = the sets of the deph section; "b" differs from "a" by O(1)/T
# resp. O(1)/T^2 on every coherence, so that a factor left over from "a" is far above the bound)
DEPH_SETS = {"Lorentzian": {"a": DEPH_L, "b": (0.0, 2.4, 0.4, 2.0)},
             "Gaussian": {"a": DEPH_G, "b": (0.0, 9.0, 1.5, 7.0)}}
# how the dephasing of the propagator is changed between two runs
HIST_HOWS = ("assign", "mutate", "convert")


def hist_settings(rsets=("a", "b")):
    """All dephasing settings [type, rate set]."""
    return [[t, r] for t in DEPH_TYPES for r in rsets]


def hist_steps(hows=HIST_HOWS, rsets=("a", "b")):
    """The complete alphabet of changes between two runs: [how, type, rate set]
      assign   propagator.PDeph = PureDephasing(rates, dtype=type)         (a new object)
      mutate   the PureDephasing object the propagator holds is rewritten in place
               (data[...] = rates, dtype = type)
      convert  PureDephasing.convert_to(type) on the object the propagator holds (rate set '-':
               the rates are whatever the conversion leaves on the object)."""
    out = []
    for how in hows:
        if how == "convert":
            out += [[how, t, "-"] for t in DEPH_TYPES]
        else:
            out += [[how, t, r] for t in DEPH_TYPES for r in rsets]
    return out


def _hist_gamma(dtype, rset, d, T):
    w = numpy.array(DEPH_SETS[dtype][rset][:d], dtype=float)
    return G.dephasing_rate_matrix(w / (T if dtype == "Lorentzian" else T ** 2))


_HIST_REFS = {}


def eval_history(case):
    """ONE ReducedDensityMatrixPropagator (LindbladForm + PureDephasing) is used for a whole
    history: built with the setting case['first'], then changed by every step of case['steps'];
    after the construction and after every change ALL spanning states are propagated on it.
    Every run must satisfy every clause of the deph section for the generator that is in force
    AT THAT RUN (type and rates the PureDephasing object of the propagator holds), whatever the
    propagator was used for before; the same run on a fresh propagator (fresh Hamiltonian,
    tensor and PureDephasing with the same numbers) is made next to the runs after the LAST
    change."""
    qr = isolation.qr()
    from quantarhei.qm import (PureDephasing, ReducedDensityMatrixPropagator,
                               ReducedDensityMatrix)
    m = model(case)
    d, Nt, dt = m["d"], m["Nt"], m["dt"]
    T = (Nt - 1) * dt
    labels, psis, rhos = _states(case, d)
    vecs0 = [r.reshape(-1) for r in rhos]
    rwa = case.get("rwa", "off") != "off"
    method = "short-exp-%d" % case["order"]
    nref = case["nref"]
    ta = qr.TimeAxis(0.0, Nt, dt)
    ham = lib_hamiltonian(m, case)
    tensor = lib_lindblad(m, case, ham)
    cur_type, cur_gamma = case["first"][0], _hist_gamma(case["first"][0], case["first"][1], d, T)
    pd = PureDephasing(numpy.array(cur_gamma), dtype=cur_type)
    pr = ReducedDensityMatrixPropagator(ta, ham, RTensor=tensor, PDeph=pd)

    refs = _HIST_REFS       # pure function of the key: shared by the cases a worker evaluates
    ckey = json.dumps([case[x] for x in ("dim", "ham", "scale", "axis", "gen", "rwa", "order",
                                          "nref")])

    def ref_of(dtype, gamma):
        key = (ckey, dtype, numpy.asarray(gamma, dtype=float).tobytes())
        if key not in refs:
            if len(refs) > 400:
                refs.clear()
            ck = dict(case, pdeph=dtype)
            mk = dict(m, w=None, gamma=numpy.array(gamma, dtype=float))
            r = reference(ck, mk, vecs0, None)
            r["lab"] = lab_exact(ck, mk, r, vecs0) if rwa else None
            r["cnd"] = G.is_conditionally_negative(gamma)
            refs[key] = r
        return refs[key]

    violations, worst = [], {}
    tags, digest, bounds = [], [], []
    nprop, noop, informs = 0, 0, []
    prev_type = None
    hist = [["first"] + list(case["first"])] + [list(s) for s in case["steps"]]
    for k, step in enumerate(hist):
        how = step[0]
        fresh = k == len(hist) - 1 and k > 0      # the run after the last change
        if how == "assign":
            cur_type, cur_gamma = step[1], _hist_gamma(step[1], step[2], d, T)
            pd = PureDephasing(numpy.array(cur_gamma), dtype=cur_type)
            pr.PDeph = pd
        elif how == "mutate":
            cur_type, cur_gamma = step[1], _hist_gamma(step[1], step[2], d, T)
            pd.data[...] = cur_gamma
            pd.dtype = cur_type
        elif how == "convert":
            before = (str(pd.dtype), numpy.array(pd.data, copy=True))
            pd.convert_to(step[1])
            # the generator of the following runs is what the object says now
            cur_type, cur_gamma = str(pd.dtype), numpy.array(pd.data, copy=True)
            if cur_type not in DEPH_TYPES or not G.valid_rate_matrix(cur_gamma):
                # the conversion itself is not the subject of this property
                return {"nontrivial": False, "outcome": "convert_to-left-no-valid-dephasing",
                        "violations": violations,
                        "info": {"sec": "dephhist", "unbuildable": "convert_to-invalid-rates"}}
            cur_gamma = numpy.real(cur_gamma).astype(float)
            if before[0] == cur_type and numpy.array_equal(before[1], cur_gamma) \
                    and before[0] != step[1]:
                noop += 1
        elif how != "first":
            raise isolation.HarnessError("history step %r" % (step,))
        if pr.PDeph is not pd:
            raise isolation.HarnessError("the propagator does not hold the dephasing object")
        ref = ref_of(cur_type, cur_gamma)
        b = ref["b"]
        inform = bool(b[-1] <= INFORMATIVE)
        informs.append(inform)
        tag = "lindblad/%s/pdeph=%s/rwa=%s" % (case["form"], cur_type, case.get("rwa", "off"))
        if how == "first":
            pre = "dephasing-history/run-0/first-setting/"
        else:
            pre = "dephasing-history/run-%d/%s/after-%s/" % (k, how, prev_type)
        book = Book(pre)
        tags.append(pre + tag)
        bounds.append("%.2e" % b[-1])
        if fresh:                          # the same generator on fresh objects
            ham_f = lib_hamiltonian(m, case)
            tensor_f = lib_lindblad(m, case, ham_f)
        desc = "run %d of one propagator (%s)" % (
            k, "as built" if how == "first" else
            "dephasing changed by %s from %s to %s" % (how, prev_type, cur_type))
        for s, lab in enumerate(labels):
            rho0 = rhos[s]
            n0 = float(numpy.linalg.norm(rho0))
            ev = pr.propagate(ReducedDensityMatrix(data=numpy.array(rho0, dtype=complex)),
                              method=method, Nref=nref)
            nprop += 1
            raw = numpy.array(ev.data, copy=True)
            _validity(book, tag + "/raw", lab, raw)
            flagged = bool(getattr(ev, "is_in_rwa", False))
            if flagged != rwa:
                book.check("rwa-flag", "rwa/flag-%s/%s" % ("set-without-rwa" if flagged
                                                            else "not-set", tag), [1.0], 0.0,
                           "is_in_rwa flag of the evolution returned by %s is %s" % (desc, flagged))
            if not numpy.all(numpy.isfinite(raw)):
                continue
            tolT = 2.0 * b * n0 + RTOL + ref["ref_err"]
            ex = ref["exact"][:, :, s].reshape(Nt, d, d)
            book.check("hist-exact", "exact/%s" % tag, _fro(raw - ex), tolT,
                       "%s: stored states differ from exp(L t) rho0 of the GKSL generator with "
                       "the dephasing in force at this run by more than the truncation bound "
                       "(state %s, order %d, Nref %d, generator %s)"
                       % (desc, lab, case["order"], nref, case["gen"]), {"state": lab},
                       informative=inform)
            if fresh:
                pd_f = PureDephasing(numpy.array(cur_gamma), dtype=cur_type)
                pr_f = ReducedDensityMatrixPropagator(ta, ham_f, RTensor=tensor_f, PDeph=pd_f)
                ev_f = pr_f.propagate(ReducedDensityMatrix(data=numpy.array(rho0, dtype=complex)),
                                      method=method, Nref=nref)
                nprop += 1
                raw_f = numpy.array(ev_f.data, copy=True)
                book.check("hist-fresh-exact", "fresh-propagator/exact/%s" % tag,
                           _maxfro(raw_f, ex), tolT,
                           "a FRESH propagator with the generator of %s: stored states differ "
                           "from exp(L t) rho0 by more than the truncation bound (state %s)"
                           % (desc, lab), {"state": lab}, informative=inform)
                # both are within tolT of the exact states: implied by the property
                book.check("hist-reused-vs-fresh", "reused-vs-fresh-propagator/%s" % tag,
                           _maxfro(raw, raw_f), 2.0 * tolT,
                           "%s: stored states differ from those of a fresh propagator with the "
                           "same generator by more than both truncation bounds (state %s, order "
                           "%d, Nref %d)" % (desc, lab, case["order"], nref), {"state": lab},
                           informative=inform)
            if rwa:
                from_rwa(case, ev, ham)
                if getattr(ev, "is_in_rwa", False):
                    book.check("rwa-flag", "rwa/flag-still-set-after-conversion/%s" % tag, [1.0],
                               0.0, "evolution converted by convert_from_RWA is still flagged "
                               "is_in_rwa (%s)" % desc)
                conv = numpy.array(ev.data, copy=True)
                _validity(book, tag + "/converted", lab, conv)
                exl = ref["lab"][0][:, :, s].reshape(Nt, d, d)
                book.check("hist-rwa-exact-lab", "rwa/vs-exact-lab/%s" % tag, _fro(conv - exl),
                           tolT + ref["lab"][1],
                           "%s: rotating-frame dynamics converted back by convert_from_RWA differ "
                           "from exp(L t) rho0 of the laboratory-frame GKSL generator by more than "
                           "the truncation bound (state %s)" % (desc, lab), {"state": lab},
                           informative=inform)
            else:
                conv = raw
            if ref["cnd"]:
                mine = numpy.array([G.min_eigenvalue(x) for x in conv])
                book.check("hist-positivity", "positivity/%s" % tag, numpy.maximum(-mine, 0.0),
                           tolT, "%s: stored state has a negative eigenvalue beyond the "
                           "truncation bound (state %s)" % (desc, lab), {"state": lab},
                           informative=inform)
            if s < 2:
                digest.append(_digest(conv))
        violations += book.violations()
        for c, (u, e) in book.worst.items():
            w = worst.setdefault(c, [0.0, 0.0])
            w[0], w[1] = max(w[0], u), max(w[1], e)
        prev_type = cur_type
    nontrivial = all(informs)
    return {"nontrivial": nontrivial,
            "outcome": [tags, case["gen"], digest, bounds],
            "violations": violations, "n": nprop - 1,
            "info": {"worst": worst, "sec": "dephhist", "informative": nontrivial,
                     "convert_noop": noop}}


def eval_case(case):
    sec = case["sec"]
    if sec == "dephhist":
        return eval_history(case)
    if sec == "closed":
        return eval_closed(case)
    if sec in ("lindblad", "deph"):
        return eval_lindblad(case)
    if sec == "redfield":
        return eval_redfield(case)
    if sec == "field":
        return eval_field(case)
    raise isolation.HarnessError("unknown section %r" % sec)


def replay(case):
    return eval_case(case)["violations"]


# ---------------------------------------------------------------------------------------------
# the product
# ---------------------------------------------------------------------------------------------
ORDERS = [4, 2, 6]
NREFS = [1, 2, 5]
AX_SHORT = [40, 2.0]
AX_LONG = [200, 0.5]
AX_HIST = [14, 2.0]       # dephasing histories (every case makes (len+1) * dim^2 + dim^2 runs)


def _hams(d):
    return [h for h in ("coupled", "diag", "degenerate", "cross") if h in HMATS[d]]


def cases(tier):
    quick = tier == "quick"
    cs = []
    # ---- closed ----------------------------------------------------------------------------
    dom = {"sec": ["closed"], "dim": [2, 3] if quick else [2, 3, 4],
           "ham": ["coupled", "diag", "degenerate", "cross"],
           "scale": [1.0, 0.25] if quick else [1.0, 0.25, 0.5],
           "axis": [AX_SHORT] if quick else [AX_SHORT, AX_LONG],
           "rwa": ["off", "ge", "one", "ge2"], "order": ORDERS, "nref": NREFS,
           "t0": [0.0, 100.0] if quick else [0.0, 100.0, -37.5]}

    def ok_closed(c):
        if c["t0"] != 0.0 and (c["order"] != 4 or c["nref"] != 1):
            return False       # the axis start is crossed with the default integrator only
        if c["ham"] not in HMATS[c["dim"]]:
            return False
        if c["rwa"] == "one" and c["dim"] != 2:
            return False
        return rwa_admissible(c)
    cs += product(dom, ok_closed)

    # ---- lindblad ----------------------------------------------------------------------------
    forms = ["operators", "tensor"] if quick else ["operators", "tensor", "converted"]
    gens2 = ["01", "11", "01+10", "S01"] if quick else \
        all_unit_sets(2) + ["S01", "A01", "01+S01"]
    gens3q = ["12", "12+21", "01+22", "S12", "10+02"]
    gens3 = gens3q if quick else all_unit_sets(3) + ["S12", "A12", "S01", "12+S12"]
    gens4 = ["12", "12+21", "01+33", "S12", "23+31", "A12", "03+30", "13+S12"]

    def ok_lind(c):
        if c["ham"] not in HMATS[c["dim"]]:
            return False
        if c["rwa"] == "ge2" and c["dim"] != 4:
            return False
        if c["rwa"] == "one" and (c["dim"] != 2 or (quick and c["nref"] != 1)):
            return False       # one block: two levels (as in the closed section)
        return rwa_admissible(c)
    rwas = ["off", "ge", "one", "ge2"]      # every block definition of RWA_BLOCKS
    for d, gens, hams, scales, axes in (
            (2, gens2, ["coupled", "diag", "degenerate"], [1.0] if quick else [1.0, 0.25],
             [AX_SHORT] if quick else [AX_SHORT, AX_LONG]),
            (3, gens3, ["coupled", "cross"] if quick else ["coupled", "cross", "degenerate"],
             [1.0], [AX_SHORT]),
            (3, gens3q, ["coupled", "cross", "degenerate"], [0.25], [AX_SHORT, AX_LONG]),
            (4, gens4, ["coupled", "cross"], [1.0], [AX_SHORT])):
        if quick and (d == 4 or scales == [0.25]):
            continue
        dom = {"sec": ["lindblad"], "dim": [d], "ham": hams, "scale": scales, "axis": axes,
               "gen": gens, "form": forms, "pdeph": ["none"], "rwa": rwas,
               "order": ORDERS, "nref": NREFS, "mix": [False]}
        cs += product(dom, ok_lind)

    # ---- lindblad + pure dephasing -------------------------------------------------------------
    for d, gens in ((2, ["Z", "01"]), (3, ["Z", "12", "12+21"]), (4, ["Z", "12+21"])):
        if quick and d == 4:
            continue
        dom = {"sec": ["deph"], "dim": [d],
               "ham": ["coupled"] if quick else ["coupled", "degenerate", "diag"],
               "scale": [0.25] if quick else [1.0, 0.25],
               "axis": [AX_SHORT] if (quick or d > 2) else [AX_SHORT, AX_LONG],
               "gen": gens[:2] if quick else gens, "form": forms,
               "pdeph": ["Lorentzian", "Gaussian"], "rwa": rwas,
               "order": ORDERS, "nref": NREFS, "mix": [False]}
        cs += product(dom, ok_lind)
    if quick:
        # four levels are outside the quick bound of the sections above; the block definition
        # that needs four levels is crossed with representation x dephasing on one system
        dom = {"sec": ["deph"], "dim": [4], "ham": ["coupled"], "scale": [0.25],
               "axis": [AX_SHORT], "gen": ["12+21"], "form": forms,
               "pdeph": ["none", "Lorentzian", "Gaussian"], "rwa": ["ge2"], "order": [4],
               "nref": [1], "mix": [False]}
        cs += product(dom, ok_lind)
    # pure dephasing without a relaxation tensor (expected unbuildable; counted)
    for d in (2, 3):
        for pd in ("Lorentzian", "Gaussian"):
            cs.append({"sec": "deph", "dim": d, "ham": "coupled", "scale": 1.0, "axis": AX_SHORT,
                       "gen": "none", "form": "tensor", "pdeph": pd, "rwa": "off", "order": 4,
                       "nref": 1, "mix": False})

    # ---- pairwise mixtures (positivity is not a linear clause) ------------------------------------
    for d, gens in ((2, gens2 if not quick else gens2[:4]), (3, gens3q if not quick else gens3q[:3])):
        dom = {"sec": ["lindblad"], "dim": [d], "ham": ["coupled"] if quick else ["coupled", "cross"]
               if d == 3 else ["coupled", "degenerate"],
               "scale": [1.0], "axis": [AX_SHORT], "gen": gens, "form": forms, "pdeph": ["none"],
               "rwa": ["off"], "order": [4] if quick else ORDERS, "nref": [1] if quick else [1, 2],
               "mix": [True]}
        cs += product(dom, ok_lind)
        dom = {"sec": ["deph"], "dim": [d], "ham": ["coupled"], "scale": [0.25], "axis": [AX_SHORT],
               "gen": ["Z", "01" if d == 2 else "12"], "form": forms,
               "pdeph": ["Lorentzian", "Gaussian"], "rwa": ["off"],
               "order": [4] if quick else ORDERS, "nref": [1] if quick else [1, 2], "mix": [True]}
        cs += product(dom, ok_lind)

    # ---- calling context: named calls made inside `with energy_units(u)` ----------------------------
    sites = ctx_sites_domain()
    units = ["1/cm", "eV"] if quick else ["1/cm", "eV", "THz", "int"]

    def ok_ctx(c):
        if c.get("rwa", "off") == "off" and (set(c["ctx_sites"].split("+")) & {"set", "conv"}):
            return False       # no set_rwa / convert_from_RWA call without a rotating frame
        return True
    dom = {"sec": ["closed"], "dim": [2, 3] if quick else [2, 3, 4],
           "ham": ["coupled"] if quick else ["coupled", "diag", "cross"], "scale": [1.0],
           "axis": [AX_SHORT], "rwa": ["off", "ge", "one", "ge2"],
           "order": [4] if quick else ORDERS, "nref": [1] if quick else [1, 2], "t0": [0.0],
           "ctx_sites": sites, "ctx_units": units}
    cs += product(dom, lambda c: ok_closed(c) and ok_ctx(c))
    # ---- basis context of the call: propagate inside `with eigenbasis_of(X)` ---------------------
    # a rotating frame is crossed with X = H only (run.assumptions)
    dom = {"sec": ["closed"], "dim": [2, 3] if quick else [2, 3, 4],
           "ham": ["coupled", "diag", "degenerate", "cross"],
           "scale": [1.0] if quick else [1.0, 0.25], "axis": [AX_SHORT],
           "rwa": ["off", "ge", "one", "ge2"], "order": [4] if quick else ORDERS,
           "nref": [1] if quick else [1, 2], "t0": [0.0], "bctx": list(BCTX)}
    cs += product(dom, lambda c: ok_closed(c) and (c["rwa"] == "off" or c["bctx"] == "H"))
    # Lindblad generators (every representation): propagate called inside `with
    # eigenbasis_of(X)`; in the eigenbasis of a complex Hermitian operator the jump operators the
    # propagator reads are complex matrices.  Without PureDephasing: its rate matrix is a plain
    # array that the propagator applies element-wise in whatever basis is current, i.e. inside a
    # context it IS a different generator (24 of 24 Lorentzian cases differ on the unchanged tree,
    # by design: the package's examples dephase in the exciton basis this way)
    for d, gens_b in ((2, ["01", "S01"]), (3, ["12+21", "10+02", "S12"]), (4, ["13+S12"])):
        if quick and d == 4:
            continue
        dom = {"sec": ["lindblad"], "dim": [d], "ham": ["coupled"] if quick else ["coupled", "cross"]
               if d > 2 else ["coupled", "degenerate"], "scale": [0.25, 1.0], "axis": [AX_SHORT],
               "gen": gens_b[:2] if quick else gens_b, "form": forms,
               "pdeph": ["none"], "rwa": ["off"], "order": [4] if quick else ORDERS,
               "nref": [1] if quick else [1, 2], "mix": [False], "bctx": list(BCTX)}
        cs += product(dom, ok_lind)
    for d, gen, orders in ((3, "12+21", ORDERS), (2, "01", [4]), (4, "12+21", [4])):
        if quick and d != 3:
            continue
        dom = {"sec": ["deph"], "dim": [d], "ham": ["coupled"] if quick else ["coupled", "diag"],
               "scale": [0.25], "axis": [AX_SHORT], "gen": [gen], "form": forms,
               "pdeph": ["none", "Lorentzian", "Gaussian"], "rwa": rwas,
               "order": [4] if quick else orders, "nref": [1] if quick else [1, 2],
               "mix": [False], "ctx_sites": sites, "ctx_units": units}
        cs += product(dom, lambda c: ok_lind(c) and ok_ctx(c))
    dom = {"sec": ["redfield"], "nsites": [2], "td": [False, True],
           "form": ["tensor", "operators"] if quick else ["tensor", "operators", "secular"],
           "pdeph": ["none"] if quick else ["none", "Gaussian"],
           "rwa": ["ge"] if quick else ["off", "ge"], "axis": [AX_SHORT], "order": [4],
           "nref": [1] if quick else [1, 2], "ctx_sites": sites, "ctx_units": units}
    cs += product(dom, ok_ctx)

    # ---- history of the pure dephasing of ONE propagator object ----------------------------------
    # ordered pairs (first setting, change): complete alphabet of settings x complete alphabet of
    # changes; ordered triples: the same with a second change (quick: over rate set "a")
    def hist_product(dims, forms_, rwas_, orders_, nrefs_, firsts, step_lists):
        out = []
        for d_ in dims:
            dom_ = {"sec": ["dephhist"], "dim": [d_], "ham": ["coupled"], "scale": [0.125],
                    "axis": [AX_HIST], "gen": ["01" if d_ == 2 else "12+21"], "form": forms_,
                    "rwa": rwas_, "order": orders_, "nref": nrefs_, "first": firsts,
                    "steps": step_lists}
            out += product(dom_, ok_lind)
        return out
    import itertools
    S_all, F_all = hist_steps(), hist_settings()
    S_a, F_a = hist_steps(rsets=("a",)), hist_settings(rsets=("a",))
    S_ac = hist_steps(hows=("assign", "convert"), rsets=("a",))
    pairs = [[s] for s in S_all]

    def triples(alphabet):
        return [list(p) for p in itertools.product(alphabet, alphabet)]
    if quick:
        cs += hist_product([2], forms, ["off"], [4], [1], F_all, pairs)
        cs += hist_product([3], forms, ["ge"], [4], [1], F_a, [[s] for s in S_a])
        cs += hist_product([2], forms, ["off"], [4], [1], F_a, triples(S_ac))
    else:
        cs += hist_product([2], forms, ["off"], ORDERS, [1], F_all, pairs)
        cs += hist_product([2], forms, ["off"], [4], [2], F_all, pairs)
        cs += hist_product([3], forms, ["off", "ge"], [4], [1, 2], F_all, pairs)
        cs += hist_product([2], forms, ["off"], [4], [1], F_all, triples(S_all))
        cs += hist_product([3], ["operators", "tensor"], ["off"], [4], [1], F_a, triples(S_a))

    # ---- Redfield tensors: trace and Hermiticity -------------------------------------------------
    dom = {"sec": ["redfield"], "nsites": [2] if quick else [2, 3], "td": [False, True],
           "form": ["tensor", "operators", "secular", "operators-secular"],
           "pdeph": ["none", "Gaussian"] if quick else ["none", "Gaussian", "Lorentzian"],
           "rwa": ["off", "ge"], "axis": [AX_SHORT], "order": ORDERS, "nref": NREFS}

    def ok_red(c):
        # TI operator form + secularize silently converts to a tensor: same as "secular"
        return not (c["form"] == "operators-secular" and not c["td"])
    cs += product(dom, ok_red)
    # ---- field-driven propagation (array field + dipole operator) ---------------------------------
    def ok_field(c):
        return c["ham"] in HMATS[c["dim"]]
    for d, gens in ((2, ["01", "01+10", "S01"]), (3, ["12", "12+21", "10+02", "S12"]),
                    (4, ["12+21", "13+S12"])):
        if quick and d == 4:
            continue
        dom = {"sec": ["field"], "gen_kind": ["lindblad"], "dim": [d],
               "ham": ["coupled", "cross"] if d > 2 else ["coupled", "degenerate"],
               "scale": [0.5] if quick else [0.5, 0.25], "axis": [AX_SHORT],
               "gen": gens[:2] if quick else gens,
               "form": ["tensor", "converted", "operators"],
               "field": list(FIELD_KINDS), "dip": list(FIELD_DIPS) if not quick else ["ladder"],
               "order": ORDERS, "nref": [1], "mix": [False], "rwa": ["off"], "pdeph": ["none"]}
        cs += product(dom, ok_field)
    dom = {"sec": ["field"], "gen_kind": ["redfield-ti", "redfield-td"],
           "nsites": [2] if quick else [2, 3], "form": ["tensor", "operators"], "axis": [AX_SHORT],
           "field": ["const+", "pulse"] if quick else list(FIELD_KINDS),
           "dip": ["ladder"] if quick else list(FIELD_DIPS),
           "order": [4] if quick else ORDERS, "nref": [1], "mix": [False]}
    cs += product(dom, None)
    cs.append({"sec": "field", "gen_kind": "lindblad", "dim": 2, "ham": "coupled", "scale": 0.5,
               "axis": AX_SHORT, "gen": "01", "form": "tensor", "field": "const+", "dip": "ladder",
               "order": 4, "nref": 2, "mix": False, "rwa": "off", "pdeph": "none"})
    return cs


def run(run):
    cs = cases(run.tier)
    run.rule = ("union of exhaustive sub-products (closed | lindblad | lindblad+pure dephasing | "
                "pairwise mixtures | Redfield) over dimension x Hamiltonian x scale x time axis x "
                "generator x representation x pure dephasing x RWA x expansion order x Nref; "
                "inside every case ALL dim^2 spanning pure states (or all their pairwise equal "
                "mixtures) are propagated on fresh propagators; closed cases additionally propagate "
                "the complete phase family of complex-amplitude state vectors (moduli %r, phases "
                "from the full product %r^dim) and turn every state-vector evolution into density "
                "matrices through every public route (get_DensityMatrixEvolution, "
                "StateVector.get_DensityMatrix at every stored time, stored initial StateVector), "
                "before and after convert_from_RWA, checked at every stored index incl. 0.  "
                "Lindblad cases cross {operator, tensor(, converted) form} x {no, Lorentzian, "
                "Gaussian dephasing} x {rwa off, every admissible block definition %r} and check, "
                "besides the exact solution in the frame of the calculation, the is_in_rwa flag of "
                "the returned evolution and the converted data against the exact LABORATORY-frame "
                "solution.  Calling-context sub-products (closed | lindblad+dephasing | Redfield) x "
                "ctx_sites %r x ctx_units: the named calls are made inside `with "
                "energy_units(u)`, all clauses of the section apply and the stored data must equal "
                "those of the same calls made outside (class R).  Basis-context sub-product "
                "(closed) x bctx %r: every propagate call (density matrix and state vector, "
                "rotating and laboratory frame) is made inside `with eigenbasis_of(X)` (X = the "
                "Hamiltonian / another real symmetric / another complex Hermitian operator), results "
                "are read after leaving the context; all clauses of the closed section, equality "
                "with the calls made outside, stored state at index 0 = input state; the same three contexts "
                "around propagate for Lindblad generators without pure dephasing (every "
                "representation; in a complex eigenbasis the jump operators read by the "
                "propagator are complex): all clauses of the lindblad section.  Conversion "
                "direction: every rotating-frame evolution of every section goes rotating -> "
                "laboratory -> rotating (-> rotating again) -> laboratory through convert_from_RWA "
                "/ convert_to_RWA (class R identities, flags); closed cases convert the "
                "laboratory-frame propagation with convert_to_RWA and compare it with the exact "
                "and the propagated rotating-frame dynamics.  "
                "Dephasing history (sec dephhist): ONE propagator object (LindbladForm + "
                "PureDephasing) x first setting %r x every ordered sequence of 1 (pairs) or 2 "
                "(triples) changes from the alphabet {assign a new PureDephasing, rewrite the held "
                "object in place} x type x rate set + {convert_to} x type; after the construction "
                "and after every change ALL spanning states are propagated on that one object and "
                "every run must satisfy every clause of the deph section for the dephasing in "
                "force at that run (exact solution in the frame of the calculation and in the "
                "laboratory frame, trace, Hermiticity, positivity, flags); next to every run after "
                "the last change the same generator on a fresh propagator.  "
                "Field-driven propagation (sec field): propagator built with Efield=real array "
                "on the time axis and Trdip=dipole operator x generator kind {Lindblad sets, "
                "Redfield, time-dependent Redfield} x representation {tensor, converted, operators} "
                "x field %r x dipole pattern %r x order; every implemented route: trace, "
                "Hermiticity, initial state stored, field array untouched for ALL spanning states; "
                "Lindblad generator with a field constant in time: positivity and the exact "
                "exponential of the GKSL generator with Hamiltonian H - mu_x E within the "
                "truncation bound; vanishing field = field-free propagation; routes the package "
                "does not implement (stubs returning None) and the refused refinement are "
                "counted.  "
                "RWA cases are in the product only "
                "when [L, ad_Omega] = 0 (rotating-frame calculation is exact).  non-trivial = the "
                "generator acts (coupling or >= 2 distinct energies for closed systems, a non-zero "
                "jump/dephasing rate otherwise) AND the a-priori truncation bound at the final "
                "time is <= %g (so the T-class oracle discriminates); Redfield cases (class R "
                "clauses only) are all non-trivial; unbuildable configurations are trivial"
                % (SV_MODULI, SV_PHASES, sorted(RWA_BLOCKS), ctx_sites_domain(), list(BCTX),
                   hist_settings(), list(FIELD_KINDS), list(FIELD_DIPS), INFORMATIVE))
    run.assumptions = [
        "reference: GKSL Liouvillian from Kronecker products, scipy.linalg.expm "
        "(mc/refmodels/gksl.py); Gaussian dephasing reference = 4th order Magnus, 4 sub-steps, own "
        "error estimate (x10) added to the tolerance",
        "T tolerance = 2 * n*sup||S^k||*sup||E^k||*||S-E|| * ||rho0||_F + 1e-10; with PureDephasing "
        "the scheme S is the Taylor polynomial followed by the exact dephasing factor (operator "
        "splitting is part of the declared scheme, its error is inside the bound)",
        "pure dephasing rates are of GKSL type gamma_ab=(w_a+w_b)/2 (site projector dephasing) so "
        "that positivity is a theorem for the exact dynamics",
        "initial time 0 (rotating and laboratory frame coincide at the initial time)",
        "Redfield/TD-Redfield generators are not of Lindblad form: only trace and Hermiticity",
        "calling context: the Hamiltonian is created outside any units context (its data are "
        "internal-unit numbers); Hamiltonian.set_rwa and the constructors of LindbladForm / "
        "Redfield tensors / PureDephasing / the propagators may be called inside `with "
        "energy_units(u)` and must not depend on it.  NOT claimed: propagate(...) and "
        "convert_from_RWA(...) themselves executed inside a units context - they read the "
        "Hamiltonian through unit-managed accessors without protecting themselves (the package "
        "is not written to be called inside a units context, DESIGN 7.5; e.g. closed 3-level "
        "system, `with energy_units('1/cm'): prop.propagate(rho0)` gives NaN); these two call "
        "sites are explored only with VERIF_C02_CALL_CONTEXT=1 (now: %s)"
        % ("on" if CTX_CALLS_TOO else "off"),
        "basis context: initial state objects, Hamiltonian and propagator are created outside "
        "any basis context, only propagate(...) is called inside `with eigenbasis_of(X)`, "
        "conversions and all reads happen after leaving it.  NOT claimed: a ROTATING-FRAME "
        "propagation called inside the eigenbasis of an operator other than the Hamiltonian - "
        "Hamiltonian.get_RWA_data() subtracts the frame frequencies from the diagonal of the "
        "matrix in the CURRENT basis, which is the rotating-frame Hamiltonian only when the "
        "basis change commutes with the frame operator (true for eigenbasis_of(H) of every "
        "admissible case here, block-diagonal S; e.g. 3 levels, H=diag(0,.16,.22), "
        "set_rwa([0,1]), propagate inside eigenbasis_of(fully coupled operator): result differs "
        "from the call outside by O(1)); rwa != off is therefore crossed with X = H only",
        "basis context x PureDephasing is NOT claimed: the dephasing rates are a plain array "
        "applied element-wise in the current basis, so a call inside eigenbasis_of(X) is by "
        "design a different generator (used that way by the package to dephase in the exciton "
        "basis)",
        "conversion direction: convert_to_RWA(ham) is called with the Hamiltonian that defines "
        "the frame (set_rwa done).  Before /repo a959609 a laboratory-frame StateVectorEvolution "
        "carried no is_in_rwa attribute and its convert_to_RWA / convert_from_RWA raised "
        "AttributeError (a refusal, not wrong data): the clause 'laboratory-frame state-vector "
        "evolution -> convert_to_RWA' is applied whenever the evolution carries the flag (every "
        "one since a959609) and refusals are counted (note sv_lab_to_rwa_refused, 0 on HEAD); "
        "the state-vector round trips on rotating-frame evolutions and all density-matrix "
        "directions are always applied",
        "dephasing history: the generator of a run is defined by the public state of the "
        "PureDephasing object the propagator holds at the time of the call (dtype, data); for "
        "the steps 'assign'/'mutate' these are the numbers of the case, for 'convert' whatever "
        "PureDephasing.convert_to leaves on the object (the conversion formula itself is not a "
        "subject of this property; a conversion that leaves the type unchanged is counted, note "
        "convert_to_left_type_unchanged).  Positivity is checked when the rate matrix is "
        "conditionally negative definite (Schoenberg; true for (w_a+w_b)/2 and its element-wise "
        "square root), decided by the reference model.  The comparison reused vs fresh propagator "
        "uses the sum of both truncation allowances (what the property implies), not class R.  "
        "Nref, order and time axis are the same for all runs of a history (Nref is a documented "
        "sticky setting of the object).  Only the time independent tensor routes (operator and "
        "tensor form) apply PureDephasing at all",
        "field-driven propagation: the generator of a constant field is the one the package "
        "documents for its array-field routes (x polarised field, interaction -mu_x E(t)); y and "
        "z components of the dipole operator vanish in the alphabet; time-varying fields (pulse, "
        "step) carry the class R clauses only, because the package does not state at which end of "
        "a step the field sample is taken; |mu E| dt <= %g; the LabSetup / EField-object routes "
        "are not in the alphabet" % FIELD_AMP,
        "laboratory-frame reference of an admissible RWA Lindblad case: powers of expm(L_lab dt) "
        "(constant generators; cross-checked against the rotating-frame reference carried to the "
        "laboratory frame) or the carried rotating-frame Magnus reference (Gaussian dephasing)",
    ]
    run.bounds = {"dims": [2, 3] if run.tier == "quick" else [2, 3, 4],
                  "orders": [2, 4, 6], "nref": NREFS,
                  "axes(Nt,dt)": [AX_SHORT] if run.tier == "quick" else [AX_SHORT, AX_LONG],
                  "norm(H)*dt": "<= 0.5 (scales 1, 0.25%s)" % ("" if run.tier == "quick" else ", 0.5"),
                  "sv phase alphabet": list(SV_PHASES), "sv routes": list(SV_ROUTES) + ["psi_i"],
                  "rwa blocks": {k: list(v) for k, v in RWA_BLOCKS.items()},
                  "ctx_sites": ctx_sites_domain(),
                  "ctx_units": ["1/cm", "eV"] if run.tier == "quick" else ["1/cm", "eV", "THz", "int"],
                  "bctx": ["none"] + list(BCTX),
                  "conversion directions": ["from_RWA", "to_RWA", "from.to", "to.from", "to.to"],
                  "dephasing history": {"settings": hist_settings(), "changes": hist_steps(),
                                        "axis(Nt,dt)": AX_HIST,
                                        "length": "pairs: all (dim 2%s; triples: %s"
                                        % (("), rate set a (dim 3, rwa ge)",
                                            "changes assign/convert, rate set a (dim 2)")
                                           if run.tier == "quick" else
                                           (", dim 3 with rwa off/ge)",
                                            "all (dim 2), rate set a (dim 3)"))},
                  "field": {"kinds": list(FIELD_KINDS), "dipoles": list(FIELD_DIPS),
                            "|mu E| dt": FIELD_AMP, "nref": [1]},
                  "cases": len(cs)}
    infos = run_grid(run, cs, eval_case)
    worst, unb, secs = {}, {}, {}
    refused, bsec, noop = 0, {}, 0
    for i in infos:
        noop += int(i.get("convert_noop", 0) or 0)
        refused += int(i.get("sv_lab_to_rwa_refused", 0) or 0)
        if i.get("bctx", "none") != "none":
            bs = bsec.setdefault(i["bctx"], {"cases": 0, "informative": 0})
            bs["cases"] += 1
            bs["informative"] += 1 if i.get("informative") else 0
        if "unbuildable" in i:
            unb[i["unbuildable"]] = unb.get(i["unbuildable"], 0) + 1
        s = secs.setdefault(i.get("sec", "?"), {"cases": 0, "informative": 0})
        s["cases"] += 1
        s["informative"] += 1 if i.get("informative") else 0
        for c, (u, e) in (i.get("worst") or {}).items():
            w = worst.setdefault(c, [0.0, 0.0])
            w[0] = max(w[0], u)
            w[1] = max(w[1], e)
    run.note(worst_use_of_tolerance_and_abs_deviation_per_clause={
        c: ["%.3g" % w[0], "%.3g" % w[1]] for c, w in sorted(worst.items())},
        unbuildable_counted=unb, per_section=secs, per_basis_context=bsec,
        sv_lab_to_rwa_refused=refused, convert_to_left_type_unchanged=noop)
