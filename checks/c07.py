"""C07 Operator form, tensor form and exact limits of a relaxation tensor agree.

E-grid (complete constrained products, no sampling) in four sections, with linearity closure
inside every grid point:

* "redfield" / "lindblad" -- clauses (a), (b) for time-independent generators.  The same
  generator is built in operator form (components Km, Lm, Ld) and in four-index form.
  (a) both forms are applied (`apply`) to ALL N^2 matrix units -- this decides "every operator"
      by linearity -- outside any context, inside eigenbasis_of(H) and inside eigenbasis_of(X)
      (X = another real symmetric operator) and inside eigenbasis_of(Z) (Z complex Hermitian,
      see "Complex unitary bases"); before conversion, and after `convert_2_tensor`
      executed in each of the bases (one fresh operator-form copy per conversion basis,
      each then compared in all bases: data and action).
  (b) a spanning set of N^2 Hermitian unit-trace initial states is propagated with the
      operator form, the four-index form and the converted form in each basis.
  Absolute oracles (independent of both code paths, mc/refmodels/relax_action.py): the action
  on every matrix unit equals the GKSL formula (Lindblad: from the jump operators and rates) /
  the May-Kuehn operator formula evaluated on the components (Redfield); the propagated states
  equal the Taylor polynomial of the reference Liouvillian.  In-context results are read after
  the context is left (gauge free).
* "td" -- time-dependent Redfield tensor: (c) data[0] == 0 exactly and data[-1] == the
  time-independent tensor from the same inputs (no cut-off / the same cut-off), also for the
  operator components; conversion of the operator form in each basis and (b) propagation with
  operator / four-index / converted form in each basis.
* "dephasing" -- (d) uncoupled sites: TD-Redfield propagation against exp(-i w t - g(t)) with
  the analytic line-shape function (mc/refmodels/lineshape_ob.py), tolerance = derived
  first-order bound, and the error must drop by >= 1.7x when dt is halved.

Histories of the initial-state object (every section that propagates).  "The same initial state
propagated by two routes" is only a statement about the routes if a route does not alter its
input, therefore
  (i)  after EVERY propagate() call of the driver the caller's initial-state object is read
       again in the same context: dtype, shape and all bits must be those it had before the call;
  (ii) one initial-state OBJECT is handed to several propagations: all sequences of length
       `hist` (2 quick, 3 thorough; repetitions included, so every ordered pair "route A, then
       route B" and "route A twice") over the routes {operator form, four-index form, converted
       form} x 3 bases, one fresh object per sequence, for a general initial state (full rank,
       every element non-zero and complex) and, with sequences one call shorter, for its real
       part stored as a float64 array (storage type of the caller's object).  Every call of every sequence must reproduce the
       result the same route gives for a fresh object (read after the context is left), and
       that result must be the linear combination of the spanning-set results (linearity
       closure, ties it to the absolute oracles).  Dephasing section: the one route of the case
       is run twice on one object.

Step refinement (every section that propagates).  The propagator can do Nref sub-steps between
two stored points, requested by propagate(rho, Nref=k) or by setDtRefinement(k).  Nref in
{1, 2, 5} x both ways of requesting it is a complete sub-product inside every grid point: the
spanning set is propagated by all three routes in all three bases on the axes with the step
m*dt (dt = step of the base axis), m in {2, 5}:
  * time-independent generators (redfield, lindblad): Nref = m.  Route agreement (operator /
    four-index / converted form) as on the base axis, and refinement consistency: the m
    sub-steps are exactly the steps of the base axis, so the run with Nref = m on the axis
    (nc, m*dt) must give the points 0, m, 2m, ... of the run of the same route with Nref = 1 on
    the axis of the sub-steps (the base run), and of the reference Taylor polynomial.  Both runs
    apply the same polynomial of the same step: the truncation bound of their difference is
    zero, what is left is class R.
  * time-dependent tensors (td): the four-index routine samples the tensor on the BATH axis
    with the stride m/Nref per sub-step and refuses every Nref that does not divide m (so on
    the bath axis itself no refinement is possible); all admissible (m, Nref) = (2,1), (2,2),
    (5,1), (5,5) are run, the bath axis staying the base axis.  Claimed: route agreement; the
    refinement consistency only for Nref = m without a tensor cut-off time (the sub-steps are
    then the points of the bath axis, where the tensor is given; what a longer sub-step or a
    cut-off looked up on the coarser axis should use is not part of the property).
  * dephasing: the TD tensor of the case on the axes (., m*dt) with Nref = m does the steps of
    the bath axis: analytic solution and first-order bound of the bath axis at the stored points;
    with Nref = 1 it does one step of the length m*dt per stored point (bound of that step).
The refined axes have REFNC stored points (quick 4, thorough 8; with a tensor cut-off time as
many as needed to contain it: the propagator looks the cut-off time up on its own axis).  The
shared-initial-state histories are run on the base axis only.

Time-axis alphabet (td, dephasing).  The four-index and the operator routine each COUNT the bath
steps in one propagation step from the two step lengths.  Besides the axes with the step 1 fs
(every multiple exact) the sections contain bath axes with non-dyadic steps dt (quick 0.2, 0.7;
thorough 0.1, 0.2, 0.4, 0.7 fs) x ratios m (quick 3, 7; thorough 2, 3, 5, 7) x the two doubles
a caller can mean by "m x dt": the floating point product m*dt and the decimal number (0.6 for
3 x 0.2) -- the quotient with dt is then not the integer m, from below or from above
(0.6/0.2 = 2.99..96, (3*0.2)/0.2 = 3.00..04, (3*0.7)/0.7 = 2.99..96) -- x every admissible
Nref in {1, m} x both ways of requesting it.  Oracles as for the step refinement; a refusal
("Incompatible number of refinement steps") of a refinement that divides m is a violation;
dephasing also runs Nref = 1 on the coarser axes (one step of the length m*dt with the tensor
taken at one bath point inside it: first-order bound of the step m*dt).

Expansion order (every section that propagates).  propagate(rho, method=M), M in {default,
short-exp-2, short-exp-4, short-exp-6}: the default call is the base run; the three named
orders are a complete sub-product inside every grid point -- spanning set x 3 routes x 3
bases on a short axis (REFNC points, step of the base axis), ONE propagator per route serving
all methods.  Route agreement is evaluated per method (class R), and for time-independent
generators every route must equal the Taylor polynomial of the REQUESTED order of the
reference Liouvillian.  Dephasing: each order on the first third of the bath axis against the
analytic solution with the bound whose Taylor remainder is that order's.  (redfield, thorough:
the order is in addition a dimension of the grid, with the full histories.)

Conversion after the propagator exists (redfield, lindblad, td).  Histories of ONE propagator
object: created with the operator-form tensor [-> propagate in B0, B0 in {-, out, H, X}] ->
tensor.convert_2_tensor() in B1 -> propagate in every basis B: 4 x 3 fresh tensors/propagators
per grid point, general initial state, short axis.  Every call after the conversion must give
what the four-index form gives in that basis and what the same propagator gave there before
the conversion; the call before it what the operator-form route gives.

Complex unitary bases (redfield, lindblad, td).  Besides "outside", eigenbasis_of(H) and
eigenbasis_of(X) (real orthogonal transformations for the real Hamiltonians of the grids) the
basis alphabet has "Z" = eigenbasis_of(a complex Hermitian operator): the transformation matrix
S is complex unitary, S^T is not S^-1 and S^+ is not S^T (the harness verifies that S^T S is
not diagonal).  Z is a member of the alphabet of clauses (a), (b), (c): action of both forms on
all matrix units in Z (in place, and on operands created outside); convert_2_tensor done in
each of the 4 bases and data/action read in each of the 4; the spanning set propagated by
operator / four-index / converted form inside Z (absolute oracle on the results read outside);
TD tensor at its first/last time index read in Z.  The step refinements, expansion orders and
object histories are not multiplied with it.  Lindblad section: the Hamiltonian pattern
"complex" (complex couplings; eigenbasis_of(H) itself is then complex unitary in EVERY
sub-product of the grid point, reference Liouvillian with the complex matrix).

Rotating frame (every section that propagates).  Hamiltonian.set_rwa(blocks) makes every
propagation routine integrate with H - diag(Omega) and return an evolution marked is_in_rwa,
which convert_from_RWA(H) takes to the laboratory frame; "the same dynamics" is a statement
about what the caller holds after that conversion.  Inside every grid point, after everything
else (the Hamiltonian object changes): plain Hamiltonians get the frame [ground | rest] AFTER
the tensors were made, aggregate Hamiltonians carry it from the start; spanning set x 3 routes
x 4 bases on the short axis: route agreement of the data as returned and of the data after
convert_from_RWA (done outside the contexts); time-independent generators with a plain
Hamiltonian: laboratory-frame result == reference Taylor polynomial of H - diag(Omega) times
exp(-i(Omega_a - Omega_b)t) in the site basis and, where the frame commutes with H, in
eigenbasis_of(H).  Dephasing: the rotating-frame run, converted, against the same analytic
solution (Taylor remainder of the bound at the frequency the integrated coherence has in the
frame).  Frame marker: ALL evolutions returned in a grid point (every call of every
sub-product) by different routes in the same basis with the Hamiltonian in the same state must
carry the same is_in_rwa.

Pure dephasing (redfield, lindblad).  ReducedDensityMatrixPropagator(axis, H, RTensor=T,
PDeph=PureDephasing(constants, dtype)): after every (sub-)step both time-independent routines
multiply the density matrix element by element with the dephasing factor of the step; the
Gaussian factor depends on the TIME of the step, which each routine takes from the propagation
axis.  Inside every grid point, before the rotating frame: dephasing type {Lorentzian,
Gaussian} x start of the propagation axis {zero, non-zero (thorough: negative and positive, not
a multiple of the step)} [x Nref {1, 2}, thorough] x 3 routes x 3 bases on the short axis,
spanning set outside any context / general state inside eigenbasis_of(H) and eigenbasis_of(X);
one fresh PureDephasing and propagator per route and variant.  Claimed: route
agreement, class R (keys b/pure-dephasing/<section>/<type>/axis-start-{zero,nonzero}[/Nref=2]/
<basis>/...), untouched initial state, frame marker.  No absolute value (the property does not
say what pure dephasing is); the routines for time-dependent tensors take no PureDephasing.

Tolerances: R = 1e-10 * scale for every identity between representations; (d) computed bound
exp(D+E)-1 (D = dt * int|C|, E = accumulated Taylor remainder), see lineshape_ob.
"""
import contextlib

import numpy

from mc import isolation, systems
from mc.explore import run_grid, product, rotate
from mc.refmodels import lineshape_ob as LS
from mc.refmodels import relax_action as RA

LEVEL = "model_checking"
RTOL = 1.0e-10
HALVING = 1.7
BASES = ("out", "H", "X")
# + the eigenbasis of a complex Hermitian operator (a complex unitary transformation: S^T is
# not S^-1): member of the basis alphabet of clauses (a), (b) -- action on all matrix units,
# conversion done / read there, propagation of the spanning set by all three routes, exact
# limits of the time-dependent tensor read there; the refinements, expansion orders and
# object histories are not multiplied with it
ZBASES = BASES + ("Z",)
RWA_BLOCKS = [0, 1]       # rotating frame: ground state | all other states
UNBUILDABLE = ()          # no configuration of this property's space is refused by design


# ---------------------------------------------------------------------------
# small helpers
# ---------------------------------------------------------------------------
class _Acc:
    """violations (first per key) + worst deviations"""

    def __init__(self):
        self.viol = []
        self.keys = set()
        self.dev = {}
        self.n = 0
        self.frames = {}

    def frame(self, kind, B, k, sfx, ev, P):
        """frame marker of a returned evolution (is_in_rwa), grouped by what must agree: the
        same section, basis and state of the Hamiltonian (rotating frame set or not)"""
        has = bool(getattr(P.Hamiltonian, "has_rwa", False))
        self.frames.setdefault((kind, B, has), {}).setdefault((k, sfx), set()).add(
            bool(getattr(ev, "is_in_rwa", False)))

    def worst(self, name, x):
        x = float(x)
        if not numpy.isfinite(x):
            x = 1.0e300
        self.dev[name] = max(self.dev.get(name, 0.0), x)

    def add(self, key, what, details=None):
        if key not in self.keys:
            self.keys.add(key)
            self.viol.append((key, what, details))

    def same(self, key, clause, a, b, what, scale=None, floor=0.0):
        """class R comparison of two arrays; records err/scale under `clause`."""
        self.n += 1
        a = numpy.asarray(a)
        b = numpy.asarray(b)
        if a.shape != b.shape:
            self.add(key, "%s: shapes %s and %s differ" % (what, a.shape, b.shape))
            return False
        if not (numpy.all(numpy.isfinite(a)) and numpy.all(numpy.isfinite(b))):
            self.add(key, "%s: non-finite values" % what)
            return False
        err = float(numpy.max(numpy.abs(a - b))) if a.size else 0.0
        if scale is None:
            scale = max(float(numpy.max(numpy.abs(a))), float(numpy.max(numpy.abs(b))), floor) \
                if a.size else 1.0
        scale = max(scale, 1.0e-300)
        self.worst(clause, err / scale)
        if err > RTOL * scale:
            idx = numpy.unravel_index(int(numpy.argmax(numpy.abs(a - b))), a.shape)
            self.add(key, "%s: max |difference| %.3g at %s (scale %.3g, tolerance %.1e*scale)"
                     % (what, err, tuple(int(i) for i in idx), scale, RTOL),
                     {"err": err, "scale": scale, "at": [int(i) for i in idx]})
            return False
        return True


@contextlib.contextmanager
def _basis(name, ham, Xop):
    qr = isolation.qr()
    if name == "out":
        yield
    elif name == "H":
        with qr.eigenbasis_of(ham):
            yield
    elif name == "X":
        with qr.eigenbasis_of(Xop.X):
            yield
    elif name == "Z":
        with qr.eigenbasis_of(Xop.Z):
            yield
    else:
        raise isolation.HarnessError("unknown basis " + str(name))


class _Probes:
    """the operators whose eigenbases are the 'other' bases: X real symmetric (real orthogonal
    transformation), Z complex Hermitian (complex unitary transformation)"""

    def __init__(self, N):
        from quantarhei.qm.hilbertspace.operators import SelfAdjointOperator
        z = RA.probe_operator_complex(N)
        if RA.complexity_of_eigenbasis(z) < 0.05:
            raise isolation.HarnessError("eigenbasis of the complex probe is (nearly) real")
        self.X = SelfAdjointOperator(data=RA.probe_operator(N))
        self.Z = SelfAdjointOperator(data=z)


def _xop(N):
    return _Probes(N)


def _unit(N, i, j):
    e = numpy.zeros((N, N), dtype=numpy.complex128)
    e[i, j] = 1.0
    return e


def _arr(x):
    return numpy.array(x, dtype=numpy.complex128, copy=True)


ROUTES = ("op", "tensor", "conv")


def _general_state(N):
    """Hermitian, unit trace, full rank, every element non-zero (complex off the diagonal)."""
    v = numpy.array([(1.0 + 0.35 * k) * numpy.exp(1j * (0.7 * k * k + 0.3 * k))
                     for k in range(N)], dtype=numpy.complex128)
    pure = numpy.outer(v, v.conj())
    pure = pure / numpy.trace(pure).real
    mix = numpy.diag(numpy.arange(1, N + 1, dtype=float)).astype(numpy.complex128)
    mix = mix / numpy.trace(mix).real
    return 0.8 * pure + 0.2 * mix


def _expansion(states, g):
    """coefficients c with sum_k c_k s_k = g for the spanning set `states`"""
    A = numpy.array([s.reshape(-1) for _, s in states]).T
    c = numpy.linalg.solve(A, g.reshape(-1))
    if numpy.max(numpy.abs(A @ c - g.reshape(-1))) > 1.0e-12:
        raise isolation.HarnessError("general state not expanded in the spanning set")
    return {tag: c[i] for i, (tag, _) in enumerate(states)}


def _sequences(depth):
    """all sequences of exactly `depth` routes (repetitions included), simplest first"""
    out = [()]
    for _ in range(depth):
        out = [s + (k,) for s in out for k in ROUTES]
    return out


NREFS = (2, 5)            # refinements besides Nref = 1
VIAS = ("arg", "set")     # propagate(rho, Nref=k) / setDtRefinement(k); propagate(rho)
STEPFORMS = ("product", "decimal")
METHODS = ("short-exp-2", "short-exp-4", "short-exp-6")      # besides the default
ORDER = {None: 4, "short-exp": 4, "short-exp-2": 2, "short-exp-4": 4, "short-exp-6": 6}


def _coarse_step(dt, m, form):
    """The step "m times dt" of a propagation axis as a caller can write it: the floating
    point product m*dt, or the decimal number (what one types: 0.6 for 3 x 0.2).  The two are
    different doubles for non-dyadic dt (3*0.2 = 0.6000000000000001), and their quotient with
    dt is then not the integer m: 0.6/0.2 = 2.9999999999999996, (3*0.7)/0.7 likewise."""
    p = int(m) * float(dt)
    if form == "product":
        return p
    if form == "decimal":
        return float("%.12g" % p)
    raise isolation.HarnessError("unknown form of the step: " + str(form))


def _stepforms(dt, m):
    """the distinct doubles that stand for m x dt"""
    out = ["product"]
    if _coarse_step(dt, m, "decimal") != _coarse_step(dt, m, "product"):
        out.append("decimal")
    return out


def _refinements(td, ratios=NREFS, dt=1.0):
    """All (m, k, via, form): propagation axis with the step m x dt written as `form` (dt =
    step of the base axis, which is the bath axis of a time-dependent tensor), k sub-steps per
    stored step, requested `via`.
    Time-independent generators: k = m (the sub-steps are the steps of the base axis; the axis
    ratio means nothing to a constant tensor).  Time-dependent tensors: every k in {1, m}
    -- the four-index routine samples the tensor on the bath axis with the
    stride m/k and refuses every k that does not divide m ("Incompatible number of refinement
    steps")."""
    out = []
    for m in ratios:
        for form in _stepforms(dt, m):
            if td:
                out.append((m, 1, "default", form))
            for via in VIAS:
                out.append((m, m, via, form))
    return out


def _vlab(var, td):
    m, k, via, form = var
    f = "" if form == "product" else "-" + form
    if td:
        return "step-ratio=%d%s/Nref=%d%s" % (m, f, k, "" if k == 1 else "-" + via)
    return "Nref=%d-%s%s" % (k, via, f)


def _refine_spec(case):
    """case["refnc"]: stored points of the refined axes (0 = as many as fit into the base
    axis); absent = no refinement variants"""
    if case.get("refnc") is None:
        return None
    return {"ncmax": int(case["refnc"])}


def _coarse_length(nt, m, ncmax, dt=1.0, cutoff=None, step=None):
    """points of the axis with the step m*dt that lies inside the base axis of nt points: at
    most ncmax (0: all that fit), but with a tensor cut-off time enough of them that the axis
    contains it (the propagator looks the cut-off time up on ITS axis and raises "Value out of
    bounds" otherwise) and one step more.  step: the double that stands for m*dt on that axis."""
    fit = (int(nt) - 1) // m + 1
    nc = min(fit, int(ncmax)) if ncmax else fit
    if cutoff:
        step = m * float(dt) if step is None else float(step)
        need = int(numpy.floor(float(cutoff) / step + 1.0e-9)) + 2
        if need > fit:
            raise isolation.HarnessError("cut-off time beyond the refined axis")
        nc = max(nc, need)
    if nc < 3:
        raise isolation.HarnessError("refined axis has fewer than two stored steps")
    return nc


def _propagate(acc, kind, B, k, P, rho, kwargs, nref, cut, sfx="", tag="general", via="set"):
    """ONE propagate() call in the current context.  Returns the evolution (None if the call
    raised IndexError, reported).  Input non-interference: the caller's initial-state object
    must be bit-identical after the call (read in the same context before and after).
    A step refinement nref > 1 is requested with setDtRefinement (via="set") or with the
    argument of propagate (via="arg")."""
    if nref > 1:
        if via == "arg":
            kwargs = dict(kwargs, Nref=int(nref))
        elif via == "set":
            P.setDtRefinement(nref)
        else:
            raise isolation.HarnessError("unknown way of requesting a refinement: " + str(via))
    before = numpy.array(rho.data, copy=True)
    try:
        ev = P.propagate(rho, **kwargs)
    except IndexError as e:
        acc.add("b/propagate/%s/%s/%s-form-raises-IndexError" % (kind, cut, k),
                "propagate() with the %s form raised IndexError: %s (basis %s)"
                % (k, str(e)[:120], B))
        return None
    except TypeError as e:
        # e.g. numpy's casting error of an in-place operation on the caller's array; kept as
        # a violation of its own so that the other findings of the grid point are not lost
        acc.add("b/propagate/%s/%s/%s-form-raises-%s%s" % (kind, B, k, type(e).__name__, sfx),
                "propagate() with the %s form raised %s: %s (basis %s, initial state stored "
                "as %s)" % (k, type(e).__name__, str(e)[:160], B, before.dtype))
        return None
    except Exception as e:
        # the driver requests only refinements the axis ratio admits (Nref divides the number
        # of bath steps in one propagation step): a refusal means the routine counted another
        # number of bath steps
        if "Incompatible number of refinement steps" not in str(e):
            raise
        acc.add("b/refine/%s/%s/%s-form-refuses-admissible-refinement%s" % (kind, B, k, sfx),
                "propagate() with the %s form refused Nref = %d on an axis whose step is a "
                "multiple of the bath step that Nref divides (basis %s): %s"
                % (k, nref, B, str(e)[:120]))
        return None
    _unchanged(acc, "b/propagate/%s/%s/%s-form-alters-initial-state%s" % (kind, B, k, sfx),
               before, rho, "%s form, basis %s, initial state %s" % (k, B, tag))
    acc.frame(kind, B, k, sfx, ev, P)
    return ev


def _unchanged(acc, key, before, rho, where):
    acc.n += 1
    after = numpy.asarray(rho.data)
    if after.dtype != before.dtype or after.shape != before.shape:
        acc.add(key, "propagate() changed the caller's initial-state object (%s): dtype/shape "
                "%s%s -> %s%s" % (where, before.dtype, before.shape, after.dtype, after.shape))
    elif not numpy.array_equal(after, before):
        with numpy.errstate(all="ignore"):
            err = float(numpy.nanmax(numpy.abs(after - before)))
        acc.add(key, "propagate() changed the caller's initial-state object (%s): max |change "
                "of rho0.data| = %.3g (must be bit-identical)" % (where, err), {"err": err})


# ---------------------------------------------------------------------------
# systems of the Redfield sections
# ---------------------------------------------------------------------------
EPAT = {"distinct": [0.0, 100.0, 250.0, 420.0, 530.0],
        "degenerate": [0.0, 0.0, 250.0, 250.0, 530.0],
        "near": [0.0, 1.0, 250.0, 251.0, 530.0],
        # site energies NOT in ascending order (the eigenbasis is a permutation of the sites)
        "unsorted": [250.0, 0.0, 100.0, 530.0, 420.0]}


def _energies(case):
    e0 = 12000.0 if case["route"] == "aggregate" else 600.0
    return [e0 + x for x in EPAT[case["epat"]][:case["n"]]]


def _coupling(case):
    n = case["n"]
    if case["Jpat"] == "none":
        return [[0.0] * n for _ in range(n)]
    if case["Jpat"] == "chain":
        J = [[0.0] * n for _ in range(n)]
        vals = [60.0, -45.0, 30.0, -20.0]
        for i in range(n - 1):
            J[i][i + 1] = J[i + 1][i] = vals[i % len(vals)]
        return J
    if case["Jpat"] == "full":
        return systems.full_J(n, [60.0, -40.0, 25.0, 80.0, -15.0, 35.0])
    raise isolation.HarnessError("unknown coupling pattern")


def _bath(case):
    lam, tau = case["lam_tau"]
    b = {"ftype": case["ftype"], "reorg": float(lam), "cortime": float(tau),
         "T": float(case["T"])}
    if case.get("matsubara") is not None:
        b["matsubara"] = int(case["matsubara"])
    if case.get("bathpat") == "sitewise":
        # a different bath on every site (so that a permutation of the sites is visible)
        return [dict(b, reorg=float(lam) * (1.0 + 0.6 * i), cortime=float(tau) * (1.0 + 0.4 * i))
                for i in range(case["n"])]
    return b


class _System:
    def __init__(self, case, energies=None, J=None, bath=None, nt=None, dt=None):
        self.case = case
        self.route = case["route"]
        self.ta = systems.time_axis(nt or case["nt"], dt or case["dt"])
        en = energies if energies is not None else _energies(case)
        Jm = J if J is not None else _coupling(case)
        bath = bath if bath is not None else _bath(case)
        self.agg = None
        if self.route == "aggregate":
            self.agg = systems.aggregate(en, Jm, bath=bath, ta=self.ta)
            self.ham = self.agg.get_Hamiltonian()
            self.sbi = self.agg.get_SystemBathInteraction()
        else:
            self.ham, self.sbi = systems.ham_sbi(en, Jm, bath, self.ta)
        self.N = self.ham.dim
        self.Xop = _xop(self.N)

    def tensor(self, td, as_ops, cutoff=None):
        """One tensor, built the way the route says."""
        qr = isolation.qr()
        from quantarhei.qm import RedfieldRelaxationTensor, TDRedfieldRelaxationTensor
        cls = TDRedfieldRelaxationTensor if td else RedfieldRelaxationTensor
        kw = {"as_operators": as_ops}
        if cutoff is not None:
            kw["cutoff_time"] = float(cutoff)
        if self.route == "aggregate" and (td or cutoff is None):
            kw2 = dict(relaxation_theory="standard_Redfield", time_dependent=td,
                       as_operators=as_ops)
            if cutoff is not None:
                kw2["relaxation_cutoff_time"] = float(cutoff)
            rt, hh = self.agg.get_RelaxationTensor(self.ta, **kw2)
            isolation.reset_units()
            if hh is not self.ham:
                raise isolation.HarnessError("aggregate returned another Hamiltonian")
            return rt
        if self.route == "direct":
            return cls(self.ham, self.sbi, **kw)
        # the package's own protocol (opensystem.get_RelaxationTensor)
        self.ham.protect_basis()
        try:
            with qr.eigenbasis_of(self.ham):
                rt = cls(self.ham, self.sbi, **kw)
        finally:
            self.ham.unprotect_basis()
        return rt

    def hmatrix(self):
        """Matrix the propagator uses (site basis), None if the rotating-wave frame is on
        (then the generator is not an input of the reference model)."""
        if getattr(self.ham, "has_rwa", False):
            return None
        return numpy.array(self.ham.data, dtype=float, copy=True)


# ---------------------------------------------------------------------------
# clause (a): action on all matrix units, before / after conversion, in every basis
# ---------------------------------------------------------------------------
def _apply_units_inbasis(T, N):
    """4-index array of T.apply(E_cd).data for matrix units created in the CURRENT basis."""
    from quantarhei.qm import Operator
    out = numpy.zeros((N, N, N, N), dtype=numpy.complex128)
    for c in range(N):
        for d in range(N):
            op = Operator(data=_unit(N, c, d))
            res = T.apply(op)
            out[:, :, c, d] = res.data
    return out


def _apply_units_inplace(T, N):
    """the same with apply(copy=False): the operand itself carries the result."""
    from quantarhei.qm import Operator
    out = numpy.zeros((N, N, N, N), dtype=numpy.complex128)
    for c in range(N):
        for d in range(N):
            op = Operator(data=_unit(N, c, d))
            res = T.apply(op, copy=False)
            if res is not op:
                return None
            out[:, :, c, d] = op.data
    return out


def _apply_units_site(T, ops):
    """apply to operators created OUTSIDE; the result objects are returned (to be read after
    the context is left)."""
    return [[T.apply(o) for o in row] for row in ops]


def _site_units(N):
    from quantarhei.qm import Operator
    return [[Operator(data=_unit(N, c, d)) for d in range(N)] for c in range(N)]


def _results_tensor(res, N):
    out = numpy.zeros((N, N, N, N), dtype=numpy.complex128)
    for c in range(N):
        for d in range(N):
            out[:, :, c, d] = res[c][d].data
    return out


def _check_forms(acc, kind, mk_op, mk_tensor, ham, Xop, N, ref_from_op, prop):
    """Clauses (a) and (b) for one time-independent generator.

    mk_op / mk_tensor: build a fresh instance in operator / four-index form.
    ref_from_op(Top) -> site-basis reference 4-index tensor (independent formula)
    prop: dict(ta, H (matrix or None), L, method, nref, nt_cmp)"""
    from quantarhei.qm import ReducedDensityMatrixPropagator, ReducedDensityMatrix
    # every instance is built BEFORE any context is entered, from bit-identical inputs: a
    # Hamiltonian that has been through a context comes back with rounding-level changes, and
    # a tensor constructed outside eigenbasis_of(H) ("direct" route) is expressed in the
    # eigenvector gauge numpy.linalg.eigh happens to return for exactly those numbers
    Top = mk_op()
    Tt = mk_tensor()
    fresh = {B1: mk_op() for B1 in ZBASES}
    if prop.get("variants"):
        # expansion orders and conversion-after-construction histories (default call only)
        prop = dict(prop, methods=METHODS, late=_late_tensors(mk_op))
    if not Top.as_operators or Tt.as_operators:
        raise isolation.HarnessError("forms not as requested")
    Tref = ref_from_op(Top)
    tscale = max(float(numpy.max(numpy.abs(Tref))), 1.0e-300)
    acc.tscale = tscale

    # the four-index form must BE the reference action (absolute oracle, outside)
    acc.same("a/absolute/%s/tensor-data/out" % kind, "a.absolute", _arr(Tt.data), Tref,
             "four-index data vs reference formula (outside any context)", scale=tscale)

    # ---- before conversion ---------------------------------------------------
    for B in ZBASES:
        so, st = _site_units(N), _site_units(N)
        with _basis(B, ham, Xop):
            a_op = _apply_units_inbasis(Top, N)
            a_t = _apply_units_inbasis(Tt, N)
            i_op = _apply_units_inplace(Top, N)
            i_t = _apply_units_inplace(Tt, N)
            r_op = _apply_units_site(Top, so)
            r_t = _apply_units_site(Tt, st)
        acc.same("a/apply/%s/%s/op-vs-tensor" % (kind, B), "a.apply", a_op, a_t,
                 "operator form and four-index form applied to all %d matrix units (%s)"
                 % (N * N, B), scale=tscale)
        for form, ip, cp in (("op", i_op, a_op), ("tensor", i_t, a_t)):
            if ip is None:
                acc.add("a/apply-inplace/%s/%s/%s/returns-other-object" % (kind, form, B),
                        "apply(copy=False) did not return its operand")
            else:
                acc.same("a/apply-inplace/%s/%s/%s" % (kind, form, B), "a.apply", ip, cp,
                         "apply(copy=False) vs apply(copy=True), %s form, all matrix units, "
                         "basis %s" % (form, B), scale=tscale)
        # gauge-free absolute oracle: results read after the context is left
        acc.same("a/absolute/%s/op/%s" % (kind, B), "a.absolute", _results_tensor(r_op, N),
                 Tref, "operator form applied in basis %s vs reference formula" % B,
                 scale=tscale)
        acc.same("a/absolute/%s/tensor/%s" % (kind, B), "a.absolute",
                 _results_tensor(r_t, N), Tref,
                 "four-index form applied in basis %s vs reference formula" % B, scale=tscale)

    # ---- conversion in each basis, comparison in each basis --------------------
    conv = {}
    for B1 in ZBASES:
        Tc = fresh[B1]
        with _basis(B1, ham, Xop):
            Tc.convert_2_tensor()
        if Tc.as_operators:
            acc.add("a/converted-in-%s/%s/flag" % (B1, kind),
                    "as_operators still True after convert_2_tensor")
        conv[B1] = Tc
        for B in ZBASES:
            with _basis(B, ham, Xop):
                dc = _arr(Tc.data)
                dt_ = _arr(Tt.data)
                a_c = _apply_units_inbasis(Tc, N)
                a_t = _apply_units_inbasis(Tt, N)
            acc.same("a/converted-in-%s/%s/data/%s" % (B1, kind, B), "a.converted", dc, dt_,
                     "data after convert_2_tensor (done in %s) vs four-index form, read in %s"
                     % (B1, B), scale=tscale)
            acc.same("a/converted-in-%s/%s/apply/%s" % (B1, kind, B), "a.converted", a_c, a_t,
                     "action after convert_2_tensor (done in %s) vs four-index form, in %s"
                     % (B1, B), scale=tscale)

    # ---- (b) propagation of a spanning set of initial states --------------------
    _check_propagation(acc, kind, {"op": Top, "tensor": Tt}, conv, ham, Xop, N, prop, Tref)
    return Tref


def _check_refined(acc, kind, B, variants, conv_key, states, base, ref, ham, Xop, kwargs, cut,
                   td):
    """All step-refinement variants in one basis (one entry of the context: entering and
    leaving transforms every tensor): the spanning set is propagated with all three routes on
    the axis (nc, m*dt) with k sub-steps per stored step.

    Route agreement as for the base axis.  Time-independent generators (k = m): the k
    sub-steps ARE the steps of the base axis, so the stored points must be the points
    0, m, 2m, ... of the base run of the same route with Nref = 1 (`base`, read after the
    context is left) -- both runs apply the same polynomial of the same step, the truncation
    bound of their difference is zero and class R is left -- and the reference Taylor
    polynomial at those points.  Time-dependent tensors: route agreement; the same consistency
    only for k = m without a cut-off time (the sub-steps are then the steps of the bath axis,
    on which the tensor is given: no value between two bath points is needed)."""
    from quantarhei.qm import ReducedDensityMatrix
    rhos = {(vlab, tag, r): ReducedDensityMatrix(data=s.copy())
            for _, vlab, _, _, _ in variants for tag, s in states for r in ROUTES}
    got, objs = {}, {}
    with _basis(B, ham, Xop):
        for var, vlab, nc, vp, vc in variants:
            routes = {"op": vp["op"], "tensor": vp["tensor"], "conv": vc[conv_key]}
            for tag, s in states:
                for r in ROUTES:
                    ev = _propagate(acc, kind, B, r, routes[r], rhos[(vlab, tag, r)], kwargs,
                                    var[1], cut, sfx="/" + vlab, tag=tag, via=var[2])
                    if ev is None:
                        continue
                    got[(vlab, tag, r)] = _arr(ev.data)
                    objs[(vlab, tag, r)] = ev
    for var, vlab, nc, vp, vc in variants:
        m, k, via, form = var
        pick = slice(0, m * (nc - 1) + 1, m)
        for tag, s in states:
            g = {r: got[(vlab, tag, r)] for r in ROUTES if (vlab, tag, r) in got}
            for r, x in g.items():
                if x.shape[0] != nc:
                    acc.add("b/refine/%s/%s/%s/%s/stored-points" % (kind, r, B, vlab),
                            "%d stored points on an axis of %d points" % (x.shape[0], nc))
            what = ("state %s, axis step x%d (%s), %d sub-steps (%s), basis %s"
                    % (tag, m, form, k, via, B))
            if "tensor" in g:
                sc = max(1.0, float(numpy.max(numpy.abs(g["tensor"]))))
                if "op" in g:
                    if td:
                        key = "b/refine/td/coarser-propagation-axis/op-vs-tensor/%s/%s" % (B, vlab)
                    else:
                        key = "b/refine/%s/%s/%s/op-vs-tensor" % (kind, B, vlab)
                    acc.same(key, "b.refine.forms", g["op"], g["tensor"],
                             "operator form vs four-index form: " + what, scale=sc)
                if "conv" in g:
                    acc.same("b/refine/%s/%s/%s/converted-vs-tensor" % (kind, B, vlab),
                             "b.refine.forms", g["conv"], g["tensor"],
                             "converted form vs four-index form: " + what, scale=sc)
            elif "op" in g and "conv" in g:
                sc = max(1.0, float(numpy.max(numpy.abs(g["op"]))))
                acc.same("b/refine/%s/%s/%s/op-vs-converted" % (kind, B, vlab),
                         "b.refine.forms", g["op"], g["conv"],
                         "operator form vs converted form: " + what, scale=sc)
            if td and (k != m or cut != "nocut"):
                # sub-steps longer than the bath step sample another set of tensor values;
                # with a cut-off time the propagator freezes the tensor at the index the
                # cut-off time has on ITS axis: neither is a statement of the property
                continue
            for r in g:
                res = _arr(objs[(vlab, tag, r)].data)
                if r in base.get(tag, {}):
                    fine = _arr(base[tag][r].data)[pick]
                    acc.same("b/refine/%s/%s/%s/%s/differs-from-fine-axis-run"
                             % (kind, r, B, vlab), "b.refine.consistency", res, fine,
                             "%s form, %s: stored points vs the same points of the run with "
                             "Nref = 1 on the axis of the sub-steps" % (r, what),
                             scale=max(1.0, float(numpy.max(numpy.abs(fine)))))
                if tag in ref:
                    acc.same("b/refine-absolute/%s/%s/%s/%s" % (kind, r, B, vlab),
                             "b.refine.absolute", res, ref[tag][pick], "%s form, %s vs Taylor "
                             "polynomial of the reference Liouvillian" % (r, what),
                             scale=max(1.0, float(numpy.max(numpy.abs(ref[tag])))))


def _check_methods(acc, kind, B, methods, ns, routes, states, refm, ham, Xop, cut):
    """Expansion order of the integrator, propagate(rho, method=...), in one basis (one entry
    of the context): the spanning set is propagated with all three routes and every method on
    the short axis of ns points (ONE propagator per route serves all methods).

    Route agreement per method (class R: both forms must apply the polynomial of the SAME
    order).  Time-independent generators: the stored points equal the Taylor polynomial of the
    REQUESTED order L of the reference Liouvillian (refm[method][state], read after the context
    is left)."""
    from quantarhei.qm import ReducedDensityMatrix
    rhos = {(meth, tag, r): ReducedDensityMatrix(data=s.copy())
            for meth in methods for tag, s in states for r in ROUTES}
    got, objs = {}, {}
    with _basis(B, ham, Xop):
        for meth in methods:
            for tag, s in states:
                for r in ROUTES:
                    ev = _propagate(acc, kind, B, r, routes[r], rhos[(meth, tag, r)],
                                    {"method": meth}, 1, cut, sfx="/method=" + meth, tag=tag)
                    if ev is None:
                        continue
                    got[(meth, tag, r)] = _arr(ev.data)
                    objs[(meth, tag, r)] = ev
    for meth in methods:
        for tag, s in states:
            g = {r: got[(meth, tag, r)] for r in ROUTES if (meth, tag, r) in got}
            for r, x in g.items():
                if x.shape[0] != ns:
                    acc.add("b/method/%s/%s/%s/%s/stored-points" % (kind, r, B, meth),
                            "%d stored points on an axis of %d points" % (x.shape[0], ns))
            what = "state %s, method %s (order %d), basis %s" % (tag, meth, ORDER[meth], B)
            if "tensor" in g:
                sc = max(1.0, float(numpy.max(numpy.abs(g["tensor"]))))
                if "op" in g:
                    acc.same("b/method/%s/%s/%s/op-vs-tensor" % (kind, B, meth),
                             "b.method.forms", g["op"], g["tensor"],
                             "operator form vs four-index form: " + what, scale=sc)
                if "conv" in g:
                    acc.same("b/method/%s/%s/%s/converted-vs-tensor" % (kind, B, meth),
                             "b.method.forms", g["conv"], g["tensor"],
                             "converted form vs four-index form: " + what, scale=sc)
            elif "op" in g and "conv" in g:
                sc = max(1.0, float(numpy.max(numpy.abs(g["op"]))))
                acc.same("b/method/%s/%s/%s/op-vs-converted" % (kind, B, meth),
                         "b.method.forms", g["op"], g["conv"],
                         "operator form vs converted form: " + what, scale=sc)
            if tag in refm.get(meth, {}):
                for r in g:
                    acc.same("b/method-absolute/%s/%s/%s/%s" % (kind, r, B, meth),
                             "b.method.absolute", _arr(objs[(meth, tag, r)].data),
                             refm[meth][tag], "%s form, %s vs Taylor polynomial of that order "
                             "of the reference Liouvillian" % (r, what),
                             scale=max(1.0, float(numpy.max(numpy.abs(refm[meth][tag])))))


PRES = (None,) + BASES    # propagation before the conversion: none / in each basis


def _late_tensors(mk_op):
    """one fresh operator-form tensor per history (pre-conversion call, conversion basis)"""
    return {(pre, B1): mk_op() for B1 in BASES for pre in PRES}


def _check_late_conversion(acc, kind, late, lprops, ns, gen, freshres, ham, Xop, cut):
    """Histories of ONE propagator object whose tensor changes its representation:

        propagator created with the tensor in operator form
        [ -> propagate in basis B0 ]                 B0 in {-, out, H, X}
        -> tensor.convert_2_tensor() in basis B1     B1 in {out, H, X}
        -> propagate in EVERY basis B                (out, H, X in turn, the same propagator)

    i.e. 4 x 3 tensors/propagators, 3 calls after the conversion each; the general initial
    state, one fresh initial-state object per call, short axis of ns points.  All results are
    read after the contexts are left.  Every call after the conversion must reproduce what the
    four-index form gives in that basis for a fresh object (prefix of the base run), and, for
    B = B0, what the same propagator gave before the conversion; the call before the conversion
    must be the operator-form result.  The steps of the 12 histories are interleaved (all
    first calls, then all conversions, then all later calls), each context is entered once."""
    from quantarhei.qm import ReducedDensityMatrix

    # one fresh initial-state object per call, created outside the contexts (site basis)
    rho_pre = {key: ReducedDensityMatrix(data=gen.copy()) for key in lprops}
    rho_post = {(key, B): ReducedDensityMatrix(data=gen.copy()) for key in lprops
                for B in BASES}
    pre_ev, post_ev = {}, {}
    for B0 in BASES:
        with _basis(B0, ham, Xop):
            for (pre, B1), P in lprops.items():
                if pre == B0:
                    pre_ev[(pre, B1)] = _propagate(acc, kind, B0, "op", P, rho_pre[(pre, B1)],
                                                   {}, 1, cut, sfx="/before-conversion")
    for B1 in BASES:
        with _basis(B1, ham, Xop):
            for (pre, b1), T in late.items():
                if b1 == B1:
                    T.convert_2_tensor()
    for (pre, B1), T in late.items():
        if T.as_operators:
            acc.add("b/convert-after-propagator/%s/converted-in-%s/flag" % (kind, B1),
                    "as_operators still True after convert_2_tensor")
    for B in BASES:
        with _basis(B, ham, Xop):
            for key, P in lprops.items():
                post_ev[(key, B)] = _propagate(acc, kind, B, "converted-after-construction", P,
                                               rho_post[(key, B)], {}, 1, cut,
                                               sfx="/after-conversion")
    pre_res = {k: None if ev is None else _arr(ev.data) for k, ev in pre_ev.items()}
    for (pre, B1), r in pre_res.items():
        exp = freshres.get(pre, {}).get("op")
        if r is None or exp is None:
            continue
        acc.same("b/convert-after-propagator/%s/before-conversion/%s" % (kind, pre),
                 "b.late", r, exp[:ns], "propagator created with the operator form, called in "
                 "basis %s before the conversion vs the operator-form route"
                 % pre, scale=max(1.0, float(numpy.max(numpy.abs(exp[:ns])))))
    for ((pre, B1), B), ev in post_ev.items():
        if ev is None:
            continue
        r = _arr(ev.data)
        hist = ("propagator created with the operator form%s, tensor converted in %s, "
                "propagated in %s" % ("" if pre is None else ", called in %s" % pre, B1, B))
        if r.shape[0] != ns:
            acc.add("b/convert-after-propagator/%s/converted-in-%s/propagated-in-%s/"
                    "stored-points" % (kind, B1, B), "%d stored points on an axis of %d"
                    % (r.shape[0], ns))
            continue
        exp = freshres.get(B, {}).get("tensor")
        if exp is not None:
            acc.same("b/convert-after-propagator/%s/converted-in-%s/propagated-in-%s/"
                     "differs-from-four-index-form" % (kind, B1, B), "b.late", r, exp[:ns],
                     hist + " vs the four-index form in that basis",
                     scale=max(1.0, float(numpy.max(numpy.abs(exp[:ns])))))
        if pre == B and pre_res.get((pre, B1)) is not None:
            b = pre_res[(pre, B1)]
            acc.same("b/convert-after-propagator/%s/converted-in-%s/propagated-in-%s/"
                     "differs-from-result-before-conversion" % (kind, B1, B), "b.late", r, b,
                     hist + " vs the result of the same propagator in that basis before the "
                     "conversion", scale=max(1.0, float(numpy.max(numpy.abs(b)))))


def _check_propagation(acc, kind, forms, conv, ham, Xop, N, prop, Tref, td=False):
    """forms: {"op": T, "tensor": T}; conv: {basis: converted tensor} (used in its own basis).
    Every propagation of the spanning set is done with all forms in all bases (one fresh
    initial-state object per call, which must come back bit-identical); then all sequences of
    prop["hist"] routes on ONE object holding the general state, in every basis."""
    from quantarhei.qm import ReducedDensityMatrixPropagator, ReducedDensityMatrix
    ta = prop["ta"]
    states = RA.spanning_states(N)
    if not RA.spans([s for _, s in states]):
        raise isolation.HarnessError("initial states do not span")
    props = {k: ReducedDensityMatrixPropagator(ta, ham, T) for k, T in forms.items()}
    cprops = {B: ReducedDensityMatrixPropagator(ta, ham, T) for B, T in conv.items()}
    kwargs = {}
    if prop.get("method"):
        kwargs["method"] = prop["method"]
    nref = int(prop.get("nref", 1))
    ref = {}
    if (not td) and prop.get("H") is not None and Tref is not None:
        for tag, s in states:
            ref[tag] = RA.taylor_propagate(prop["H"], Tref, s, ta.step, ta.length,
                                           L=prop.get("L", 4), nref=nref)
    cut = "cutoff" if prop.get("cutoff") else "nocut"
    hist = int(prop.get("hist", 2))
    # step-refinement variants: one propagator per (variant, route) on the coarser axis (a
    # requested refinement stays with the propagator object), created like the base ones
    # before the first context is entered
    variants = []
    if prop.get("refine") and nref == 1:
        for var in _refinements(td, prop.get("ratios") or NREFS, ta.step):
            cstep = _coarse_step(ta.step, var[0], var[3])
            nc = _coarse_length(ta.length, var[0], prop["refine"].get("ncmax"), ta.step,
                                prop.get("cutoff") if td else None, step=cstep)
            tac = systems.time_axis(nc, cstep)
            vp = {k: ReducedDensityMatrixPropagator(tac, ham, T) for k, T in forms.items()}
            vc = {B: ReducedDensityMatrixPropagator(tac, ham, T) for B, T in conv.items()}
            variants.append((var, _vlab(var, td), nc, vp, vc))
    # short axis (step of the base axis; with a tensor cut-off time long enough to contain it)
    # of the expansion-order variants and of the conversion-after-construction histories: the
    # scheme is causal, a run on it is a prefix of the run on the base axis
    methods = tuple(prop.get("methods") or ())
    late = prop.get("late") or {}
    ns, mroutes, refm, lprops = None, {}, {}, {}
    if (methods or late) and not (prop.get("refine") and nref == 1 and not kwargs):
        raise isolation.HarnessError("variants on the short axis need the default call")
    # the rotating-frame block (default call only) also runs on the short axis
    rwa = bool(prop.get("refine") and nref == 1 and not kwargs)
    if methods or late or rwa:
        ns = _coarse_length(ta.length, 1, prop["refine"].get("ncmax"), ta.step,
                            prop.get("cutoff") if td else None)
        tas = systems.time_axis(ns, ta.step)
        if methods:
            # ONE propagator per route for all methods: the method is an argument of the call
            mroutes = {k: ReducedDensityMatrixPropagator(tas, ham, T) for k, T in forms.items()}
            for B, T in conv.items():
                mroutes[("conv", B)] = ReducedDensityMatrixPropagator(tas, ham, T)
            if ref:
                for meth in methods:
                    refm[meth] = {tag: RA.taylor_propagate(prop["H"], Tref, s, tas.step, ns,
                                                           L=ORDER[meth])
                                  for tag, s in states}
        for key, T in late.items():
            if not T.as_operators:
                raise isolation.HarnessError("late-conversion tensor not in operator form")
            # the propagator is created while the tensor is held as operators
            lprops[key] = ReducedDensityMatrixPropagator(tas, ham, T)
    # initial states of the shared-object histories: (storage label, matrix, sequence length)
    gen = _general_state(N)
    gens = [("complex", gen, hist),
            ("real-dtype", numpy.array(gen.real, dtype=numpy.float64), max(1, hist - 1))]
    freshres = {}         # basis -> route -> general state propagated from a fresh object
    for B in ZBASES:
        routes = {"op": props["op"], "tensor": props["tensor"], "conv": cprops[B]}
        keep = []

        def _one_state(tag, rho):
            got, objs = {}, {}
            for k in ROUTES:
                ev = _propagate(acc, kind, B, k, routes[k], rho[k], kwargs, nref, cut, tag=tag)
                if ev is None:
                    continue
                got[k] = _arr(ev.data)
                objs[k] = ev
            return got, objs

        done = []
        if B in BASES:
            # the context is entered anew for every state
            for tag, s in states:
                rho = {k: ReducedDensityMatrix(data=s.copy()) for k in ROUTES}
                with _basis(B, ham, Xop):
                    got, objs = _one_state(tag, rho)
                done.append((tag, got, objs))
        else:
            # the complex basis: one entry of the context for the whole spanning set
            rhos = {tag: {k: ReducedDensityMatrix(data=s.copy()) for k in ROUTES}
                    for tag, s in states}
            with _basis(B, ham, Xop):
                for tag, s in states:
                    got, objs = _one_state(tag, rhos[tag])
                    done.append((tag, got, objs))
        for tag, got, objs in done:
            keep.append((tag, objs))
            if "tensor" in got:
                sc = max(1.0, float(numpy.max(numpy.abs(got["tensor"]))))
                if "op" in got:
                    acc.same("b/propagate/%s/%s/op-vs-tensor" % (kind, B), "b.forms",
                             got["op"], got["tensor"], "state %s propagated with operator "
                             "form vs four-index form inside basis %s" % (tag, B), scale=sc)
                if "conv" in got:
                    acc.same("b/propagate/%s/%s/converted-vs-tensor" % (kind, B), "b.forms",
                             got["conv"], got["tensor"], "state %s propagated with the form "
                             "converted in %s vs four-index form" % (tag, B), scale=sc)
            elif "op" in got and "conv" in got:
                sc = max(1.0, float(numpy.max(numpy.abs(got["op"]))))
                acc.same("b/propagate/%s/%s/op-vs-converted" % (kind, B), "b.forms",
                         got["op"], got["conv"], "state %s propagated with operator form vs "
                         "converted form inside basis %s" % (tag, B), scale=sc)
        # absolute oracle on the results read after the context is left
        for tag, objs in keep:
            if tag not in ref:
                continue
            for k, ev in objs.items():
                sc = max(1.0, float(numpy.max(numpy.abs(ref[tag]))))
                acc.same("b/absolute/%s/%s/%s" % (kind, k, B), "b.absolute", _arr(ev.data),
                         ref[tag], "state %s propagated with the %s form in basis %s vs Taylor "
                         "polynomial of the reference Liouvillian" % (tag, k, B), scale=sc)
        if B not in BASES:
            # the complex basis: clause (b) for the spanning set on the base axis only
            continue
        # ---- step refinement: all routes again, on the coarser axes --------------------
        if variants:
            _check_refined(acc, kind, B, variants, B, states, dict(keep), ref, ham, Xop,
                           kwargs, cut, td)
        # ---- expansion order: all routes again with every method, on the short axis -------
        if methods:
            _check_methods(acc, kind, B, methods, ns,
                           {"op": mroutes["op"], "tensor": mroutes["tensor"],
                            "conv": mroutes[("conv", B)]}, states, refm, ham, Xop, cut)
        # ---- one initial-state OBJECT handed to several propagations -------------------
        # expected result of route k for the general state: linear combination of the
        # spanning-set results of that route (all read after the context is left: gauge free)
        spanres = {k: {tag: _arr(objs[k].data) for tag, objs in keep}
                   for k in ROUTES if all(k in objs for _, objs in keep)}
        for label, g0, depth in gens:
            sfx = "" if label == "complex" else "/" + label
            coef = _expansion(states, g0.astype(numpy.complex128))
            csum = max(1.0, float(sum(abs(c) for c in coef.values())))
            lin = {k: sum(coef[tag] * r for tag, r in d.items()) for k, d in spanres.items()}
            runs = []
            for seq in _sequences(depth):
                rho0 = ReducedDensityMatrix(data=g0.copy())
                evs = []
                with _basis(B, ham, Xop):
                    for k in seq:
                        evs.append(_propagate(acc, kind, B, k, routes[k], rho0, kwargs, nref,
                                              cut, sfx))
                runs.append((seq, [None if ev is None else _arr(ev.data) for ev in evs]))
            # reference of a route: its first call on a fresh object (first sequence starting
            # with it)
            fresh = {}
            for seq, res in runs:
                if seq[0] not in fresh and res[0] is not None:
                    fresh[seq[0]] = res[0]
            if label == "complex":
                freshres[B] = fresh
            for k, r in fresh.items():
                if k in lin:
                    acc.same("b/linearity/%s/%s/%s%s" % (kind, k, B, sfx), "b.linearity", r,
                             lin[k], "general state (%s storage) propagated with the %s form in "
                             "basis %s vs the linear combination of the spanning-set results"
                             % (label, k, B),
                             scale=max(1.0, float(numpy.max(numpy.abs(r)))) * csum)
            for seq, res in runs:
                for i, (k, r) in enumerate(zip(seq, res)):
                    if r is None:
                        break
                    if k not in fresh or r is fresh[k]:
                        continue
                    sc = max(1.0, float(numpy.max(numpy.abs(fresh[k]))))
                    if i == 0:
                        # another fresh object, later in the life of the same propagator
                        acc.same("b/fresh-object-again/%s/%s/%s%s" % (kind, B, k, sfx),
                                 "b.shared", r, fresh[k], "the %s form (basis %s) gives two "
                                 "different results for two fresh objects holding the same "
                                 "initial state (%s storage)" % (k, B, label), scale=sc)
                        continue
                    acc.same("b/shared-initial-state/%s/%s/%s%s"
                             % (kind, B, "-then-".join(seq[:i + 1]), sfx), "b.shared", r,
                             fresh[k], "call %d of the sequence %s on ONE initial-state object "
                             "(%s storage, basis %s): the %s form does not reproduce its result "
                             "for a fresh object" % (i + 1, "->".join(seq), label, B, k),
                             scale=sc)
    # ---- conversion AFTER the propagator was created -------------------------------------
    if late:
        _check_late_conversion(acc, kind, late, lprops, ns, gen, freshres, ham, Xop, cut)
    # ---- propagators that also carry a PureDephasing object ------------------------------
    if prop.get("pdeph") and rwa and not td:
        _check_pdeph(acc, kind, forms, conv, ham, Xop, N, ta.step, ns, states, cut,
                     prop["pdeph"])
    # ---- rotating frame of the Hamiltonian (changes the Hamiltonian object: last) ----------
    if rwa:
        _check_rwa(acc, kind, forms, conv, ham, Xop, N, tas, ns, states, cut,
                   None if td else prop.get("H"), None if td else Tref, prop.get("L", 4))
    _check_frames(acc)


PDEPH_TYPES = ("Lorentzian", "Gaussian")


def _pdeph_rates(N, dtype):
    """Symmetric matrix of pure-dephasing constants with zero diagonal, all off-diagonal
    values different: rates (1/fs) for "Lorentzian", their squares (1/fs^2) for "Gaussian"."""
    g = numpy.zeros((N, N), dtype=float)
    for a in range(N):
        for b in range(N):
            if a != b:
                g[a, b] = 1.0 / (150.0 + 40.0 * (a + b) + 25.0 * abs(a - b))
    if dtype == "Gaussian":
        g = g ** 2
    elif dtype != "Lorentzian":
        raise isolation.HarnessError("unknown type of pure dephasing: " + str(dtype))
    return g


def _start_label(t0):
    return "axis-start-zero" if float(t0) == 0.0 else "axis-start-nonzero"


def _check_pdeph(acc, kind, forms, conv, ham, Xop, N, dt, ns, span, cut, spec):
    """Propagators that also carry a PureDephasing object:
    ReducedDensityMatrixPropagator(axis, H, RTensor=T, PDeph=PureDephasing(rates, dtype)).
    After every (sub-)step both time-independent routines multiply the density matrix element
    by element with the dephasing factor of that step; the Gaussian one depends on the TIME of
    the step, which each routine takes from the propagation axis on its own.

    Complete sub-product inside the grid point: dephasing type {Lorentzian, Gaussian} x start
    of the propagation axis (spec["starts"]: zero and non-zero) x Nref (spec["nrefs"]) x 3
    routes x 3 bases x initial states: the whole spanning set (decides every initial state, by
    linearity) in the bases spec["span_bases"] (outside any context), the general initial
    state (full rank, every element non-zero and complex) in the other ones; short axis of ns points with the step dt, one fresh PureDephasing object and
    one fresh propagator per route and variant.  Claimed: route
    agreement (operator / four-index / converted form), class R, and what every call is
    checked for (initial state untouched, frame marker).  No absolute value: the property does
    not say what pure dephasing is (and the package applies its constants element by element
    in whatever basis is current)."""
    from quantarhei.qm import ReducedDensityMatrixPropagator, ReducedDensityMatrix
    from quantarhei.qm import PureDephasing
    variants = []
    for dtype in PDEPH_TYPES:
        for t0 in spec["starts"]:
            for nref in spec["nrefs"]:
                axis = systems.time_axis(ns, dt, float(t0))
                if float(axis.data[0]) != float(t0):
                    raise isolation.HarnessError("propagation axis does not start at %r" % t0)

                def mk(T, axis=axis, dtype=dtype):
                    return ReducedDensityMatrixPropagator(
                        axis, ham, RTensor=T, PDeph=PureDephasing(_pdeph_rates(N, dtype),
                                                                  dtype=dtype))
                vp = {k: mk(T) for k, T in forms.items()}
                vc = {B: mk(T) for B, T in conv.items() if B in BASES}
                vlab = "%s/%s%s" % (dtype, _start_label(t0),
                                    "" if nref == 1 else "/Nref=%d" % nref)
                variants.append((vlab, dtype, float(t0), int(nref), vp, vc))
    for B in BASES:
        states = span if B in spec["span_bases"] else [("general", _general_state(N))]
        rhos = {(i, tag, r): ReducedDensityMatrix(data=s.copy())
                for i in range(len(variants)) for tag, s in states for r in ROUTES}
        got = {}
        with _basis(B, ham, Xop):
            for i, (vlab, dtype, t0, nref, vp, vc) in enumerate(variants):
                routes = {"op": vp["op"], "tensor": vp["tensor"], "conv": vc[B]}
                for tag, s in states:
                    for r in ROUTES:
                        ev = _propagate(acc, kind, B, r, routes[r], rhos[(i, tag, r)], {}, nref,
                                        cut, sfx="/pure-dephasing/" + vlab, tag=tag, via="arg")
                        if ev is not None:
                            got[(i, tag, r)] = _arr(ev.data)
        for i, (vlab, dtype, t0, nref, vp, vc) in enumerate(variants):
            for tag, s in states:
                g = {r: got[(i, tag, r)] for r in ROUTES if (i, tag, r) in got}
                for r, x in g.items():
                    if x.shape[0] != ns:
                        acc.add("b/pure-dephasing/%s/%s/%s/%s/stored-points" % (kind, vlab, B, r),
                                "%d stored points on an axis of %d points" % (x.shape[0], ns))
                what = ("state %s, propagator with PureDephasing(dtype=%r) on TimeAxis(%g, %d, "
                        "%g), Nref = %d, basis %s" % (tag, dtype, t0, ns, dt, nref, B))
                if "tensor" in g:
                    sc = max(1.0, float(numpy.max(numpy.abs(g["tensor"]))))
                    if "op" in g:
                        acc.same("b/pure-dephasing/%s/%s/%s/op-vs-tensor" % (kind, vlab, B),
                                 "b.pdeph.forms", g["op"], g["tensor"],
                                 "operator form vs four-index form: " + what, scale=sc)
                    if "conv" in g:
                        acc.same("b/pure-dephasing/%s/%s/%s/converted-vs-tensor"
                                 % (kind, vlab, B), "b.pdeph.forms", g["conv"], g["tensor"],
                                 "converted form vs four-index form: " + what, scale=sc)
                elif "op" in g and "conv" in g:
                    sc = max(1.0, float(numpy.max(numpy.abs(g["op"]))))
                    acc.same("b/pure-dephasing/%s/%s/%s/op-vs-converted" % (kind, vlab, B),
                             "b.pdeph.forms", g["op"], g["conv"],
                             "operator form vs converted form: " + what, scale=sc)


def _rwa_absolute_bases(H, omega):
    """Bases in which the rotating-frame run is the run of the reference generator
    H - diag(omega): the site basis always; eigenbasis_of(H) where the frame commutes with the
    Hamiltonian (no element of H between states with different frame frequencies) and the
    states keep their places in the ascending order of the eigenvalues (the frame frequencies
    are attached to the POSITIONS of the states) -- in any other basis the package subtracts
    diag(omega) from the transformed matrix, which is another operator (route agreement is
    claimed there, no absolute value)."""
    out = ["out"]
    H = numpy.asarray(H)
    N = H.shape[0]
    for a in range(N):
        for b in range(N):
            if omega[a] != omega[b] and H[a, b] != 0:
                return out
    # H is block diagonal; the blocks are index ranges: every eigenvector lives in one block,
    # the positions are kept iff the spectra of consecutive blocks do not interleave
    starts = [0] + [i for i in range(1, N) if omega[i] != omega[i - 1]]
    top = -numpy.inf
    for k, lo in enumerate(starts):
        hi = starts[k + 1] if k + 1 < len(starts) else N
        ev = numpy.linalg.eigvalsh(H[lo:hi, lo:hi])
        if not float(ev[0]) > top:
            return out
        top = float(ev[-1])
    out.append("H")
    return out


def _check_rwa(acc, kind, forms, conv, ham, Xop, N, tas, ns, states, cut, H, Tref, L):
    """Rotating frame.  Hamiltonian.set_rwa(blocks) makes every propagation routine integrate
    with H - diag(Omega) (Omega = block averages of the site energies) and return an evolution
    marked is_in_rwa, which ReducedDensityMatrixEvolution.convert_from_RWA(H) takes to the
    laboratory frame.  "The same dynamics" is a statement about what the caller holds after that
    conversion.  Plain Hamiltonians get the frame here, AFTER the tensors were made (blocks
    RWA_BLOCKS: ground state | the rest); aggregate Hamiltonians carry it from the start.

    Complete sub-product inside the grid point: spanning set x 3 routes x all bases of ZBASES
    (short axis, default call, one fresh propagator per route).  Per state:
      * route agreement of the data as returned (read in the context),
      * route agreement in the laboratory frame (every result is converted with
        convert_from_RWA after the context is left),
      * time-independent generators with a plain Hamiltonian: laboratory-frame result ==
        Taylor polynomial of the reference Liouvillian of H - diag(Omega), times
        exp(-i (Omega_a - Omega_b) t)  (mc/refmodels/relax_action.py; class R), in the bases of
        _rwa_absolute_bases."""
    from quantarhei.qm import ReducedDensityMatrixPropagator, ReducedDensityMatrix
    if N < 2:
        return
    if not getattr(ham, "has_rwa", False):
        ham.set_rwa(list(RWA_BLOCKS))
    if not ham.has_rwa:
        raise isolation.HarnessError("rotating frame not set")
    props = {k: ReducedDensityMatrixPropagator(tas, ham, T) for k, T in forms.items()}
    cprops = {B: ReducedDensityMatrixPropagator(tas, ham, T) for B, T in conv.items()}
    times = numpy.array(tas.data, dtype=float)
    ref, absb = {}, ()
    if H is not None and Tref is not None:
        om = RA.rwa_frequencies(H, RWA_BLOCKS)
        absb = _rwa_absolute_bases(H, om)
        Hr = RA.rwa_hamiltonian(H, om)
        for tag, s in states:
            ref[tag] = RA.rwa_to_lab(RA.taylor_propagate(Hr, Tref, s, tas.step, ns, L=L), om,
                                     times)
    sfx = "/rwa"
    for B in ZBASES:
        routes = {"op": props["op"], "tensor": props["tensor"], "conv": cprops[B]}
        rhos = {(tag, r): ReducedDensityMatrix(data=s.copy()) for tag, s in states
                for r in ROUTES}
        got, objs = {}, {}
        with _basis(B, ham, Xop):
            for tag, s in states:
                for r in ROUTES:
                    ev = _propagate(acc, kind, B, r, routes[r], rhos[(tag, r)], {}, 1, cut,
                                    sfx=sfx, tag=tag)
                    if ev is None:
                        continue
                    got[(tag, r)] = _arr(ev.data)
                    objs[(tag, r)] = ev
        # laboratory frame: converted outside every context (the frame frequencies belong
        # to the states of the site basis)
        lab = {}
        for key, ev in objs.items():
            ev.convert_from_RWA(ham)
            lab[key] = _arr(ev.data)
            if ev.is_in_rwa:
                acc.add("b/rwa/%s/%s/still-marked-after-convert_from_RWA" % (kind, B),
                        "evolution still marked is_in_rwa after convert_from_RWA")
        for tag, s in states:
            for frame, res in (("as-returned", got), ("lab-frame", lab)):
                g = {r: res[(tag, r)] for r in ROUTES if (tag, r) in res}
                what = ("state %s propagated with the Hamiltonian in the rotating frame "
                        "(blocks %s), basis %s, %s" % (tag, list(ham.rwa_indices), B,
                        "data as returned" if frame == "as-returned" else
                        "after convert_from_RWA"))
                if "tensor" in g:
                    sc = max(1.0, float(numpy.max(numpy.abs(g["tensor"]))))
                    if "op" in g:
                        acc.same("b/rwa/%s/%s/%s/op-vs-tensor" % (kind, B, frame), "b.rwa.forms",
                                 g["op"], g["tensor"], "operator form vs four-index form: "
                                 + what, scale=sc)
                    if "conv" in g:
                        acc.same("b/rwa/%s/%s/%s/converted-vs-tensor" % (kind, B, frame),
                                 "b.rwa.forms", g["conv"], g["tensor"],
                                 "converted form vs four-index form: " + what, scale=sc)
                elif "op" in g and "conv" in g:
                    sc = max(1.0, float(numpy.max(numpy.abs(g["op"]))))
                    acc.same("b/rwa/%s/%s/%s/op-vs-converted" % (kind, B, frame), "b.rwa.forms",
                             g["op"], g["conv"], "operator form vs converted form: " + what,
                             scale=sc)
            if tag in ref and B in absb:
                for r in ROUTES:
                    if (tag, r) in lab:
                        acc.same("b/rwa-absolute/%s/%s/%s/lab-frame" % (kind, r, B),
                                 "b.rwa.absolute", lab[(tag, r)], ref[tag], "%s form, state %s, "
                                 "rotating-frame run in basis %s taken to the laboratory frame "
                                 "vs Taylor polynomial of the reference Liouvillian of "
                                 "H - diag(Omega) times exp(-i(Omega_a - Omega_b)t)"
                                 % (r, tag, B),
                                 scale=max(1.0, float(numpy.max(numpy.abs(ref[tag])))))


def _check_frames(acc):
    """Frame marker (is_in_rwa) of every evolution returned in this grid point: all routes
    called in the same basis with the Hamiltonian in the same state must mark their results
    alike (with equal data, the marker decides what convert_from_RWA makes of them).
    Reference = the four-index form (its first kind of call)."""
    for (kind, B, has), d in acc.frames.items():
        tk = [ks for ks in d if ks[0] == "tensor"]
        rk = tk[0] if tk else next(iter(d))
        refset = d[rk]
        for (k, sfx), fl in d.items():
            acc.n += 1
            if fl != refset or len(fl) != 1:
                acc.add("b/frame-marker/%s/%s/%s-form" % (kind, B, k),
                        "evolutions returned by the %s form (basis %s, calls%s; Hamiltonian "
                        "has_rwa = %s) are marked is_in_rwa = %s, those of the %s form%s "
                        "is_in_rwa = %s" % (k, B, sfx or " on the base axis", has, sorted(fl),
                                            rk[0], rk[1], sorted(refset)))


# ---------------------------------------------------------------------------
# section "redfield"
# ---------------------------------------------------------------------------
def _nontrivial_system(case):
    J = _coupling(case)
    # resonance coupling != 0: the eigenbasis differs from the site basis, the tensor has
    # population-transfer and non-secular elements
    return any(abs(J[i][j]) > 0 for i in range(case["n"]) for j in range(case["n"]))


def _ref_redfield(Top):
    Km = numpy.array(Top.Km, dtype=complex, copy=True)
    Lm = numpy.array(Top.Lm, dtype=complex, copy=True)
    if numpy.max(numpy.abs(Km.imag)) > 0:
        raise isolation.HarnessError("complex K_m in a real Hamiltonian's eigenbasis")
    return RA.redfield_tensor(list(Km), list(Lm), Km.shape[1])


def eval_redfield(case):
    acc = _Acc()
    S = _System(case)
    prop = {"ta": S.ta, "H": S.hmatrix(), "L": {"short-exp": 4, "short-exp-2": 2,
                                               "short-exp-6": 6}[case["method"]],
            "method": case["method"], "nref": case["nref"], "hist": case.get("hist", 2),
            "refine": _refine_spec(case), "pdeph": case.get("pdeph")}
    if prop["method"] == "short-exp":
        prop["method"] = None              # the default of propagate()
    prop["variants"] = bool(prop["refine"] and prop["method"] is None and prop["nref"] == 1)
    Tref = _check_forms(acc, "redfield", lambda: S.tensor(False, True),
                        lambda: S.tensor(False, False), S.ham, S.Xop, S.N, _ref_redfield, prop)
    # non-secular content: the tensor couples populations and coherences
    offd = float(numpy.max(numpy.abs(Tref)))
    return {"nontrivial": _nontrivial_system(case) and offd > 0,
            "outcome": ["redfield", case["route"], S.N, round(offd, 9),
                        round(float(numpy.sum(numpy.abs(Tref))), 9)],
            "violations": acc.viol, "n": acc.n, "info": {"dev": acc.dev}}


# ---------------------------------------------------------------------------
# section "lindblad"
# ---------------------------------------------------------------------------
def _lindblad_h(case):
    N = case["N"]
    en = [0.0, 110.0, 260.0, 390.0, 480.0][:N]
    h = numpy.diag(en)
    if case["hpat"] in ("coupled", "complex"):
        vals = [50.0, -35.0, 20.0, 65.0, -25.0, 40.0, 15.0, -55.0, 30.0, 45.0]
        k = 0
        for i in range(N):
            for j in range(i + 1, N):
                h[i, j] = h[j, i] = vals[k % len(vals)]
                k += 1
    if case["hpat"] == "complex":
        # complex Hermitian: eigenbasis_of(H) is a complex unitary transformation
        ivals = [30.0, 45.0, -25.0, 20.0, 35.0, -15.0, 40.0, 10.0, -50.0, 25.0]
        h = h.astype(numpy.complex128)
        k = 0
        for i in range(N):
            for j in range(i + 1, N):
                h[i, j] += 1.0j * ivals[k % len(ivals)]
                h[j, i] -= 1.0j * ivals[k % len(ivals)]
                k += 1
    return h


RATES = [0.01, 0.002]


def eval_lindblad(case):
    qr = isolation.qr()
    from quantarhei.qm import LindbladForm, SystemBathInteraction, Operator
    acc = _Acc()
    N = case["N"]
    with qr.energy_units("1/cm"):
        ham = qr.Hamiltonian(data=_lindblad_h(case))
    Xop = _xop(N)
    Ks = [_unit(N, i, j).real for (i, j) in case["ops"]]
    rates = RATES[:len(Ks)]

    def sbi():
        # a fresh interaction object per tensor: LindbladForm keeps a reference to sbi.KK
        return SystemBathInteraction([Operator(data=K.copy()) for K in Ks], rates=list(rates))

    ta = systems.time_axis(case["nt"], case["dt"])
    H = numpy.array(ham.data, copy=True)
    if case["hpat"] == "complex":
        if RA.complexity_of_eigenbasis(H) < 0.05:
            raise isolation.HarnessError("eigenbasis of the complex Hamiltonian is (nearly) real")
    else:
        H = numpy.array(H, dtype=float)
    prop = {"ta": ta, "H": H, "L": 4, "method": None, "nref": 1, "hist": case.get("hist", 2),
            "refine": _refine_spec(case), "pdeph": case.get("pdeph")}
    prop["variants"] = bool(prop["refine"])
    Tref = RA.gksl_tensor(Ks, rates, N)
    _check_forms(acc, "lindblad", lambda: LindbladForm(ham, sbi(), as_operators=True),
                 lambda: LindbladForm(ham, sbi(), as_operators=False), ham, Xop, N,
                 lambda Top: Tref, prop)
    nonsym = any(i != j for (i, j) in case["ops"])
    return {"nontrivial": bool(nonsym and case["hpat"] != "diagonal"),
            "outcome": ["lindblad", N, case["hpat"], [list(o) for o in case["ops"]]],
            "violations": acc.viol, "n": acc.n, "info": {"dev": acc.dev}}


# ---------------------------------------------------------------------------
# section "td": clause (c), conversion and propagation of the time-dependent tensor
# ---------------------------------------------------------------------------
def eval_td(case):
    acc = _Acc()
    S = _System(case)
    N, ham, Xop = S.N, S.ham, S.Xop
    cutoff = None if case["cutoff"] is None else float(case["cutoff"]) * S.ta.length * S.ta.step
    ctag = "nocut" if cutoff is None else "cutoff"
    TDt = S.tensor(True, False, cutoff)
    TDo = S.tensor(True, True, cutoff)
    TIt = S.tensor(False, False, cutoff)
    TIo = S.tensor(False, True, cutoff)
    fresh = {B1: S.tensor(True, True, cutoff) for B1 in ZBASES}   # see _check_forms
    late = _late_tensors(lambda: S.tensor(True, True, cutoff))
    tscale = max(float(numpy.max(numpy.abs(_arr(TIt.data)))), 1.0e-300)

    # ---- (c) exact limits -----------------------------------------------------
    d = _arr(TDt.data)
    if d.ndim != 5:
        acc.add("c/td/%s/shape" % ctag, "TD tensor data has shape %s" % (d.shape,))
    else:
        nz = float(numpy.max(numpy.abs(d[0])))
        acc.worst("c.zero", nz)
        if nz != 0.0:
            acc.add("c/td/%s/tensor/data0-nonzero" % ctag,
                    "TD tensor at time index 0 is not exactly zero: max |R(0)| = %.3g" % nz)
        acc.same("c/td/%s/tensor/last-vs-time-independent/out" % ctag, "c.last", d[-1],
                 _arr(TIt.data), "TD tensor at its last time index vs the time-independent "
                 "tensor from the same inputs", scale=tscale)
        for Bc in ("H", "Z"):
            with _basis(Bc, ham, Xop):
                dl = _arr(TDt.data)[-1]
                d0 = _arr(TDt.data)[0]
                dti = _arr(TIt.data)
            acc.same("c/td/%s/tensor/last-vs-time-independent/%s" % (ctag, Bc), "c.last", dl, dti,
                     "TD tensor at its last time index vs the time-independent tensor, both "
                     "read inside the basis %s" % Bc, scale=tscale)
            if float(numpy.max(numpy.abs(d0))) != 0.0:
                acc.add("c/td/%s/tensor/data0-nonzero/%s" % (ctag, Bc),
                        "TD tensor at time index 0, read inside the basis %s, is not exactly "
                        "zero: max |R(0)| = %.3g" % (Bc, float(numpy.max(numpy.abs(d0)))))
    lm = numpy.array(TDo.Lm, dtype=complex, copy=True)
    lscale = max(float(numpy.max(numpy.abs(numpy.array(TIo.Lm)))), 1.0e-300)
    nz = float(numpy.max(numpy.abs(lm[0])))
    acc.worst("c.zero", nz)
    if nz != 0.0:
        acc.add("c/td/%s/operators/Lm0-nonzero" % ctag,
                "operator components Lambda_m(t=0) not exactly zero: %.3g" % nz)
    acc.same("c/td/%s/operators/last-Lm-vs-time-independent" % ctag, "c.last", lm[-1],
             numpy.array(TIo.Lm, dtype=complex), "Lambda_m at the last time index vs the "
             "time-independent Lambda_m", scale=lscale)
    acc.same("c/td/%s/operators/last-Ld-vs-time-independent" % ctag, "c.last",
             numpy.array(TDo.Ld, dtype=complex)[-1], numpy.array(TIo.Ld, dtype=complex),
             "Lambda_m^+ at the last time index vs the time-independent one", scale=lscale)
    acc.same("c/td/%s/operators/Km-vs-time-independent" % ctag, "c.last",
             numpy.array(TDo.Km, dtype=complex), numpy.array(TIo.Km, dtype=complex),
             "K_m of the TD tensor vs K_m of the time-independent tensor", scale=1.0)

    # ---- conversion of the operator form in each basis ---------------------------
    conv = {}
    for B1 in ZBASES:
        Tc = fresh[B1]
        with _basis(B1, ham, Xop):
            Tc.convert_2_tensor()
        conv[B1] = Tc
        for B in ZBASES:
            with _basis(B, ham, Xop):
                dc = _arr(Tc.data)
                dt_ = _arr(TDt.data)
            acc.same("a/converted-in-%s/td/data/%s" % (B1, B), "a.converted", dc, dt_,
                     "TD data after convert_2_tensor (done in %s) vs four-index form, read "
                     "in %s" % (B1, B), scale=tscale)

    # ---- (b) propagation -----------------------------------------------------------
    prop = {"ta": S.ta, "H": None, "L": 4, "method": None, "nref": 1, "cutoff": cutoff,
            "hist": case.get("hist", 2), "refine": _refine_spec(case),
            "ratios": case.get("ratios")}
    if prop["refine"]:
        prop["late"] = late
        if case.get("methods", True):
            prop["methods"] = METHODS
    _check_propagation(acc, "td", {"op": TDo, "tensor": TDt}, conv, ham, Xop, N, prop, None,
                       td=True)
    return {"nontrivial": _nontrivial_system(case),
            "outcome": ["td", case["route"], N, ctag, round(tscale, 9),
                        round(float(numpy.sum(numpy.abs(d[-1]))), 9) if d.ndim == 5 else -1],
            "violations": acc.viol, "n": acc.n, "info": {"dev": acc.dev}}


# ---------------------------------------------------------------------------
# section "dephasing": clause (d)
# ---------------------------------------------------------------------------
def _deph_baths(case):
    lam, tau = case["lam_tau"]
    out = []
    for i in range(len(case["w"])):
        out.append((float(lam) * (1.0 + 0.5 * i), float(tau) * (1.0 + 0.25 * i)))
    return out


def _deph_M(case):
    if case["ftype"] == "OverdampedBrownian-HighTemperature":
        return "ht"
    return 10 if case["matsubara"] is None else int(case["matsubara"])


def _deph_coherences(w, bt, N):
    """every coherence of the uncoupled sites: (label, i, j, frequency in 1/cm, baths entering
    the bound, exact solution as a function of the times)"""
    out = []
    n = len(w)
    for m in range(n):
        def f(t, m=m):
            return LS.coherence(t, w[m], [bt[m]]) / N
        out.append(("site%d-ground" % m, m + 1, 0, w[m], [bt[m]], f))
        out.append(("ground-site%d" % m, 0, m + 1, w[m], [bt[m]],
                    lambda t, f=f: numpy.conj(f(t))))
        for k in range(m + 1, n):
            def f2(t, m=m, k=k):
                return LS.coherence(t, w[m] - w[k], [bt[m]], [bt[k]]) / N
            out.append(("site%d-site%d" % (m, k), m + 1, k + 1, w[m] - w[k], [bt[m], bt[k]], f2))
            out.append(("site%d-site%d" % (k, m), k + 1, m + 1, w[m] - w[k], [bt[m], bt[k]],
                        lambda t, f2=f2: numpy.conj(f2(t))))
    return out


def _deph_rows(cohs, ev, t, step, L, pick=None, frame=None):
    """per coherence (label, numerical, exact, bound, exponent) at the stored times: t = times
    of the axis of the integration steps (length `step`), pick = stored points of it.
    frame: frame frequencies (1/cm) of the states if the integration was done in a rotating
    frame -- the integrated coherence (i, j) then oscillates with w - (frame_i - frame_j), which
    is the frequency of the Taylor remainder in the bound (the error of a coherence has the
    same modulus in both frames)"""
    rows = []
    memo = {}
    for (label, i, j, wv, baths, f) in cohs:
        wint = wv if frame is None else abs(wv) - abs(frame[i] - frame[j])
        key = (wv, wint, tuple(baths))
        if key not in memo:
            bnd, D, E = LS.first_order_bound(t, step, wint, baths, L=L)
            expo = numpy.abs(wv * LS.CM2INT * t)
            for b in baths:
                expo = expo + numpy.abs(LS.g(t, *b))
            memo[key] = (bnd, expo)
        bnd, expo = memo[key]
        ex = f(t)
        if pick is not None:
            ex, bnd, expo = ex[pick], bnd[pick], expo[pick]
        rows.append((label, ev[:, i, j], ex, bnd, expo))
    return rows


def _deph_pdev(ev, N):
    return float(numpy.max(numpy.abs(numpy.array([ev[:, i, i] for i in range(N)]) - 1.0 / N)))


def _deph_run(case, nt, dt, acc, again=False, refine=False):
    """Propagate the uniform superposition with the TD Redfield tensor; returns a dict with
    "rows" = per coherence (label, numerical, exact, bound, exponent), "pdev" = the population
    deviation, "N".  The initial-state object must come back bit-identical; again=True: it is
    propagated a second time and must give the same dynamics.
    refine=True: the same tensor (bath axis (nt, dt)) is also propagated
      * on the axes with the step m x dt (m in case["ratios"] or NREFS; m x dt written as the
        floating point product and, where that is another double, as the decimal number) with
        Nref = m sub-steps requested in both ways -- these do the steps of the bath axis -- and
        with Nref = 1 -- one step of the length m*dt with the tensor taken at one point of the
        bath axis inside it: bound of the step m*dt  ("refined": {label: (rows, pdev)});
      * with every expansion order of METHODS on the first third of the bath axis, bound with
        that order's Taylor remainder ("methods": {method: (rows, pdev)})."""
    from quantarhei.qm import ReducedDensityMatrixPropagator, ReducedDensityMatrix
    w = [float(x) for x in case["w"]]
    n = len(w)
    form = case["form"]
    specs = []
    for (lam, tau) in _deph_baths(case):
        b = {"ftype": case["ftype"], "reorg": lam, "cortime": tau, "T": float(case["T"])}
        if case["matsubara"] is not None and case["ftype"] == "OverdampedBrownian":
            b["matsubara"] = int(case["matsubara"])
        specs.append(b)
    S = _System(case, energies=w, J=[[0.0] * n for _ in range(n)], bath=specs, nt=nt, dt=dt)
    TD = S.tensor(True, form == "operators")
    N = S.N

    def rho0():
        return ReducedDensityMatrix(data=numpy.full((N, N), 1.0 / N, dtype=numpy.complex128))

    rho = rho0()
    P = ReducedDensityMatrixPropagator(S.ta, S.ham, TD)
    before = numpy.array(rho.data, copy=True)
    ev = _arr(P.propagate(rho).data)
    _unchanged(acc, "d/%s/alters-initial-state" % form, before, rho,
               "TD tensor as %s, %d steps of %g fs" % (form, nt, dt))
    if again:
        ev2 = _arr(P.propagate(rho).data)
        acc.same("d/%s/shared-initial-state/second-propagation" % form, "d.shared",
                 ev2, ev, "second propagate() of the SAME initial-state object (TD tensor as "
                 "%s) vs the first" % form, scale=1.0)
        _unchanged(acc, "d/%s/alters-initial-state" % form, before, rho,
                   "TD tensor as %s, second call" % form)
    t = numpy.array(S.ta.data, dtype=float)
    M = _deph_M(case)
    bt = [(lam, tau, float(case["T"]), M) for (lam, tau) in _deph_baths(case)]
    cohs = _deph_coherences(w, bt, N)
    out = {"rows": _deph_rows(cohs, ev, t, dt, 4), "pdev": _deph_pdev(ev, N), "N": N,
           "refined": {}, "methods": {}, "rwa": None}
    if not refine:
        return out
    pre = _deph_refkey(form)
    for var in _refinements(True, case.get("ratios") or NREFS, dt):
        m, k, via, sform = var
        if (nt - 1) % m:
            raise isolation.HarnessError("refined axis does not end with the bath axis")
        vlab = _vlab(var, True)
        rho_v = rho0()
        Pv = ReducedDensityMatrixPropagator(
            systems.time_axis((nt - 1) // m + 1, _coarse_step(dt, m, sform)), S.ham, TD)
        try:
            if via == "set":
                Pv.setDtRefinement(k)
                evv = Pv.propagate(rho_v)
            elif via == "arg":
                evv = Pv.propagate(rho_v, Nref=k)
            else:
                evv = Pv.propagate(rho_v)
        except Exception as e:
            if "Incompatible number of refinement steps" not in str(e):
                raise
            acc.add("%s/%s/refuses-admissible-refinement" % (pre, vlab),
                    "propagate() refused Nref = %d on the axis with the step %r fs = %d x the "
                    "bath step %r fs (TD tensor as %s): %s"
                    % (k, _coarse_step(dt, m, sform), m, dt, form, str(e)[:100]))
            continue
        _unchanged(acc, "d/%s/alters-initial-state/%s" % (form, vlab), before,
                   rho_v, "TD tensor as %s, axis step x%d (%s) with %d sub-steps (%s)"
                   % (form, m, sform, k, via))
        evv = _arr(evv.data)
        if evv.shape[0] != (nt - 1) // m + 1:
            acc.add("%s/%s/stored-points" % (pre, vlab), "%d stored points, %d expected"
                    % (evv.shape[0], (nt - 1) // m + 1))
            continue
        if k == m:
            # the sub-steps are the steps of the bath axis: its exact solution and bound
            rows = _deph_rows(cohs, evv, t, dt, 4, pick=slice(None, None, m))
        else:
            # one step of m bath steps, tensor sampled once inside it
            rows = _deph_rows(cohs, evv, t[::m], m * dt, 4)
        out["refined"][vlab] = (rows, _deph_pdev(evv, N), k * dt if k == m else m * dt)
    nm = (nt - 1) // 3 + 1
    for meth in METHODS:
        rho_m = rho0()
        Pm = ReducedDensityMatrixPropagator(systems.time_axis(nm, dt), S.ham, TD)
        evm = Pm.propagate(rho_m, method=meth)
        _unchanged(acc, "d/%s/alters-initial-state/method=%s" % (form, meth), before, rho_m,
                   "TD tensor as %s, method %s" % (form, meth))
        evm = _arr(evm.data)
        if evm.shape[0] != nm:
            acc.add("d/%s/method=%s/stored-points" % (form, meth), "%d stored points, %d "
                    "expected" % (evm.shape[0], nm))
            continue
        out["methods"][meth] = (_deph_rows(cohs, evm, t[:nm], dt, ORDER[meth]),
                                _deph_pdev(evm, N))
    # rotating frame (changes the Hamiltonian object: last): the frame is set after the tensor
    # was made, the result is taken to the laboratory frame with convert_from_RWA and must be
    # the same analytic solution
    S.ham.set_rwa(list(RWA_BLOCKS))
    frame = RA.rwa_frequencies(numpy.diag([0.0] + w), RWA_BLOCKS)
    rho_r = rho0()
    Pr = ReducedDensityMatrixPropagator(S.ta, S.ham, TD)
    evr = Pr.propagate(rho_r)
    _unchanged(acc, "d/%s/alters-initial-state/rwa" % form, before, rho_r,
               "TD tensor as %s, Hamiltonian in the rotating frame" % form)
    marked = bool(evr.is_in_rwa)
    evr.convert_from_RWA(S.ham)
    evr = _arr(evr.data)
    out["rwa"] = (_deph_rows(cohs, evr, t, dt, 4, frame=frame), _deph_pdev(evr, N), marked)
    return out


def _deph_refkey(form):
    return ("d/operators/coarser-propagation-axis" if form == "operators"
            else "d/%s/refined" % form)


def _deph_bound_check(acc, rows, key, clause, N, where):
    """every coherence against exact * (bound + unit allowance); one violation per kind"""
    for (lab, nu, e, b, xp) in rows:
        kind = "optical" if "ground" in lab else "intersite"
        acc.n += 1
        err = numpy.abs(nu - e)
        tol = numpy.abs(e) * (b + LS.UNIT_RTOL * xp) + RTOL / N
        ratio = float(numpy.max(err / tol))
        acc.worst(clause, ratio)
        if not numpy.all(numpy.isfinite(nu)) or ratio > 1.0:
            i = int(numpy.argmax(err / tol))
            acc.add(key % kind, "coherence %s, %s: |rho_num - exp(-iwt-g(t))/N| = %.3g at "
                    "stored step %d exceeds the bound %.3g (|exact| = %.3g)"
                    % (lab, where, err[i], i, tol[i], abs(e[i])),
                    {"err": float(err[i]), "tol": float(tol[i])})


def eval_dephasing(case):
    acc = _Acc()
    form = case["form"]
    nt, dt = case["nt"], case["dt"]
    r1 = _deph_run(case, nt, dt, acc, again=True, refine=bool(case.get("refine")))
    r2 = _deph_run(case, 2 * nt - 1, dt / 2.0, acc)
    coarse, pdev1, N = r1["rows"], r1["pdev"], r1["N"]
    fine, pdev2 = r2["rows"], r2["pdev"]
    digest = []
    # step refinement: the axis with the step m*dt and m sub-steps does the steps of the bath
    # axis (nt, dt); the analytic solution and the first-order bound of that axis apply; with
    # one step per stored point the bound of the step m*dt
    pre = _deph_refkey(form)
    for vlab in sorted(r1["refined"]):
        rows, rpdev, h = r1["refined"][vlab]
        _deph_bound_check(acc, rows, "%s/%s/%%s/exceeds-first-order-bound" % (pre, vlab),
                          "d.refine.err/bound", N,
                          "TD tensor as %s on the axis with the step %g fs, %s, bound of the "
                          "integration step %g fs" % (form, dt * (nt - 1) / max(1, len(rows[0][1])
                                                                             - 1), vlab, h))
        acc.n += 1
        acc.worst("d.populations", rpdev * N)
        if not rpdev <= RTOL / N * 10:
            acc.add("%s/%s/populations-not-constant" % (pre, vlab),
                    "populations of uncoupled sites change by %.3g (%s)" % (rpdev, vlab))
    # expansion order: bound with the Taylor remainder of the requested order
    for meth in sorted(r1["methods"]):
        rows, mpdev = r1["methods"][meth]
        _deph_bound_check(acc, rows, "d/%s/method=%s/%%s/exceeds-first-order-bound"
                          % (form, meth), "d.method.err/bound", N,
                          "TD tensor as %s, method %s, step %g fs" % (form, meth, dt))
        acc.n += 1
        acc.worst("d.populations", mpdev * N)
        if not mpdev <= RTOL / N * 10:
            acc.add("d/%s/method=%s/populations-not-constant" % (form, meth),
                    "populations of uncoupled sites change by %.3g (method %s)" % (mpdev, meth))
    # rotating frame: laboratory-frame result against the same analytic solution
    if r1.get("rwa"):
        rows, wpdev, marked = r1["rwa"]
        _deph_bound_check(acc, rows, "d/%s/rwa/%%s/exceeds-first-order-bound" % form,
                          "d.rwa.err/bound", N,
                          "TD tensor as %s, Hamiltonian in the rotating frame (blocks %s), "
                          "result after convert_from_RWA (returned evolution marked is_in_rwa "
                          "= %s), step %g fs" % (form, RWA_BLOCKS, marked, dt))
        acc.n += 1
        acc.worst("d.populations", wpdev * N)
        if not wpdev <= RTOL / N * 10:
            acc.add("d/%s/rwa/populations-not-constant" % form,
                    "populations of uncoupled sites change by %.3g (rotating frame)" % wpdev)
    for (lab, num, ex, bnd, expo), (lab2, num2, ex2, bnd2, expo2) in zip(coarse, fine):
        kind = "optical" if "ground" in lab else "intersite"
        for tag, nu, e, b, xp in (("dt", num, ex, bnd, expo), ("dt/2", num2, ex2, bnd2, expo2)):
            acc.n += 1
            err = numpy.abs(nu - e)
            tol = numpy.abs(e) * (b + LS.UNIT_RTOL * xp) + RTOL / N
            ratio = float(numpy.max(err / tol))
            acc.worst("d.err/bound", ratio)
            if not numpy.all(numpy.isfinite(nu)) or ratio > 1.0:
                i = int(numpy.argmax(err / tol))
                acc.add("d/%s/%s/exceeds-first-order-bound" % (form, kind),
                        "coherence %s: |rho_num - exp(-iwt-g(t))/N| = %.3g at step %d (step "
                        "%s = %g fs) exceeds the bound %.3g (|exact| = %.3g)"
                        % (lab, err[i], i, tag, dt if tag == "dt" else dt / 2, tol[i],
                           abs(e[i])), {"err": float(err[i]), "tol": float(tol[i])})
        e1 = float(numpy.max(numpy.abs(num - ex)))
        e2 = float(numpy.max(numpy.abs(num2[::2] - ex2[::2])))
        digest.append([lab, float("%.3g" % e1), float("%.3g" % e2)])
        if e1 > 1.0e-9:
            acc.n += 1
            r = e1 / max(e2, 1.0e-300)
            acc.worst("d.halving(min ratio)^-1", 1.0 / r)
            if r < HALVING:
                acc.add("d/%s/%s/halving" % (form, kind),
                        "coherence %s: max error %.3g at dt = %g, %.3g at dt/2 -- ratio %.2f < "
                        "%.1f (first-order scheme expected)" % (lab, e1, dt, e2, r, HALVING),
                        {"e_dt": e1, "e_dt2": e2})
    for tag, pd in (("dt", pdev1), ("dt/2", pdev2)):
        acc.n += 1
        acc.worst("d.populations", pd * N)
        if not pd <= RTOL / N * 10:
            acc.add("d/%s/populations-not-constant" % form,
                    "populations of uncoupled sites change by %.3g (step %s)" % (pd, tag))
    return {"nontrivial": case["lam_tau"][0] > 0, "outcome": ["dephasing", form, digest],
            "violations": acc.viol, "n": acc.n, "info": {"dev": acc.dev}}


# ---------------------------------------------------------------------------
def eval_case(case):
    sec = case["sec"]
    if sec == "redfield":
        return eval_redfield(case)
    if sec == "lindblad":
        return eval_lindblad(case)
    if sec == "td":
        return eval_td(case)
    if sec == "dephasing":
        return eval_dephasing(case)
    raise isolation.HarnessError("unknown section " + str(sec))


def replay(case):
    return eval_case(case)["violations"]


# ---------------------------------------------------------------------------
# spaces
# ---------------------------------------------------------------------------
# stored points of the step-refinement axes (the refined runs do m * (REFNC - 1) sub-steps)
REFNC = {"quick": 4, "thorough": 8}
# propagators with a PureDephasing object (redfield, lindblad): starts of the propagation axis
# (fs; zero, non-zero: positive, thorough also negative / not a multiple of the step) and step
# refinements, each x {Lorentzian, Gaussian}
PDEPH = {"quick": {"starts": [0.0, 150.0], "nrefs": [1], "span_bases": ["out"]},
         "thorough": {"starts": [0.0, -40.0, 150.5], "nrefs": [1, 2], "span_bases": ["out"]}}


def _sys_ok(c):
    if c["n"] == 1 and (c["Jpat"] != "none" or c["epat"] != "distinct"):
        return False
    if c["n"] == 2 and c["Jpat"] == "full":
        return False                       # identical to the chain
    return True


def redfield_cases(tier):
    if tier == "quick":
        dom = {"sec": ["redfield"], "route": ["protocol", "direct", "aggregate"], "n": [1, 2],
               "epat": ["distinct", "degenerate", "near"], "Jpat": ["none", "chain", "full"],
               "ftype": ["OverdampedBrownian", "OverdampedBrownian-HighTemperature"],
               "lam_tau": [[20.0, 50.0]], "T": [300.0, 77.0],
               "method": ["short-exp"], "nref": [1], "nt": [40], "dt": [1.0], "hist": [2],
               "refnc": [REFNC["quick"]], "pdeph": [PDEPH["quick"]]}
    else:
        dom = {"sec": ["redfield"], "route": ["protocol", "direct", "aggregate"],
               "n": [1, 2, 3, 4],
               "epat": ["distinct", "degenerate", "near"], "Jpat": ["none", "chain", "full"],
               "ftype": ["OverdampedBrownian", "OverdampedBrownian-HighTemperature"],
               "lam_tau": [[20.0, 50.0], [60.0, 100.0]], "T": [300.0, 77.0],
               "method": ["short-exp", "short-exp-2", "short-exp-6"], "nref": [1, 2],
               "nt": [60], "dt": [1.0], "hist": [3], "refnc": [REFNC["thorough"]],
               "pdeph": [PDEPH["thorough"]]}

    def ok(c):
        if not _sys_ok(c):
            return False
        if tier == "quick":
            return not (c["route"] == "aggregate" and (c["epat"] != "distinct"
                                                       or c["T"] != 300.0))
        if c["n"] == 4 and not (c["Jpat"] == "full" and c["epat"] == "distinct"
                                and c["lam_tau"][0] == 20.0 and c["T"] == 300.0
                                and c["ftype"] == "OverdampedBrownian"):
            return False                   # 4 sites: the most general pattern only
        if c["n"] == 3 and c["lam_tau"][0] != 20.0:
            return False                   # 3 sites: one (lambda, tau_c) pair
        if (c["method"], c["nref"]) != ("short-exp", 1):
            # the other expansion orders / refinements: one bath per system
            return (c["lam_tau"][0] == 20.0 and c["T"] == 300.0
                    and c["ftype"] == "OverdampedBrownian" and c["route"] != "direct"
                    and c["n"] <= 3)
        return True
    return product(dom, ok)


def lindblad_cases(tier):
    out = []
    for N in ((2, 3) if tier == "quick" else (2, 3, 4)):
        singles = [(i, j) for i in range(N) for j in range(N)]
        sets = [[s] for s in singles]
        for a in range(len(singles)):
            for b in range(a + 1, len(singles)):
                sets.append([singles[a], singles[b]])
                if N <= 3 and tier != "quick":
                    sets.append([singles[b], singles[a]])      # rates swapped
        for hpat in ("diagonal", "coupled", "complex"):
            if hpat == "complex" and tier == "quick" and N > 2:
                continue           # complex couplings, quick tier: the two-level systems
            for ops in sets:
                out.append({"sec": "lindblad", "N": N, "hpat": hpat,
                            "ops": [list(o) for o in ops], "nt": 30, "dt": 2.0,
                            "hist": 2 if tier == "quick" else 3, "refnc": REFNC[tier],
                            "pdeph": PDEPH[tier]})
    out.sort(key=lambda c: (c["N"], len(c["ops"]),
                            ("diagonal", "coupled", "complex").index(c["hpat"])))
    return out


def td_cases(tier):
    if tier == "quick":
        dom = {"sec": ["td"], "route": ["protocol", "aggregate"], "n": [1, 2],
               "epat": ["distinct", "degenerate"], "Jpat": ["none", "chain", "full"],
               "ftype": ["OverdampedBrownian"], "lam_tau": [[20.0, 50.0]], "T": [300.0, 77.0],
               "cutoff": [None, 0.5], "nt": [40], "dt": [1.0], "hist": [2],
               "refnc": [REFNC["quick"]]}
    else:
        dom = {"sec": ["td"], "route": ["protocol", "direct", "aggregate"], "n": [1, 2, 3],
               "epat": ["distinct", "degenerate", "near"], "Jpat": ["none", "chain", "full"],
               "ftype": ["OverdampedBrownian", "OverdampedBrownian-HighTemperature"],
               "lam_tau": [[20.0, 50.0], [60.0, 100.0]], "T": [300.0, 77.0],
               "cutoff": [None, 0.5], "nt": [60], "dt": [1.0], "hist": [3],
               "refnc": [REFNC["thorough"]]}

    def ok(c):
        if not _sys_ok(c):
            return False
        if tier == "quick":
            return not (c["route"] == "aggregate" and (c["epat"] != "distinct"
                                                       or c["T"] != 300.0))
        if c["n"] == 3 and (c["lam_tau"][0] != 20.0 or c["epat"] == "near"
                            or c["ftype"] != "OverdampedBrownian"):
            return False                   # 3 sites: one bath type and (lambda, tau_c) pair
        return True
    out = product(dom, ok)
    # unsorted site energies with a different bath on every site, uncoupled and coupled
    extra = {"sec": ["td"], "route": ["protocol"] if tier == "quick" else ["protocol", "aggregate"],
             "n": [2, 3], "epat": ["unsorted"], "Jpat": ["none", "chain"],
             "ftype": ["OverdampedBrownian"], "lam_tau": [[20.0, 50.0]], "T": [300.0],
             "cutoff": [None], "nt": [40 if tier == "quick" else 60], "dt": [1.0],
             "bathpat": ["sitewise"], "hist": [2 if tier == "quick" else 3],
             "refnc": [REFNC[tier]]}
    out += product(extra, _sys_ok)
    if tier == "quick":
        # expansion orders on tensors with a cut-off time (short axis = up to the cut-off
        # time): thorough tier
        for c in out:
            if c["cutoff"] is not None:
                c["methods"] = False
    # the time-axis alphabet: non-dyadic bath steps dt and propagation steps m x dt written as
    # the floating point product and as the decimal number (both are what a caller writes);
    # their quotient with dt is then not exactly the integer m, from either side:
    # 0.6/0.2 = 2.9999999999999996, (3*0.2)/0.2 = 3.0000000000000004, (3*0.7)/0.7 = 2.9999999999999996
    if tier == "quick":
        axis = {"sec": ["td"], "route": ["protocol"], "n": [2], "epat": ["distinct"],
                "Jpat": ["chain"], "ftype": ["OverdampedBrownian"], "lam_tau": [[20.0, 50.0]],
                "T": [300.0], "cutoff": [None, 0.5], "nt": [30], "dt": [0.2, 0.7],
                "hist": [1], "refnc": [REFNC["quick"]], "ratios": [[3, 7]], "methods": [False]}
    else:
        axis = {"sec": ["td"], "route": ["protocol", "aggregate"], "n": [2, 3],
                "epat": ["distinct"], "Jpat": ["chain"], "ftype": ["OverdampedBrownian"],
                "lam_tau": [[20.0, 50.0]], "T": [300.0], "cutoff": [None, 0.5], "nt": [60],
                "dt": [0.1, 0.2, 0.4, 0.7], "hist": [2], "refnc": [REFNC["thorough"]],
                "ratios": [[2, 3, 5, 7]], "methods": [True]}
    out += product(axis, _sys_ok)
    return out


def dephasing_cases(tier):
    if tier == "quick":
        dom = {"sec": ["dephasing"], "route": ["protocol"], "form": ["tensor", "operators"],
               "w": [[100.0], [100.0, 260.0]],
               "ftype": ["OverdampedBrownian", "OverdampedBrownian-HighTemperature"],
               "lam_tau": [[20.0, 50.0], [60.0, 100.0]], "T": [300.0, 77.0],
               "matsubara": [None, 2], "nt": [301], "dt": [1.0], "refine": [True]}
    else:
        dom = {"sec": ["dephasing"], "route": ["protocol", "direct", "aggregate"],
               "form": ["tensor", "operators"],
               "w": [[100.0], [300.0], [100.0, 260.0], [250.0, 250.0, 100.0]],
               "ftype": ["OverdampedBrownian", "OverdampedBrownian-HighTemperature"],
               "lam_tau": [[20.0, 50.0], [60.0, 100.0], [120.0, 80.0]],
               "T": [300.0, 150.0, 77.0],
               "matsubara": [None, 0, 2, 30], "nt": [301, 601], "dt": [1.0, 2.0],
               "refine": [True]}

    def ok(c):
        if c["ftype"] != "OverdampedBrownian" and c["matsubara"] is not None:
            return False
        # admissible grids: dt <= tau_c/25 for every bath of the case
        if c["dt"] > min(t for (_, t) in _deph_baths(c)) / 25.0:
            return False
        if c["route"] == "aggregate":
            # Aggregate energies are optical and are propagated in the rotating frame whose
            # frequency is not an input of the reference -> plain Hamiltonians only
            return False
        if c["route"] == "direct" and sorted(set(c["w"])) != list(c["w"]):
            # a tensor constructed outside eigenbasis_of(H) is expressed in the eigh order of
            # the levels; only for ascending distinct energies is that the site order
            return False
        if c["ftype"] == "OverdampedBrownian":
            # the time grid must be able to represent every Matsubara term: nu_M dt <= 2 pi
            M = 10 if c["matsubara"] is None else c["matsubara"]
            if 2.0 * numpy.pi * LS.KB_INT * c["T"] * M * c["dt"] > 2.0 * numpy.pi:
                return False
        if tier != "quick" and c["nt"] == 601 and (c["dt"] != 1.0 or len(c["w"]) > 1):
            return False
        return True
    out = product(dom, ok)
    # the time-axis alphabet (see td_cases): non-dyadic bath steps, step ratios 3 and 7
    # (thorough: 2, 3, 5, 7), nt - 1 a multiple of every ratio
    if tier == "quick":
        axis = dict(dom, w=[[100.0, 260.0]], ftype=["OverdampedBrownian"],
                    lam_tau=[[20.0, 50.0]], T=[300.0], matsubara=[None], nt=[211],
                    dt=[0.2, 0.7], ratios=[[3, 7]])
    else:
        axis = dict(dom, route=["protocol"], w=[[100.0], [100.0, 260.0]],
                    lam_tau=[[20.0, 50.0], [60.0, 100.0]], T=[300.0, 77.0],
                    matsubara=[None, 2], nt=[211], dt=[0.1, 0.2, 0.4, 0.7],
                    ratios=[[2, 3, 5, 7]])
    out += product(axis, ok)
    return out


def cases(tier):
    return (lindblad_cases(tier) + redfield_cases(tier) + td_cases(tier)
            + dephasing_cases(tier))


def run(run):
    run.rule = ("four complete constrained products: lindblad (dimension x Hamiltonian pattern "
                "x every set of <= 2 single projectors |i><j| incl. i = j), redfield and td "
                "(route x sites x energy pattern x coupling pattern x bath type x (lambda, "
                "tau_c) x T [x expansion order x refinement | x cut-off]), dephasing (form x "
                "site energies x bath x T x Matsubara terms x admissible axis); inside a point: "
                "all N^2 matrix units and a spanning set of N^2 initial states, 3 bases, before "
                "and after conversion done in each of the 3 bases; x all sequences of `hist` "
                "(2 quick / 3 thorough) propagation routes {operator, four-index, converted form} "
                "run on ONE initial-state object (general state) in each basis; after every "
                "propagate() the caller's initial state must be bit-identical; x step "
                "refinement: Nref in {1, 2, 5} x {propagate(rho, Nref=k), setDtRefinement(k)} "
                "for all three routes in the 3 bases on the axes with the step m*dt, m in "
                "{2, 5} (time-dependent tensors: every admissible pair (m, Nref), Nref in "
                "{1, m}), whole spanning set; x expansion order: method in {short-exp-2, "
                "short-exp-4, short-exp-6} besides the default call, all three routes in the 3 "
                "bases, whole spanning set, short axis; x histories of one propagator created "
                "with the operator form: [propagate in B0 in {-, out, H, X}] -> "
                "convert_2_tensor in B1 -> propagate in every basis (12 tensors); td and "
                "dephasing: x time-axis alphabet = non-dyadic bath steps x step ratios x {m*dt "
                "as floating point product, as decimal number} x Nref in {1, m} x way of "
                "requesting it; x basis alphabet member Z = eigenbasis of a complex Hermitian "
                "operator (complex unitary transformation) in clauses (a), (b), (c): action on "
                "all matrix units, conversion done in / read in each of the 4 bases, spanning "
                "set x 3 routes propagated inside Z; lindblad: Hamiltonian pattern with complex "
                "couplings; x rotating frame: Hamiltonian.set_rwa([ground | rest]) after the "
                "tensors exist (aggregates: from the start), spanning set x 3 routes x 4 bases, "
                "results compared as returned and after convert_from_RWA, dephasing: the "
                "converted rotating-frame run against the analytic solution; frame marker "
                "is_in_rwa of every returned evolution agrees between the routes; x propagators "
                "carrying a PureDephasing object (redfield, lindblad): dephasing type "
                "{Lorentzian, Gaussian} x start of the propagation axis {zero, non-zero} [x Nref "
                "{1, 2}: thorough] x 3 routes x 3 bases, spanning set / general state, short "
                "axis: route agreement.  Non-trivial: "
                "redfield/td = "
                "resonance coupling != 0 (eigenbasis differs from the site basis); lindblad = "
                "coupled Hamiltonian and at least one projector with i != j; dephasing = "
                "lambda > 0")
    run.assumptions = [
        "apply() is exercised for time-independent generators only (Redfield, Lindblad); the "
        "package has no apply() for five-index TD data / TD operator components",
        "reference action: mc/refmodels/relax_action.py (GKSL from jump operators and rates; "
        "May-Kuehn operator formula evaluated on the components Km, Lm read from the operator "
        "form; Taylor polynomial of the Kronecker-built Liouvillian)",
        "absolute propagation oracle only where the Hamiltonian has no rotating-wave frame "
        "(routes protocol/direct, lindblad)",
        "in-context absolute comparisons are made on results read after the context is left",
        "all tensor instances of a grid point are constructed before the first basis context "
        "is entered (bit-identical inputs; a tensor constructed outside eigenbasis_of(H) "
        "depends on the eigenvector gauge eigh returns for exactly those numbers)",
        "analytic line-shape function with the same number of Matsubara terms as the bath "
        "built by the package (mc/refmodels/lineshape_ob.py); admissible axes: dt <= tau_c/25 "
        "and nu_M dt <= 2 pi (all Matsubara terms representable on the grid)",
        "X = fixed real symmetric matrix with simple spectrum (relax_action.probe_operator)",
        "Z = fixed complex Hermitian matrix with simple spectrum (relax_action."
        "probe_operator_complex); the harness checks that its eigenvector matrix S is not a "
        "real orthogonal matrix times column phases (max |offdiag S^T S| >= 0.05); the same "
        "check for the complex Hamiltonians of the lindblad section; the base run inside Z "
        "enters the context once for the whole spanning set; refinements, expansion orders and "
        "object histories are run in out / H / X only; quick tier: complex couplings for the "
        "two-level Lindblad systems only",
        "rotating frame: the package DEFINES it (Hamiltonian.get_RWA_data, "
        "convert_from_RWA) as integration with H - diag(Omega), Omega = block averages of the "
        "diagonal of H in the site basis attached to the state positions, and rho_lab[a,b](t) "
        "= exp(-i(Omega_a - Omega_b)t) rho_rot[a,b](t); that definition is the reference "
        "(relax_action.rwa_*); the tensor is NOT transformed to the frame by the package (its "
        "FIXME) and neither by the reference; blocks = [ground | all other states] only; "
        "absolute value claimed in the site basis and in eigenbasis_of(H) only where H has no "
        "element between the blocks and the block spectra do not interleave (elsewhere "
        "diag(Omega) subtracted from the transformed matrix is another operator: route "
        "agreement only); convert_from_RWA is called after the context is left; the frame is "
        "set once, after all other sub-products of the grid point, on the default call and "
        "the short axis; dephasing: Hamiltonian of uncoupled sites, frame frequency of the "
        "excited block = mean site energy, bound with the Taylor remainder at |w - Omega|",
        "frame marker: relative check (routes agree with the four-index form called in the "
        "same basis with the Hamiltonian in the same state), no absolute value of is_in_rwa is "
        "demanded -- the absolute statement is the laboratory-frame oracle",
        "step refinement: Nref = k on the axis (N, k*dt) is DEFINED (setDtRefinement docstring) "
        "as the calculation with the step dt stored every k-th point; for a time-independent "
        "generator it is therefore compared (class R) with the run with Nref = 1 on the axis of "
        "the sub-steps, of which the first k*(N-1)+1 points of the longer base run are a "
        "prefix (the scheme is causal); for time-dependent tensors route agreement is claimed "
        "on propagation axes 2x and 5x coarser than the bath axis (the four-index routine "
        "refuses a refinement on the bath axis itself) and the same consistency only where the "
        "sub-steps are the bath steps (Nref = axis ratio) and no cut-off time is set (the "
        "propagator looks the cut-off time up on its own axis and freezes the tensor at that "
        "index of the bath axis: with a cut-off the refined run is NOT the bath-axis run, "
        "observed, not claimed either way); shared-initial-state histories are not multiplied "
        "with the refinements",
        "expansion order: 'short-exp' (the default), 'short-exp-2', '-4', '-6' are the Taylor "
        "polynomials of degree 4, 2, 4, 6 of the generator per (sub-)step (propagate() source); "
        "the reference polynomial and the Taylor remainder of the dephasing bound are taken "
        "for the requested degree; variants on the short axis rely on causality of the scheme "
        "(a run on a shorter axis with the same step is a prefix of the longer run); quick "
        "tier: no expansion-order variants for time-dependent tensors with a cut-off time and "
        "on the non-dyadic axes (the short axis would have to contain the cut-off time)",
        "conversion-after-construction histories: the 12 tensors of a grid point are built "
        "with the others before the first context; their steps are interleaved (all first "
        "calls, all conversions, all later calls) so that every context is entered once per "
        "stage; one fresh initial-state object per call, created outside the contexts",
        "time-axis alphabet: 'm x dt' is given to TimeAxis as the double m*dt and as the "
        "double nearest to the decimal number; both are multiples of the bath step for the "
        "caller, the package counts the bath steps per propagation step by rounding the "
        "quotient; Nref = 1 on a coarser axis is compared with the analytic solution under "
        "the first-order bound of the step m*dt (the rate is sampled at one point of the "
        "step, which is all the bound assumes)",
        "pure dephasing: PureDephasing(constants, dtype) with a fixed symmetric matrix of "
        "constants (zero diagonal, all off-diagonal values different; Gaussian: their squares); "
        "only route agreement is claimed -- the property does not define pure dephasing, and the "
        "package applies the constants element by element in whatever basis is current (its "
        "docstring: 'must be applied only while working in the correct basis'), so no absolute "
        "value and no relation between the results in different bases is demanded; the "
        "propagation routines for time-dependent tensors ignore a PureDephasing object (not "
        "in the sub-product); a propagator with PureDephasing but no tensor is outside this "
        "property; whole spanning set outside any context, the general state inside "
        "eigenbasis_of(H) / eigenbasis_of(X); quick tier: no step refinement",
        "shared-initial-state histories use one general initial state (full rank, all elements "
        "non-zero, complex128) and its real part stored as float64 (sequences of hist - 1 "
        "calls); the fresh-object result is tied to the spanning set by "
        "linearity; input non-interference (bit-identity of rho0.data read in the same context "
        "before and after the call) is checked for every state of the spanning set"]
    secs = (("lindblad", lindblad_cases(run.tier)), ("redfield", redfield_cases(run.tier)),
            ("td", td_cases(run.tier)), ("dephasing", dephasing_cases(run.tier)))
    run.bounds = {"tolerances": {"R": RTOL, "d": "exp(D+E)-1, D = dt*int|C|, E = Taylor "
                                 "remainder; + unit allowance %g" % LS.UNIT_RTOL,
                                 "halving_ratio_min": HALVING},
                  "cases": {k: len(v) for k, v in secs},
                  "bases": list(ZBASES),
                  "bases_of_refinements_methods_histories": list(BASES),
                  "rotating_frame_blocks": list(RWA_BLOCKS),
                  "refinements": {"time_independent": [_vlab(v, False)
                                                       for v in _refinements(False)],
                                  "time_dependent": [_vlab(v, True) for v in _refinements(True)],
                                  "stored_points_of_refined_axes": REFNC[run.tier]},
                  "methods": ["default"] + list(METHODS),
                  "pure_dephasing": dict(PDEPH[run.tier], types=list(PDEPH_TYPES)),
                  "conversion_after_construction_histories": len(PRES) * len(BASES),
                  "time_axis_alphabet": {
                      "bath_steps_fs": sorted({c["dt"] for c in secs[2][1] + secs[3][1]}),
                      "ratios": sorted({m for c in secs[2][1] + secs[3][1]
                                        for m in (c.get("ratios") or NREFS)}),
                      "forms_of_the_multiple": list(STEPFORMS)},
                  "shared_initial_state_sequences": {"quick": 9, "thorough": 27}[run.tier]}
    worst = {}
    for sect, cs in secs:
        infos = run_grid(run, rotate(cs, run.seed), eval_case, section=sect)
        for inf in infos:
            for k, v in inf.get("dev", {}).items():
                worst[k] = max(worst.get(k, 0.0), v)
    run.note(worst_deviation={k: float("%.3g" % v) for k, v in sorted(worst.items())})
