"""C20 Distributed work ranges partition the index range exactly.

E-grid: every (size, start, stop) with every rank, for the private helpers and the
public iterators, driven through the REAL DistributedConfiguration object with a
simulated MPI world (fake mpi4py module + communicator); reduction clause: the real
Redfield tensor / rate-matrix code is run once per rank in lock step and the
partial arrays are sum-reduced by the harness and compared with the serial result.
"""
import sys
import types

import numpy

from mc import isolation, systems
from mc.explore import run_grid, approx
from mc.refmodels import partition

LEVEL = "model_checking"


class _Stop(Exception):
    pass


class _BadRow(Exception):
    pass


class FakeComm:
    """Simulated communicator; allreduce is resolved in lock step by the harness."""

    def __init__(self, size, rank, reduced=None):
        self.size, self.rank = size, rank
        self.reduced = reduced if reduced is not None else []
        self.ncall = 0
        self.partial = None

    def Get_rank(self):
        return self.rank

    def Get_size(self):
        return self.size

    def Barrier(self):
        pass

    def bcast(self, value, root=0):
        return value

    def _red(self, A, B):
        k = self.ncall
        self.ncall += 1
        if k < len(self.reduced):
            B[...] = self.reduced[k]
        else:
            self.partial = numpy.array(A, copy=True)
            raise _Stop()

    def Allreduce(self, A, B, op=None):
        self._red(A, B)

    def Reduce(self, A, B, op=None):
        self._red(A, B)


def _install_fake_mpi():
    if "mpi4py" not in sys.modules or getattr(sys.modules["mpi4py"], "_verif_fake", False):
        m = types.ModuleType("mpi4py")
        m._verif_fake = True
        mpi = types.ModuleType("mpi4py.MPI")
        mpi.SUM = "SUM"
        mpi.COMM_WORLD = FakeComm(1, 0)
        m.MPI = mpi
        sys.modules["mpi4py"] = m
        sys.modules["mpi4py.MPI"] = mpi


def make_config(size, rank, reduced=None, level1=True):
    """A real DistributedConfiguration object placed in a simulated world."""
    from quantarhei.core.parallel import DistributedConfiguration
    from quantarhei.core.managers import Manager
    _install_fake_mpi()
    dc = DistributedConfiguration()
    dc.have_mpi = True
    dc.comm = FakeComm(size, rank, reduced)
    dc.rank = rank
    dc.size = size
    dc.stearer = size
    dc.parallel_level = 0
    dc.parallel_region = 0
    dc.use_steerer = False
    Manager().parallel_conf = dc
    Manager().log_conf.verbosity = 0
    return dc


def restore_serial():
    from quantarhei.core.managers import Manager
    from quantarhei.core.parallel import DistributedConfiguration
    sys.modules.pop("mpi4py", None)
    sys.modules.pop("mpi4py.MPI", None)
    dc = DistributedConfiguration()
    Manager().parallel_conf = dc
    dc.start_parallel_region()


# --------------------------------------------------------------------------
def eval_case(case):
    from quantarhei.core import parallel as P
    kind = case["kind"]
    viol = []
    size = case["size"]
    try:
        if kind == "calc":
            start, stop = case["start"], case["stop"]
            blocks, allr = [], []
            for rank in range(size):
                dc = make_config(size, rank)
                r = P._calculate_ranges(dc, start, stop)
                blocks.append([int(r[0]), int(r[1])])
                if not hasattr(dc, "ranges"):
                    # the table of all blocks is part of what the helper hands out
                    allr.append(None)
                else:
                    allr.append([[int(x[0]), int(x[1])] for x in dc.ranges])
            huge = (stop - start) > 10 ** 6
            bad = partition.check_blocks_arith(blocks, start, stop) if huge \
                else partition.check_blocks(blocks, start, stop)
            for b in bad:
                viol.append(("calc_ranges/" + b + ("/huge-range" if huge else "") +
                             ("/start!=0" if start != 0 else "/start=0"),
                             "_calculate_ranges(size=%d,start=%d,stop=%d) -> %s: %s"
                             % (size, start, stop, blocks, b), {"blocks": blocks}))
            if any(a != blocks for a in allr):
                viol.append(("calc_ranges/ranges-table-differs-between-ranks",
                             "config.ranges differs from the per-rank results",
                             {"blocks": blocks, "tables": allr}))
            outcome = blocks
            nontrivial = size > 1 and stop > start
        elif kind == "range":
            start, stop = case["start"], case["stop"]
            got = []
            for rank in range(size):
                dc = make_config(size, rank)
                P.start_parallel_region()
                it = P.block_distributed_range(start, stop)
                P.close_parallel_region()
                if dc.parallel_level != 0 or dc.parallel_region != 0:
                    viol.append(("range/region-counters-not-restored", "parallel "
                                 "level/region not back to 0", None))
                got.append(list(it))
            bad = partition.check_lists(got, list(range(start, stop)))
            for b in bad:
                viol.append(("block_distributed_range/" + b +
                             ("/start!=0" if start != 0 else "/start=0"),
                             "block_distributed_range(%d,%d) size=%d -> %s: %s"
                             % (start, stop, size, got, b), {"got": got}))
            outcome = got
            nontrivial = size > 1 and stop > start
        elif kind in ("list", "array"):
            n, ri = case["n"], case["return_index"]
            items = [10 * k + 3 for k in range(n)]
            got = []
            for rank in range(size):
                dc = make_config(size, rank)
                P.start_parallel_region()
                trail = tuple(case.get("trail") or ())
                if kind == "list":
                    part = P.block_distributed_list(list(items), return_index=ri)
                else:
                    arr = numpy.array(items)
                    if trail:
                        # multi-dimensional array: the ROWS are distributed; item k is the
                        # row whose entries all equal items[k] (+ column offset/1000)
                        arr = arr.reshape((n,) + (1,) * len(trail)) + \
                            numpy.arange(int(numpy.prod(trail))).reshape(trail) / 1000.0
                    part = P.block_distributed_array(arr, return_index=ri)
                P.close_parallel_region()
                if trail:
                    # back to the identifying integer of each row; rows must come whole
                    def rid(r):
                        r = numpy.asarray(r)
                        if r.shape != trail:
                            raise _BadRow(r.shape)
                        return int(round(float(r.flat[0])))
                    try:
                        part = [(a, rid(b)) for a, b in part] if ri else [rid(b) for b in part]
                    except _BadRow as e:
                        viol.append(("array/row-shape", "rows of a %s array handed out with shape "
                                     "%s" % ((n,) + trail, e.args[0]), None))
                        part = []
                if ri:
                    part = [(int(a), int(b)) for a, b in part]
                    if any(items[a] != b for a, b in part):
                        viol.append(("%s/index-value-mismatch" % kind,
                                     "returned index does not address the value", None))
                    part = [b for a, b in part]
                else:
                    part = [int(x) for x in part]
                got.append(part)
            bad = partition.check_lists(got, items)
            for b in bad:
                viol.append(("block_distributed_%s/return_index=%s/%s" % (kind, ri, b),
                             "block_distributed_%s(n=%d, return_index=%s) size=%d -> %s: %s"
                             % (kind, n, ri, size, got, b), {"got": got}))
            outcome = got
            nontrivial = size > 1 and n > 0
        elif kind == "seq":
            # HISTORY on long-lived configuration objects (one per rank): a sequence of
            # distributed loops; every loop must be an exact partition of its own range
            cfgs = [make_config(size, rank) for rank in range(size)]
            from quantarhei.core.managers import Manager
            got_all = []
            for idx, (api, a, b) in enumerate(case["loops"]):
                got = []
                for rank in range(size):
                    Manager().parallel_conf = cfgs[rank]
                    P.start_parallel_region()
                    if api == "range":
                        part = list(P.block_distributed_range(a, b))
                        whole = list(range(a, b))
                    elif api == "list":
                        whole = [10 * k + 3 for k in range(b - a)]
                        part = [int(x) for x in P.block_distributed_list(list(whole))]
                    else:
                        whole = [10 * k + 3 for k in range(b - a)]
                        part = [int(x) for x in P.block_distributed_array(numpy.array(whole))]
                    P.close_parallel_region()
                    got.append(part)
                bad = partition.check_lists(got, whole)
                for bb in bad:
                    viol.append(("sequence-of-loops/%s/%s" % (api, bb),
                                 "loop #%d %s(%d,%d) after %r on the same per-rank configuration "
                                 "objects, size=%d -> %s: %s"
                                 % (idx, api, a, b, case["loops"][:idx], size, got, bb), None))
                got_all.append(got)
            outcome = got_all
            nontrivial = size > 1 and len(case["loops"]) > 1
        elif kind == "protocol":
            return eval_protocol(case)
        elif kind == "reduce":
            return eval_reduce(case)
        else:
            raise isolation.HarnessError("unknown kind")
    finally:
        restore_serial()
    return {"nontrivial": nontrivial, "outcome": outcome, "violations": viol}


class LockComm(FakeComm):
    """Collectives resolved at once: the harness executes one protocol step on all ranks
    before the next one, so the sum over ranks is known when a rank calls Allreduce."""

    def __init__(self, size, rank):
        FakeComm.__init__(self, size, rank)
        self.next_sum = None
        self.nred = 0

    def _red(self, A, B):
        self.nred += 1
        B[...] = self.next_sum


def eval_protocol(case):
    """HISTORY of region calls on long-lived per-rank configurations.  Word over
    S (start_parallel_region), C (close_parallel_region), L (block_distributed_range(0,5)),
    A (block_distributed_array of 5 items), R (allreduce of a rank-specific array).
    Reference model: level = number of open regions; work is shared and reduced iff
    level == 1, otherwise every rank gets the whole range and allreduce leaves the
    array alone (the documented nesting rule of start_parallel_region)."""
    from quantarhei.core import parallel as P
    from quantarhei.core.managers import Manager
    size, word = case["size"], case["word"]
    viol = []

    def v(key, msg):
        if key not in [x[0] for x in viol]:
            viol.append((key, msg, None))

    cfgs = []
    for rank in range(size):
        dc = make_config(size, rank)
        dc.comm = LockComm(size, rank)
        cfgs.append(dc)
    level = maxlevel = 0
    trace = []
    for idx, op in enumerate(word):
        pre = word[:idx]
        if op in "SC":
            level += 1 if op == "S" else -1
            maxlevel = max(maxlevel, level)
            for rank in range(size):
                Manager().parallel_conf = cfgs[rank]
                (P.start_parallel_region if op == "S" else P.close_parallel_region)()
            for rank in range(size):
                if cfgs[rank].parallel_level != level or cfgs[rank].parallel_region != level:
                    v("protocol/region-counters/after-%s-at-depth-%d" % (op, level),
                      "after %r: rank %d has parallel_level=%d parallel_region=%d, %d regions "
                      "are open" % (word[:idx + 1], rank, cfgs[rank].parallel_level,
                                    cfgs[rank].parallel_region, level))
            trace.append(level)
        elif op in "LA":
            got = []
            for rank in range(size):
                Manager().parallel_conf = cfgs[rank]
                if op == "L":
                    got.append([int(x) for x in P.block_distributed_range(0, 5)])
                else:
                    got.append([int(x) for x in
                                P.block_distributed_array(numpy.arange(5))])
            whole = list(range(5))
            if level == 1:
                for b in partition.check_lists(got, whole):
                    v("protocol/shared-loop-at-level-1/%s/%s"
                      % ("after-nested-region" if maxlevel > 1 else
                         "reopened-region" if pre.count("S") > 1 else "first-region", b),
                      "after %r (one region open) the loop is split as %s: %s" % (pre, got, b))
            else:
                if any(g != whole for g in got):
                    v("protocol/loop-outside-level-1/level=%d" % level,
                      "after %r (%d regions open) every process must run the whole loop, got %s"
                      % (pre, level, got))
            trace.append(got)
        elif op == "R":
            arrs = [numpy.array([[rank + 1.0, 1.0], [0.5 * rank, -2.0]]) for rank in range(size)]
            tot = sum(arrs[1:], arrs[0].copy())
            # the accumulator belongs to the caller: whatever its memory layout, the array the
            # caller passed holds the sum afterwards
            def _slice3(x):
                w = numpy.zeros(x.shape + (2,))
                w[:, :, 0] = x
                return w[:, :, 0]
            layouts = (("C", lambda x: x.copy()), ("F", lambda x: numpy.asfortranarray(x)),
                       ("T-view", lambda x: x.T.copy().T), ("slice-of-3D", _slice3))
            for lname, lay in layouts:
                outs = []
                for rank in range(size):
                    Manager().parallel_conf = cfgs[rank]
                    cfgs[rank].comm.next_sum = tot
                    a = lay(arrs[rank])
                    P.distributed_configuration().allreduce(a)
                    outs.append(a)
                for rank in range(size):
                    exp = tot if level == 1 else arrs[rank]
                    if not numpy.array_equal(outs[rank], exp):
                        v("protocol/allreduce/%s%s" % ("not-summed-at-level-1" if level == 1
                                                        else "changed-outside-level-1",
                                                        "" if lname == "C" else "/layout=" + lname),
                          "after %r (%d regions open) rank %d holds %s after allreduce of a %s "
                          "array, expected %s"
                          % (pre, level, rank, outs[rank].tolist(), lname, exp.tolist()))
            trace.append([o.tolist() for o in outs])
    return {"nontrivial": size > 1 and "S" in word and any(c in word for c in "LAR"),
            "outcome": trace, "violations": viol}


def protocol_words(depth, maxlevel=3):
    """all words over S C L A R up to the depth that respect the protocol (close only an
    open region, loops and reductions only inside a region), prefix-maximal ones only."""
    out = []

    def rec(w, level):
        if len(w) == depth:
            out.append(w)
            return
        for op in "SCLAR":
            if op == "S" and level >= maxlevel:
                continue
            if op == "C" and level == 0:
                continue
            if op in "LAR" and level == 0:
                continue                        # the library refuses work outside a region
            if op in "LAR" and w and w[-1] == op:
                continue                        # immediate repetition adds nothing
            rec(w + op, level + (1 if op == "S" else -1 if op == "C" else 0))
    rec("", 0)
    return out


def _build(case):
    ta = systems.time_axis(case.get("nt", 100), 1.0)
    n = case["nsites"]
    en = [12000.0 + 100.0 * i + 13.0 * i * i for i in range(n)]
    J = systems.full_J(n, [60.0, -40.0, 25.0])
    bath = {"reorg": 30.0, "cortime": 60.0, "T": 300.0}
    ham, sbi = systems.ham_sbi(en, J, bath, ta)
    return ta, ham, sbi


def _target(case, ham, sbi):
    from quantarhei.qm import RedfieldRelaxationTensor, RedfieldRateMatrix
    what = case["target"]
    if what == "tensor":
        return RedfieldRelaxationTensor(ham, sbi).data
    if what == "tensor_ops":
        rt = RedfieldRelaxationTensor(ham, sbi, as_operators=True)
        rt.convert_2_tensor()
        return rt.data
    if what == "rates":
        return RedfieldRateMatrix(ham, sbi).data
    if what == "ssrates":
        # the distributed rate routine itself on synthetic components: contributions of both
        # signs, some below the routine's own clipping threshold (1e-6), so that every
        # non-linear step of the routine is exercised with partial sums that differ from the total
        from quantarhei.implementations.python.redfieldrates import ssRedfieldRateMatrix
        Na, Nk = case["nsites"] + 1, case["ncomp"]
        KI = numpy.zeros((Nk, Na, Na))
        cc = numpy.zeros((Nk, Na, Na))
        for k in range(Nk):
            for i in range(Na):
                for j in range(Na):
                    KI[k, i, j] = numpy.cos(1.3 * k + 0.7 * (i + j) + 0.4 * i * j)
                    mag = {"large": 1.0e-3, "tiny": 3.0e-7}[case["mag"]] * (1 + ((i + 2 * j + k) % 3))
                    sgn = 1.0 if case["signs"] == "positive" else (-1.0) ** (k + i + j)
                    cc[k, i, j] = sgn * mag
        RR = numpy.zeros((Na, Na))
        werr = numpy.zeros(2, dtype=numpy.int8)
        ssRedfieldRateMatrix(Na, Nk, KI, cc, 1.0e-6, werr, RR)
        return RR
    if what == "ops_raw":
        # the operator representation itself: the stored K_m, Lambda_m and Lambda_m^+ are
        # the result every rank keeps (no tensor is built from them)
        rt = RedfieldRelaxationTensor(ham, sbi, as_operators=True)
        return numpy.concatenate([numpy.asarray(rt.Km, dtype=complex).ravel(),
                                  numpy.asarray(rt.Lm, dtype=complex).ravel(),
                                  numpy.asarray(rt.Ld, dtype=complex).ravel()])
    if what == "ops_apply":
        from quantarhei.qm import ReducedDensityMatrix
        rt = RedfieldRelaxationTensor(ham, sbi, as_operators=True)
        d = ham.dim
        r = numpy.array([[(1.0 + i + 2 * j) / (3.0 + i * j) + 1j * (i - j) / 5.0
                          for j in range(d)] for i in range(d)])
        r = r + r.conj().T
        with isolation.quiet():
            out = rt.apply(ReducedDensityMatrix(data=r))
        return numpy.array(out.data, dtype=complex)
    raise isolation.HarnessError(what)


def eval_reduce(case):
    size = case["size"]
    viol = []
    try:
        restore_serial()
        ta, ham, sbi = _build(case)
        serial = numpy.array(_target(case, ham, sbi), copy=True)
        reduced = []
        results = None
        for _round in range(8):
            partials, finals = [], []
            for rank in range(size):
                dc = make_config(size, rank, reduced=[r.copy() for r in reduced])
                if case.get("nested"):
                    # the caller has already opened a parallel region (as Manager.__init__ does
                    # under real MPI, or a script wrapping the calculation): the inner loops must
                    # not be shared a second time and nothing must be reduced twice
                    from quantarhei.core import parallel as P
                    P.start_parallel_region()
                ta, ham, sbi = _build(case)
                try:
                    finals.append(numpy.array(_target(case, ham, sbi), copy=True))
                except _Stop:
                    from quantarhei.core.managers import Manager
                    partials.append(Manager().parallel_conf.comm.partial)
            if len(finals) == size:
                results = finals
                break
            if len(partials) != size:
                viol.append(("reduce/ranks-disagree-on-collective-count",
                             "some ranks reached a collective call others did not", None))
                break
            reduced.append(sum(partials[1:], partials[0].copy()))
        ncoll = len(reduced)
        if results is not None:
            for rank, r in enumerate(results):
                ok, err = approx(r, serial, 1e-10)
                if not ok:
                    viol.append(("reduce/%s/%sdiffers-from-serial" % (case["target"],
                                 "nested-region/" if case.get("nested") else ""),
                                 "size=%d rank=%d: sum-reduced %s differs from serial by %g"
                                 % (size, rank, case["target"], err), {"err": err}))
                    break
        elif not viol:
            viol.append(("reduce/no-convergence", "lock-step simulation did not finish", None))
        if ncoll == 0 and size > 1 and not case.get("nested") and not viol:
            raise isolation.HarnessError("no collective call intercepted: seam lost")
        return {"nontrivial": size > 1, "outcome": [case["target"], size, ncoll, bool(case.get("nested")),
                                                    float(numpy.round(numpy.abs(serial).sum(), 9))],
                "violations": viol}
    finally:
        restore_serial()


def replay(case):
    return eval_case(case)["violations"]


def cases(tier):
    smax = 8 if tier == "quick" else 16
    cs = []
    for size in range(1, smax + 1):
        for start in range(-3, 6):
            for stop in range(start, start + 2 * size + 4):
                cs.append({"kind": "calc", "size": size, "start": start, "stop": stop})
    for size in range(1, smax + 1):
        for start in range(-3, 6):
            for stop in range(start, start + 2 * size + 4):
                cs.append({"kind": "range", "size": size, "start": start, "stop": stop})
    for size in range(1, smax + 1):
        # reversed (empty) ranges handed to the public iterator: nobody gets an index
        for start in (0, 5, -2):
            for back in range(1, size + 3):
                cs.append({"kind": "range", "size": size, "start": start, "stop": start - back})
        # ranges longer than 2**53 (float arithmetic is not exact any more)
        for start in (0, 7):
            for extra in range(0, size + 1):
                for base in (10 ** 17, 2 ** 53 + 1, 3 * 10 ** 18):
                    cs.append({"kind": "calc", "size": size, "start": start,
                               "stop": start + base + extra})
    for kind in ("list", "array"):
        for ri in (False, True):
            for size in range(1, smax + 1):
                for n in range(0, 2 * size + 4):
                    cs.append({"kind": kind, "size": size, "n": n, "return_index": ri})
    for trail in ([3], [1], [2, 2]):
        for ri in (False, True):
            for size in range(1, min(smax, 6) + 1):
                for n in range(0, 2 * size + 4):
                    cs.append({"kind": "array", "size": size, "n": n, "return_index": ri,
                               "trail": trail})
    ranges = [(0, 5), (5, 10), (0, 6), (6, 12), (3, 3), (2, 4), (-2, 3)]
    import itertools
    for size in range(2, (4 if tier == "quick" else 6) + 1):
        for l1, l2 in itertools.product(ranges, repeat=2):
            for a1, a2 in (("range", "range"), ("list", "range"), ("range", "array")):
                cs.append({"kind": "seq", "size": size,
                           "loops": [[a1, l1[0], l1[1]], [a2, l2[0], l2[1]]]})
        if tier == "thorough":
            for l1, l2, l3 in itertools.product(ranges[:5], repeat=3):
                cs.append({"kind": "seq", "size": size,
                           "loops": [["range", l1[0], l1[1]], ["list", l2[0], l2[1]],
                                     ["range", l3[0], l3[1]]]})
    for size in range(2, (3 if tier == "quick" else 5) + 1):
        for w in protocol_words(6 if tier == "quick" else 8):
            cs.append({"kind": "protocol", "size": size, "word": w})
    TARGETS = ("tensor", "tensor_ops", "rates", "ops_raw", "ops_apply")
    for target in TARGETS:
        for nsites in (2, 3):
            for size in range(2, 4):
                cs.append({"kind": "reduce", "target": target, "nsites": nsites, "size": size,
                           "nt": 100, "nested": True})
    for signs in ("positive", "alternating"):
        for mag in ("large", "tiny"):
            for nsites in (1, 2, 3):
                for ncomp in ((1, 2, 3, 4) if tier == "quick" else (1, 2, 3, 4, 5, 7)):
                    for size in range(2, (4 if tier == "quick" else 6) + 1):
                        cs.append({"kind": "reduce", "target": "ssrates", "nsites": nsites,
                                   "ncomp": ncomp, "signs": signs, "mag": mag, "size": size,
                                   "nt": 20})
    for target in TARGETS:
        for nsites in ((2, 3) if tier == "quick" else (2, 3, 4, 5)):
            for size in range(1, (4 if tier == "quick" else 7) + 1):
                cs.append({"kind": "reduce", "target": target, "nsites": nsites,
                           "size": size, "nt": 100})
    return cs


def run(run):
    run.rule = ("full product size x start x stop (all ranks inside one case) for "
                "_calculate_ranges, block_distributed_range/list/array(return_index) and "
                "lock-step per-rank execution of the real Redfield tensor/rate code; "
                "non-trivial = more than one process and a non-empty range")
    run.assumptions = ["no real MPI: ranks are simulated sequentially through a fake "
                       "mpi4py communicator installed on the real DistributedConfiguration",
                       "reference partition model mc/refmodels/partition.py"]
    cs = cases(run.tier)
    run.bounds = {"size_max": 8 if run.tier == "quick" else 16, "start": [-3, 5],
                  "stop": "start..start+2*size+3"}
    run_grid(run, cs, eval_case)
