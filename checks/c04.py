"""C04 Basis-change contexts are transparent and self-restoring.

E-bfs + E-fault over histories of enter/exit (normal and by exception), create / read /
write / write-with-error / protect / unprotect / apply on real basis-managed objects, with
an independent reference model (mc/refmodels/basis_model.py) that tracks every object's
physical operator in the root basis.  Every history is finally closed and the restoration
clause is checked on the real Manager and on every object.

Time-dependent rank-4 objects (data[t,i,j,k,l]) are object kinds of their own: `esup`
(EvolutionSuperOperator, mode "all"), `sup5` (SuperOperator carrying 5-index data) and `relt5`
(RelaxationTensor carrying 5-index data - the transform inherited by the time-dependent
relaxation tensors).  Their oracle is the reference-model transform of EVERY time slice.
`esup` additionally has apply(time, rho) for every time point / "all" / a list of times.  The
evolution kinds esup / dme / rdme have at(time): an object made of one time slice, created in
the current basis, which must be correct there and restored like its parent.
"""
import os
import sys

import numpy

from mc import isolation
from mc.explore import run_bfs
from mc.refmodels import basis_model as BM

LEVEL = "model_checking"
TOL = 1e-9
DIM = 3
NT = 3            # time points of time-dependent objects (dme, esup, sup5, relt5)


class Injected(Exception):
    pass


SUP_T = ("esup", "sup5", "relt5")      # kinds with data[t,i,j,k,l]

XDATA = {
    "A": numpy.array([[0.0, 1.0, 0.0], [1.0, 1.0, 0.5], [0.0, 0.5, 3.0]]),
    "B": numpy.array([[2.0, -0.7, 0.3], [-0.7, 0.5, 1.1], [0.3, 1.1, -1.0]]),
    # degenerate spectrum {1,1,4} with non-trivial eigenvectors
    "C": numpy.array([[2.0, 1.0, 1.0], [1.0, 2.0, 1.0], [1.0, 1.0, 2.0]]),
    # already diagonal but not sorted (uncoupled sites), and diagonal + degenerate + unsorted
    "D": numpy.diag([1.0, 0.2, 0.6]),
    "E": numpy.diag([0.7, 0.2, 0.7]),
    # complex Hermitian (not real symmetric): the transformation is unitary, S^-1 = S^+ != S^T
    "Z": numpy.array([[0.0, 1.0, 0.5j], [1.0, 1.0, 0.3 + 0.2j], [-0.5j, 0.3 - 0.2j, 2.0]]),
}


def _vals(kind, which):
    """Deterministic initial (0) / overwrite (1) arrays for each kind, as given in the
    basis that is current when they are supplied."""
    k = 1.0 + which
    if kind == "op":
        a = numpy.array([[1, 2 + 1j, 0], [0.5, -1, 3], [1j, 0, 2]], dtype=complex)
        return {"_data": a * k + which * numpy.eye(3)}
    if kind == "rho":
        a = numpy.array([[0.5, 0.1 + 0.2j, 0], [0.1 - 0.2j, 0.3, 0.05j], [0, -0.05j, 0.2]],
                        dtype=complex)
        if which:
            a = numpy.array([[0.2, 0, 0.1], [0, 0.7, 0.1j], [0.1, -0.1j, 0.1]], dtype=complex)
        return {"_data": a}
    if kind == "ham":
        a = numpy.array([[0.0, 0.2, 0.0], [0.2, 1.0, -0.3], [0.0, -0.3, 1.5]])
        if which:
            a = numpy.array([[0.1, 0.0, 0.4], [0.0, 0.9, 0.2], [0.4, 0.2, 2.0]])
        return {"_data": a}
    if kind == "dmom":
        d = numpy.zeros((3, 3, 3))
        vec = [[1.0, 0.2, 0.0], [0.3, -0.5, 0.7]] if not which else [[0.0, 1.0, 0.4], [0.9, 0.1, -0.2]]
        for i, v in enumerate(vec):
            d[0, i + 1, :] = v
            d[i + 1, 0, :] = v
        return {"_data": d}
    if kind in ("sup", "lindten"):
        rng = numpy.arange(81, dtype=float).reshape(3, 3, 3, 3)
        a = numpy.cos(rng * (0.37 + 0.2 * which)) + 1j * numpy.sin(rng * 0.11)
        return {"_data": a}
    if kind in SUP_T:
        # every time slice is a different generic (non-symmetric, complex) rank-4 array
        rng = numpy.arange(NT * 81, dtype=float).reshape(NT, 3, 3, 3, 3)
        a = numpy.cos(rng * (0.37 + 0.2 * which)) + 1j * numpy.sin(rng * 0.11)
        return {"_data": a}
    if kind == "dme":
        r = _vals("rho", which)["_data"]
        return {"_data": numpy.stack([r, r * 0.5 + 0.1 * numpy.eye(3), r.conj()], axis=0)}
    raise isolation.HarnessError(kind)


REALABLE = ("op", "rho", "sup", "sup5", "relt5", "esup", "dme", "rdme")


def _vals_cfg(cfg, kind, which):
    """_vals, or (sections with "realdata") the real parts stored in REAL-dtype arrays: what a
    user holds who never thought about complex bases; representations in a complex Hermitian
    eigenbasis are complex all the same."""
    v = _vals(kind, which)
    if cfg.get("realdata") and kind in REALABLE:
        v = {a: numpy.ascontiguousarray(numpy.real(x)).astype(float) for a, x in v.items()}
        if kind == "rho":
            v = {a: 0.5 * (x + x.T) for a, x in v.items()}
    return v


PARTKIND = {"op": "op", "rho": "op", "ham": "op", "hamjr": "op", "dmom": "dmom", "sup": "sup",
            "lindten": "sup", "lindop": "ops3", "dme": "dme", "ctx": "op",
            "esup": "sup_t", "sup5": "sup_t", "relt5": "sup_t",
            # objects produced from an esup: apply at one time / at several times, at(time)
            "esup-applied": "op", "esup-applied-evol": "dme", "esup-slice": "sup",
            # reduced density matrix evolution; one-time objects returned by evolution.at(time)
            "rdme": "dme", "dme-slice": "op", "rdme-slice": "op"}
# which deterministic array set a kind is (over)written with
VALKIND = {"ctx": "ham", "hamjr": "ham", "esup-applied": "op", "esup-applied-evol": "dme", "esup-slice": "sup",
           "rdme": "dme", "dme-slice": "rho", "rdme-slice": "rho"}
# kinds with a method at(time) that returns an object made of one time slice -> kind of it
SLICEOF = {"esup": "esup-slice", "dme": "dme-slice", "rdme": "rdme-slice"}


class World:
    def __init__(self, cfg):
        self.cfg = cfg
        qr = isolation.qr()
        from quantarhei.core.managers import Manager
        from quantarhei.qm import SelfAdjointOperator
        self.qr = qr
        self.mgr = Manager()
        self.objs = {}
        self.order = []
        self.levels = []       # dicts: name, cm, S, snap
        self.nexc = 0
        self.ncreated = 0
        self.napply = 0
        self.nat = 0
        self.nadd = 0
        self.viol = []
        for n in cfg["ctx"]:
            o = SelfAdjointOperator(data=XDATA[n].copy())
            self._register("X" + n, "ctx", o, {"_data": XDATA[n].astype(complex)})
        for k in cfg.get("precreate", []):
            self.create(k)
        self.ncreated = 0
        # an object that does not fit the context operators (2x2 among 3x3): using it inside a
        # context is a user error that RAISES; the quantifier covers "an exception raised at any
        # point inside a context", so everything else must go on as if nothing had happened
        self.bad = {}
        if cfg.get("bad_enter"):
            from quantarhei.qm import Operator
            self.bad = {"dimension": SelfAdjointOperator(data=numpy.array([[1.0, 0.3],
                                                                           [0.3, -2.0]])),
                        "not-diagonalisable": Operator(data=numpy.array(
                            [[1.0, 0.3, 0.0], [0.3, -2.0, 0.1], [0.0, 0.1, 0.5]]))}
        self.misfit = None
        self.nmisfit = 0
        if cfg.get("misfit"):
            from quantarhei.qm import Operator
            self.misfit0 = numpy.array([[1.0, 0.3], [0.3, -2.0]], dtype=complex)
            self.misfit = Operator(data=self.misfit0.copy())

    # -- helpers -----------------------------------------------------
    def v(self, key, what, det=None):
        # worlds with a complex Hermitian context operator get their own keys
        if any(numpy.iscomplexobj(XDATA[n]) for n in self.cfg["ctx"]):
            key += "/complex-hermitian-context" + ("/real-storage" if self.cfg.get("realdata")
                                                   else "")
        if self.cfg.get("shared_sbi"):
            key += "/forms-sharing-one-system-bath-interaction"
        if key not in [x[0] for x in self.viol]:
            self.viol.append((key, what, det))

    def depth(self):
        return len(self.levels)

    def S_tot(self, level=None):
        level = self.depth() if level is None else level
        S = numpy.eye(DIM)
        for lv in self.levels[:level]:
            S = S @ lv["S"]
        return S

    def _register(self, label, kind, obj, H):
        self.objs[label] = {"kind": kind, "obj": obj, "H": H, "prot": None, "frozen": None,
                            "alias": False}
        self.order.append(label)

    def okey(self, rec, base):
        """Violation key of an object-related check.  Objects whose storage is (was found to
        be) shared with a slice object handed out by EvolutionSuperOperator.at() get a suffix
        of their own: what goes wrong with them is a different failure (one array transformed
        by two owners)."""
        return base + ("/storage-shared-with-at-slice" if rec["alias"] else "")

    def _storage_shared(self, o):
        """Does an object registered with an active basis use the storage of `o`?"""
        mine = numpy.asarray(o._data)
        for lst in self.mgr.basis_registered.values():
            for x in lst:
                other = getattr(x, "_data", None)
                if x is not o and isinstance(other, numpy.ndarray) \
                        and numpy.shares_memory(other, mine):
                    return True
        return False

    def to_root(self, kind, arr):
        S = self.S_tot()
        return BM.transform(PARTKIND[kind], numpy.asarray(arr, dtype=complex),
                            numpy.linalg.inv(S), S)

    def expected(self, label, attr, level=None):
        rec = self.objs[label]
        S = self.S_tot(level)
        return BM.transform(PARTKIND[rec["kind"]], rec["H"][attr], S, numpy.linalg.inv(S))

    def _cmp(self, got, exp):
        got = numpy.asarray(got)
        if got.shape != exp.shape:
            return False, float("inf")
        err = float(numpy.max(numpy.abs(got - exp))) if got.size else 0.0
        scale = max(1.0, float(numpy.max(numpy.abs(exp))))
        return (numpy.isfinite(err) and err <= TOL * scale), err

    # -- ops ---------------------------------------------------------------
    def create(self, kind):
        qr = self.qr
        vals = _vals_cfg(self.cfg, VALKIND.get(kind, kind), 0) if kind != "lindop" else None
        if kind == "op":
            from quantarhei.qm import Operator
            o = Operator(data=vals["_data"].copy())
        elif kind == "rho":
            o = qr.ReducedDensityMatrix(data=vals["_data"].copy())
        elif kind == "ham":
            o = qr.Hamiltonian(data=vals["_data"].copy())
        elif kind == "hamjr":
            # Hamiltonian with a split-off remainder coupling JR (coupling cut-off): JR is part of
            # the operator and is presented in the same basis as the data
            class _HamJR(qr.Hamiltonian):
                @property
                def _JR(self):
                    return self.JR
            o = _HamJR(data=vals["_data"].copy())
            o.remove_cutoff_coupling(0.25)
            vals = {"_data": numpy.array(o._data, dtype=complex, copy=True),
                    "_JR": numpy.array(o.JR, dtype=complex, copy=True)}
            if not numpy.any(vals["_JR"]):
                raise isolation.HarnessError("no remainder coupling split off")
        elif kind == "dmom":
            from quantarhei.qm import TransitionDipoleMoment
            o = TransitionDipoleMoment(data=vals["_data"].copy())
        elif kind == "sup":
            from quantarhei.qm import SuperOperator
            o = SuperOperator(data=vals["_data"].copy())
        elif kind in ("lindop", "lindten"):
            from quantarhei.qm import LindbladForm, SystemBathInteraction, Operator
            hh = qr.Hamiltonian(data=_vals("ham", 0)["_data"].copy())
            k1 = numpy.zeros((3, 3)); k1[0, 1] = 1.0
            k2 = numpy.zeros((3, 3)); k2[2, 1] = 1.0; k2[1, 1] = 0.5
            if self.cfg.get("shared_sbi") and getattr(self, "_sbi", None) is not None:
                sbi = self._sbi          # several forms made from ONE system-bath interaction
            else:
                sbi = SystemBathInteraction([Operator(data=k1), Operator(data=k2)],
                                            rates=[0.3, 0.7])
                self._sbi = sbi
            o = LindbladForm(hh, sbi, as_operators=(kind == "lindop"))
            if kind == "lindop":
                vals = {a: numpy.array(getattr(o, a), dtype=complex, copy=True)
                        for a in ("_Km", "_Lm", "_Ld")}
            else:
                vals = {"_data": numpy.array(o._data, dtype=complex, copy=True)}
        elif kind == "esup":
            from quantarhei.qm import EvolutionSuperOperator
            ta = qr.TimeAxis(0.0, NT, 1.0)
            hh = qr.Hamiltonian(data=_vals("ham", 0)["_data"].copy())
            o = EvolutionSuperOperator(time=ta, ham=hh, mode="all")
            o.data = vals["_data"].copy()
        elif kind == "sup5":
            from quantarhei.qm import SuperOperator
            o = SuperOperator(dim=DIM)
            o.data = vals["_data"].copy()
        elif kind == "relt5":
            from quantarhei.qm import RelaxationTensor
            o = RelaxationTensor()
            o.dim = DIM                   # set by every constructor of a concrete tensor class
            o.data = vals["_data"].copy()
        elif kind in ("dme", "rdme"):
            from quantarhei.qm import DensityMatrixEvolution, ReducedDensityMatrixEvolution
            ta = qr.TimeAxis(0.0, NT, 1.0)
            r0 = qr.ReducedDensityMatrix(data=_vals_cfg(self.cfg, "rho", 0)["_data"].copy())
            o = (DensityMatrixEvolution if kind == "dme" else ReducedDensityMatrixEvolution)(ta, r0)
            full = _vals_cfg(self.cfg, "dme", 0)["_data"]
            vals = {"_data": full}
            o.data[1, :, :] = full[1]
            o.data[2, :, :] = full[2]
        else:
            raise isolation.HarnessError(kind)
        self.ncreated += 1
        label = "%s%d" % (kind, len(self.order))
        H = {a: self.to_root(kind, x) for a, x in vals.items()}
        self._register(label, kind, o, H)

    def attrs(self, label):
        return list(self.objs[label]["H"].keys())

    def read(self, label):
        rec = self.objs[label]
        o = rec["obj"]
        for a in self.attrs(label):
            got = getattr(o, a[1:])
            if rec["prot"] is not None:
                ok = numpy.array_equal(numpy.asarray(got), rec["frozen"][a])
                if not ok:
                    self.v(self.okey(rec, "protected-object-changed/%s" % rec["kind"]),
                           "%s.%s changed while basis-protected" % (label, a[1:]))
                continue
            exp = self.expected(label, a)
            ok, err = self._cmp(got, exp)
            if not ok:
                det = {"err": err}
                if rec["kind"] in SUP_T and numpy.shape(got) == exp.shape:
                    # which time slices are not in the basis of the context
                    det["wrong_time_slices"] = [t for t in range(exp.shape[0])
                                                if not self._cmp(numpy.asarray(got)[t],
                                                                 exp[t])[0]]
                self.v(self.okey(rec, "presented-basis/%s/depth%d" % (rec["kind"],
                                                                      self.depth())),
                       "%s.%s read at depth %d (contexts %s) differs from S^-1 H S by %g%s"
                       % (label, a[1:], self.depth(), [l["name"] for l in self.levels], err,
                          " (time slices %s)" % det["wrong_time_slices"]
                          if "wrong_time_slices" in det else ""), det)
        # clause (i): the innermost context operator is diagonal with ascending eigenvalues
        if rec["kind"] == "ctx" and self.levels and rec["prot"] is None \
                and self.levels[-1]["name"] == label[1:] \
                and not self.levels[-1].get("overwritten"):
            d = numpy.asarray(o.data)
            off = d - numpy.diag(numpy.diag(d))
            dd = numpy.real(numpy.diag(d))
            if numpy.max(numpy.abs(off)) > TOL * 10 or numpy.any(numpy.diff(dd) < -TOL * 10):
                self.v("context-operator-not-diagonal-ascending",
                       "%s inside its own context: offdiag %g diag %s"
                       % (label, numpy.max(numpy.abs(off)), dd.tolist()))
            ev = numpy.linalg.eigvalsh(self.levels[-1]["Xroot"])
            if numpy.max(numpy.abs(numpy.sort(dd) - ev)) > 1e-8:
                self.v("context-operator-wrong-spectrum", "%s diag %s eig %s"
                       % (label, dd.tolist(), ev.tolist()))

    def write(self, label):
        rec = self.objs[label]
        vals = _vals_cfg(self.cfg, VALKIND.get(rec["kind"], rec["kind"]), 1)
        for a, x in vals.items():
            setattr(rec["obj"], a[1:], x.copy())
            rec["H"][a] = self.to_root(rec["kind"], x)
        if rec["kind"] == "ctx":
            # the user overwrote the operator of open contexts: it is what was written (in the
            # current basis), no longer the diagonal matrix these contexts were entered with
            for lv in self.levels:
                if lv["name"] == label[1:]:
                    lv["overwritten"] = True

    def write_ctx(self, label):
        self.nctxwrite = getattr(self, "nctxwrite", 0) + 1
        self.write(label)

    def enter_bad(self, which):
        """A nested `with eigenbasis_of(...)` whose __enter__ raises (an operator of another
        dimension; an object that cannot be diagonalised): __exit__ of that context is never
        called, the enclosing contexts go on as if nothing had happened."""
        self.nbadenter = getattr(self, "nbadenter", 0) + 1
        bad = self.bad[which]          # made before any context was entered
        before = self._snap()
        try:
            self.qr.eigenbasis_of(bad).__enter__()
        except isolation.HarnessError:
            raise
        except Exception:
            now = self._snap()
            for k in ("stack", "ntrans", "regkeys", "flag", "cbo"):
                if now[k] != before[k]:
                    self.v("bookkeeping/%s-changed-by-failed-enter/%s" % (k, which),
                           "%s is %r after a nested eigenbasis_of(<%s>) failed to enter at "
                           "depth %d, was %r" % (k, now[k], which, self.depth(), before[k]))
            return
        raise isolation.HarnessError("entering the context of an operator that cannot be "
                                     "diagonalised did not raise (%s)" % which)

    def write_bad(self, label):
        rec = self.objs[label]
        a = self.attrs(label)[0]
        self.nexc += 1
        try:
            setattr(rec["obj"], a[1:], "not-an-array")
            self.v("bad-assignment-accepted/%s" % rec["kind"],
                   "assigning a string to %s.%s did not raise" % (label, a[1:]))
        except (TypeError, Exception):
            pass

    def protect(self, label):
        rec = self.objs[label]
        rec["obj"].protect_basis()
        rec["prot"] = self.depth()
        rec["frozen"] = {a: numpy.array(getattr(rec["obj"], a), copy=True)
                         for a in self.attrs(label)}

    def unprotect(self, label):
        rec = self.objs[label]
        for a in self.attrs(label):
            if not numpy.array_equal(numpy.asarray(getattr(rec["obj"], a)), rec["frozen"][a]):
                self.v(self.okey(rec, "protected-object-changed/%s" % rec["kind"]),
                       "%s.%s changed while basis-protected" % (label, a[1:]))
        rec["obj"].unprotect_basis()
        rec["prot"] = None
        rec["frozen"] = None

    def apply(self, sl, rl, tv=None):
        """tensor.apply(operator); for an evolution superoperator (kind esup) `tv` selects the
        time argument: a time index (apply at that one time), "all" (the whole time axis) or
        "list" (a list of all time points, which goes through EvolutionSuperOperator.at)."""
        srec, rrec = self.objs[sl], self.objs[rl]
        rho_root = rrec["H"]["_data"]
        reskind = "op"
        if srec["kind"] == "esup":
            times = [float(t) for t in range(NT)]
            if tv in ("all", "list"):
                res = srec["obj"].apply("all" if tv == "all" else times, rrec["obj"])
                out = numpy.stack([numpy.tensordot(srec["H"]["_data"][t], rho_root)
                                   for t in range(NT)], axis=0)
                reskind = "esup-applied-evol"
                if tv == "list":                # goes through at(): temporaries made of slices
                    srec["alias"] = srec["alias"] or self._storage_shared(srec["obj"])
            else:
                res = srec["obj"].apply(times[tv], rrec["obj"])
                out = numpy.tensordot(srec["H"]["_data"][tv], rho_root)
                reskind = "esup-applied"
        elif srec["kind"] == "lindop":
            res = srec["obj"].apply(rrec["obj"])
            Km, Lm, Ld = srec["H"]["_Km"], srec["H"]["_Lm"], srec["H"]["_Ld"]
            # root basis is orthonormal and transformations are real orthogonal: K^+ = K^T
            out = numpy.zeros((DIM, DIM), dtype=complex)
            for m in range(Km.shape[0]):
                Kd = Km[m].T
                out += (Km[m] @ rho_root @ Ld[m] + Lm[m] @ rho_root @ Kd
                        - Kd @ Lm[m] @ rho_root - rho_root @ Ld[m] @ Km[m])
        else:
            res = srec["obj"].apply(rrec["obj"])
            out = numpy.tensordot(srec["H"]["_data"], rho_root)
        self.napply += 1
        label = "res%d" % self.napply
        self._register(label, reskind, res, {"_data": out})
        S = self.S_tot()
        exp = BM.transform(PARTKIND[reskind], out, S, numpy.linalg.inv(S))
        ok, err = self._cmp(res.data, exp)
        if not ok:
            self.v(self.okey(srec, "apply-not-basis-independent/%s/depth%d"
                             % (srec["kind"], self.depth())),
                   "%s.apply(%s%s) at depth %d differs from the root-basis action by %g"
                   % (sl, "" if tv is None else "time=%s, " % tv, rl, self.depth(), err),
                   {"err": err})
        # tr(A rho) is basis independent (at every time)
        tr = numpy.trace(numpy.asarray(res.data), axis1=-2, axis2=-1)
        tro = numpy.trace(out, axis1=-2, axis2=-1)
        if numpy.shape(tr) != numpy.shape(tro) or \
                numpy.max(numpy.abs(tr - tro)) > TOL * max(1.0, numpy.max(numpy.abs(tro))):
            self.v(self.okey(srec, "trace-not-basis-independent"),
                   "trace of applied result changed")

    def add(self, la, lb):
        """A + B of two operators (in place on A, as documented): afterwards A is the sum of the
        two physical operators, whatever basis is current and whether or not A had been used in
        it before."""
        ra, rb = self.objs[la], self.objs[lb]
        res = ra["obj"] + rb["obj"]
        self.nadd += 1
        out = ra["H"]["_data"] + rb["H"]["_data"]
        # documented: Operator.__add__ adds to the left operand and returns it
        if res is not ra["obj"]:
            raise isolation.HarnessError("Operator.__add__ no longer returns its left operand")
        ra["H"]["_data"] = numpy.array(out, copy=True)
        S = self.S_tot()
        exp = BM.transform("op", out, S, numpy.linalg.inv(S))
        ok, err = self._cmp(res.data, exp)
        if not ok:
            self.v("operator-sum-not-basis-independent/depth%d" % self.depth(),
                   "%s + %s at depth %d differs from the sum of the operators by %g"
                   % (la, lb, self.depth(), err), {"err": err})

    def at(self, sl, ti):
        """evolution.at(time) of an EvolutionSuperOperator / (Reduced)DensityMatrixEvolution: an
        object made of one time slice, created in the basis that is current."""
        srec = self.objs[sl]
        skind = SLICEOF[srec["kind"]]
        res = srec["obj"].at(float(ti))
        self.nat += 1
        label = "slice%d" % self.nat
        self._register(label, skind, res,
                       {"_data": numpy.array(srec["H"]["_data"][ti], copy=True)})
        if numpy.shares_memory(numpy.asarray(res._data), numpy.asarray(srec["obj"]._data)):
            srec["alias"] = True
            self.objs[label]["alias"] = True
        S = self.S_tot()
        exp = BM.transform(PARTKIND[skind], self.objs[label]["H"]["_data"], S,
                           numpy.linalg.inv(S))
        ok, err = self._cmp(res.data, exp)
        if not ok:
            self.v("at-not-in-current-basis/%s/depth%d" % (srec["kind"], self.depth()),
                   "%s.at(%d) at depth %d differs from the slice of S^-1 H S by %g"
                   % (sl, ti, self.depth(), err), {"err": err})

    def _snap(self):
        m = self.mgr
        return {"stack": list(m.basis_stack), "ntrans": len(m.basis_transformations),
                "regkeys": sorted(m.basis_registered.keys()),
                "cbo": id(m.current_basis_operator) if m.current_basis_operator is not None
                else None,
                "flag": bool(m._in_eigenbasis_of_context)}

    def enter(self, name):
        rec = self.objs["X" + name]
        snap = self._snap()
        if self.cfg.get("reuse_cm"):
            # ONE context-manager object per operator, entered again and again (the library
            # itself hands out such objects, e.g. PureDephasing._eigenbasis())
            if not hasattr(self, "_cms"):
                self._cms = {}
            if name not in self._cms:
                self._cms[name] = self.qr.eigenbasis_of(rec["obj"])
            cm = self._cms[name]
        else:
            cm = self.qr.eigenbasis_of(rec["obj"])
        cm.__enter__()
        S = numpy.array(self.mgr.basis_transformations[-1], dtype=complex, copy=True)
        if numpy.max(numpy.abs(S.imag)) == 0.0:
            S = S.real.copy()
        Xcur = self.expected("X" + name, "_data")
        # once a complex Hermitian operator is in play, stored representations are complex and a
        # unitary (phase-carrying) eigenbasis is as good as a real one
        cplx = any(numpy.iscomplexobj(XDATA[n]) for n in self.cfg["ctx"])
        bad = BM.check_diagonalizer(Xcur, S, allow_complex=cplx)
        if bad:
            self.v("enter/transformation-does-not-diagonalise/" + "+".join(bad),
                   "basis transformation of eigenbasis_of(X%s) at depth %d: %s"
                   % (name, self.depth(), bad))
        self.levels.append({"name": name, "cm": cm, "S": S, "snap": snap,
                            "Xroot": numpy.array(rec["H"]["_data"], copy=True)})
        if not self.mgr._in_eigenbasis_of_context:
            self.v("bookkeeping/context-flag-not-set", "flag False inside a context")

    def _exit_one(self, exc):
        lv = self.levels.pop()
        try:
            if exc is None:
                lv["cm"].__exit__(None, None, None)
                swallowed = False
            else:
                swallowed = bool(lv["cm"].__exit__(type(exc), exc, exc.__traceback__))
        except isolation.HarnessError:
            raise
        except Exception as e:                      # leaving a context must never fail
            swallowed = False
            self.v("context-exit-raises/%s" % type(e).__name__,
                   "leaving context %s raised %s: %s" % (lv["name"], type(e).__name__,
                                                         str(e)[:120]))
        # freeze-by-protect (sections with cfg["freeze"]): an object that was taken into the
        # basis of the context just left and protected THERE keeps its stored array (checked at
        # the next read / unprotect) and is from now on an object of the enclosing basis: the
        # frozen array is what it is in the basis we are back in
        d_left = self.depth() + 1
        for lab in self.order:
            rec = self.objs[lab]
            if rec["prot"] is not None and rec["prot"] == d_left:
                rec["prot"] = d_left - 1
                rec["H"] = {a: self.to_root(rec["kind"], rec["frozen"][a])
                            for a in self.attrs(lab)}
                tag = rec["obj"].get_current_basis()
                if tag != self.mgr.get_current_basis():
                    self.v(self.okey(rec, "bookkeeping/protected-object-basis-tag-after-exit/%s"
                                     % rec["kind"]),
                           "%s (protected inside the context that was left) is tagged with basis "
                           "%r, the basis in force is %r" % (lab, tag,
                                                             self.mgr.get_current_basis()))
        now = self._snap()
        snap = lv["snap"]
        for k in ("stack", "ntrans", "regkeys", "flag"):
            if now[k] != snap[k]:
                self.v("bookkeeping/%s-not-restored-after-exit" % k,
                       "%s is %r after leaving context %s, was %r before entering"
                       % (k, now[k], lv["name"], snap[k]))
        if now["cbo"] != snap["cbo"]:
            self.v("bookkeeping/current_basis_operator-not-restored/depth%d" % self.depth(),
                   "Manager.current_basis_operator is %s after leaving a context at depth %d; "
                   "before entering it was %s" % ("None" if now["cbo"] is None else "set",
                                                  self.depth() + 1,
                                                  "None" if snap["cbo"] is None else "set"))
        return swallowed

    def exit(self):
        self._exit_one(None)

    def exit_exc(self):
        self.nexc += 1
        try:
            raise Injected("inside context")
        except Injected as e:
            if self._exit_one(e):
                self.v("exception-swallowed", "__exit__ swallowed the exception")

    def raise_all(self):
        self.nexc += 1
        try:
            raise Injected("inside innermost context")
        except Injected as e:
            while self.levels:
                if self._exit_one(e):
                    self.v("exception-swallowed", "__exit__ swallowed the exception")
                    break

    # -- closure -------------------------------------------------------------
    def close_and_check(self):
        # bracketed protection: release in reverse order at the right depths
        while self.levels:
            for lab in self.order:
                if self.objs[lab]["prot"] is not None and self.objs[lab]["prot"] >= self.depth():
                    self.unprotect(lab)
            self._exit_one(None)
        for lab in self.order:
            if self.objs[lab]["prot"] is not None:
                self.unprotect(lab)
        m = self.mgr
        if m.basis_stack != [0] or len(m.basis_transformations) != 1 or m.basis_registered != {} \
                or m._in_eigenbasis_of_context:
            self.v("restoration/manager-bookkeeping",
                   "after the last exit: stack=%r ntrans=%d registered=%r flag=%r"
                   % (m.basis_stack, len(m.basis_transformations),
                      sorted(m.basis_registered.keys()), m._in_eigenbasis_of_context))
        for lab in self.order:
            rec = self.objs[lab]
            o = rec["obj"]
            if o.get_current_basis() != 0:
                self.v(self.okey(rec, "restoration/object-basis-tag/%s" % rec["kind"]),
                       "%s is tagged with basis %r after all contexts were left"
                       % (lab, o.get_current_basis()))
                continue
            for a in self.attrs(lab):
                got = getattr(o, a)
                ok, err = self._cmp(got, rec["H"][a])
                if not ok:
                    self.v(self.okey(rec, "restoration/object-data/%s" % rec["kind"]),
                           "%s.%s differs from its original representation by %g after all "
                           "contexts were left" % (lab, a[1:], err), {"err": err})
                pub = getattr(o, a[1:])
                ok, err = self._cmp(pub, rec["H"][a])
                if not ok:
                    self.v(self.okey(rec, "restoration/object-public-read/%s" % rec["kind"]),
                           "%s.%s read outside differs by %g" % (lab, a[1:], err))
        if self.misfit is not None:
            o = self.misfit
            if o.get_current_basis() != 0:
                self.v("restoration/object-basis-tag/after-failed-access",
                       "an object whose use inside the context raised is tagged with basis %r "
                       "after all contexts were left" % o.get_current_basis())
            else:
                try:
                    ok, err = self._cmp(o.data, self.misfit0)
                except Exception as e:
                    ok, err = False, float("inf")
                if not ok:
                    self.v("restoration/object-data/after-failed-access",
                           "an object whose use inside the context raised differs from its "
                           "original representation by %g afterwards" % err)

    def read_misfit(self):
        self.nmisfit += 1
        try:
            self.misfit.data
        except isolation.HarnessError:
            raise
        except Exception:
            pass                       # the user catches the error inside the context

    # -- enumeration support -------------------------------------------------
    def enabled(self):
        cfg = self.cfg
        ops = []
        d = self.depth()
        prot_here = [l for l in self.order if self.objs[l]["prot"] is not None
                     and self.objs[l]["prot"] >= d]
        any_prot = [l for l in self.order if self.objs[l]["prot"] is not None
                    and self.objs[l]["prot"] >= 1]
        if d < cfg["nest"]:
            for n in cfg["ctx"]:
                xr = self.objs["X" + n]
                # a protected operator is frozen in the basis it was protected in; the package
                # enters its context only there (protect; with eigenbasis_of(op); unprotect)
                if xr["prot"] is not None and \
                        xr["obj"].get_current_basis() != self.mgr.get_current_basis():
                    continue
                if cfg.get("reuse_cm") and any(l["name"] == n for l in self.levels):
                    continue       # one context-manager OBJECT is not nested inside itself
                ops.append(["enter", n])
        freeze = bool(cfg.get("freeze"))
        if d > 0 and (freeze or not prot_here):
            ops.append(["exit"])
            if self.nexc < cfg["nexc"]:
                ops.append(["exit_exc"])
        if d > 0 and (freeze or not any_prot) and self.nexc < cfg["nexc"]:
            ops.append(["raise_all"])
        if self.misfit is not None and d > 0 and self.nmisfit < 1:
            ops.append(["read_misfit"])
        if cfg.get("bad_enter") and d > 0 and getattr(self, "nbadenter", 0) < 1:
            ops.append(["enter_bad", "dimension"])
            ops.append(["enter_bad", "not-diagonalisable"])
        if self.ncreated < cfg["nobj"]:
            for k in cfg["kinds"]:
                ops.append(["create", k])
        for lab in self.order:
            rec = self.objs[lab]
            ops.append(["read", lab])
            if rec["kind"] == "ctx" and rec["prot"] is None and cfg.get("write_ctx") \
                    and getattr(self, "nctxwrite", 0) < 1:
                ops.append(["write_ctx", lab])
            if rec["kind"] != "ctx" and rec["prot"] is None and not cfg.get("readonly"):
                if rec["kind"] not in ("lindop", "lindten"):
                    ops.append(["write", lab])
                if self.nexc < cfg["nexc"] and rec["kind"] in ("op", "ham", "sup") + SUP_T:
                    ops.append(["write_bad", lab])
            if cfg.get("protect", True):
                if rec["prot"] is None and rec["obj"].get_current_basis() == self.mgr.get_current_basis():
                    ops.append(["protect", lab])
                if rec["prot"] is not None and (rec["prot"] == d or freeze):
                    ops.append(["unprotect", lab])
        if self.napply < cfg.get("napply", 1):
            sups = [l for l in self.order
                    if self.objs[l]["kind"] in ("sup", "lindop", "lindten", "esup")
                    and self.objs[l]["prot"] is None]
            rhos = [l for l in self.order if self.objs[l]["kind"] in ("rho", "op")
                    and self.objs[l]["prot"] is None and not l.startswith("res")]
            for s in sups[:1]:
                for r in rhos[:1]:
                    if self.objs[s]["kind"] == "esup":
                        # the complete set of time arguments: every time point, the whole
                        # axis, a list of times
                        for tv in list(range(NT)) + ["all", "list"]:
                            ops.append(["apply", s, r, tv])
                    else:
                        ops.append(["apply", s, r])
        if self.nadd < cfg.get("nadd", 0):
            opsl = [l for l in self.order if self.objs[l]["kind"] == "op"
                    and self.objs[l]["prot"] is None and not l.startswith(("res", "sum"))]
            for a in opsl:
                for b in opsl:
                    if a != b:
                        ops.append(["add", a, b])
        if self.nat < cfg.get("nat", 0):
            for lab in self.order:
                if self.objs[lab]["kind"] in SLICEOF and self.objs[lab]["prot"] is None:
                    for ti in range(NT):
                        ops.append(["at", lab, ti])
        return ops

    def key(self):
        m = self.mgr
        objs = []
        for lab in self.order:
            rec = self.objs[lab]
            o = rec["obj"]
            tag = o.get_current_basis()
            reg = sorted(k for k, v in m.basis_registered.items() if any(x is o for x in v))
            cons = []
            for a in self.attrs(lab):
                if tag in m.basis_stack:
                    exp = self.expected(lab, a, m.basis_stack.index(tag))
                    cons.append(bool(self._cmp(getattr(o, a), exp)[0]))
                else:
                    cons.append("off-stack")
            objs.append([lab, tag, rec["prot"], reg, cons, rec["alias"],
                         [numpy.round(rec["H"][a], 6).tobytes().hex()[:40] + str(hash(
                             numpy.round(rec["H"][a], 6).tobytes())) for a in self.attrs(lab)]])
        mf = None
        if self.misfit is not None:
            o = self.misfit
            mf = [self.nmisfit, o.get_current_basis(),
                  sorted(k for k, v in m.basis_registered.items() if any(x is o for x in v))]
        # everything else the bookkeeping singleton, the objects and the open context managers
        # carry (attributes this driver does not know by name included), in a shallow canonical
        # form: two histories are merged only if ALL of that agrees, so that a memo or cache kept
        # anywhere there makes a different state instead of being hidden by the merge
        hidden = [_shallow_state(m),
                  [_shallow_state(self.objs[lab]["obj"]) for lab in self.order],
                  [_shallow_state(l["cm"]) for l in self.levels],
                  sorted((n, _shallow_state(c)) for n, c in getattr(self, "_cms", {}).items())]
        return [[l["name"] for l in self.levels], list(m.basis_stack), objs,
                self.nexc, self.ncreated, self.napply, self.nat, mf, self.nadd, hidden,
                getattr(self, "nbadenter", 0), getattr(self, "nctxwrite", 0),
                [bool(l.get("overwritten")) for l in self.levels]]


def _shallow(v):
    if isinstance(v, (bool, int, float, complex, str, type(None))):
        return repr(v)
    if isinstance(v, dict):
        return ["dict", sorted(repr(k) if isinstance(k, (bool, int, float, str, tuple))
                               else type(k).__name__ for k in v)]
    if isinstance(v, (list, tuple, set, frozenset)):
        return [type(v).__name__, len(v)]
    if isinstance(v, numpy.ndarray):
        return ["ndarray", list(v.shape), str(v.dtype)]
    return type(v).__name__


def _shallow_state(o):
    try:
        d = vars(o)
    except TypeError:
        return type(o).__name__
    return [[k, _shallow(d[k])] for k in sorted(d)]


CFG = {}


def execute(hist):
    cfg = execute.cfg
    w = World(cfg)
    for i, op in enumerate(hist):
        try:
            getattr(w, op[0])(*op[1:])
        except isolation.HarnessError:
            raise
        except Exception as e:
            # no operation of the alphabet is an error of the user: a library call that raises
            # here (e.g. "Basis of the object is not on stack.") is lost bookkeeping
            w.v("operation-raises/%s/%s" % (op[0], type(e).__name__),
                "history %s: %s raised %s: %s" % (hist[:i], op, type(e).__name__, str(e)[:120]))
            isolation.reset_manager()
            return {"key": ["broken", hist], "enabled": [], "violations": w.viol,
                    "nontrivial": True, "outcome": ["raised", op[0], type(e).__name__]}
    key = w.key()
    enabled = w.enabled()
    depth = w.depth()
    nobj = len(w.order)
    try:
        w.close_and_check()
    except isolation.HarnessError:
        raise
    except Exception as e:
        w.v("operation-raises/closing/%s" % type(e).__name__,
            "history %s, then leaving all contexts and reading every object: %s: %s"
            % (hist, type(e).__name__, str(e)[:120]))
    nontrivial = any(o[0] == "enter" for o in hist) and any(
        o[0] in ("create", "read", "write", "apply", "at") for o in hist)
    return {"key": key, "enabled": enabled, "violations": w.viol, "nontrivial": nontrivial,
            "outcome": [depth, nobj, [o[0] for o in hist][-1:] if hist else [],
                        len(w.viol)]}


execute.cfg = None

ALL_KINDS = ["op", "rho", "ham", "hamjr", "dmom", "sup", "lindop", "lindten", "dme"] + list(SUP_T)


def sections(tier):
    secs = []
    if tier == "quick":
        for k in ALL_KINDS:
            # sup5 goes through the same transform code as esup, ham is covered by hamjr: one
            # level less in this tier
            secs.append(("kind-" + k, {"ctx": ["A", "B"], "kinds": [k], "nobj": 1, "nest": 2,
                                       "nexc": 1, "protect": True}, 4 if k in ("sup5", "ham") else 5))
        secs.append(("mixed", {"ctx": ["A", "C"], "kinds": ["op", "sup", "rho"], "nobj": 2,
                               "nest": 2, "nexc": 1, "protect": False, "misfit": True}, 4))
        secs.append(("apply-lindop", {"ctx": ["A", "B"], "kinds": [], "nobj": 0, "nest": 2,
                                      "nexc": 0, "protect": False,
                                      "precreate": ["rho", "lindop"]}, 5))
        secs.append(("diagonal-context-operators", {"ctx": ["D", "E", "A"], "kinds": ["op"],
                                                    "nobj": 1, "nest": 2, "nexc": 1,
                                                    "protect": False}, 4))
        # time-dependent superoperator created before any context: apply(time, rho) with every
        # time argument, and at(time) slices
        secs.append(("apply-esup", {"ctx": ["A", "B"], "kinds": [], "nobj": 0, "nest": 2,
                                    "nexc": 0, "protect": False,
                                    "precreate": ["rho", "esup"]}, 4))
        secs.append(("at-esup", {"ctx": ["A", "B"], "kinds": [], "nobj": 0, "nest": 2,
                                 "nexc": 1, "protect": False, "napply": 0, "nat": 1,
                                 "precreate": ["esup"]}, 4))
        for k in ("dme", "rdme"):
            secs.append(("at-" + k, {"ctx": ["A", "B"], "kinds": [], "nobj": 0, "nest": 2,
                                     "nexc": 1, "protect": False, "napply": 0, "nat": 1,
                                     "precreate": [k]}, 4))
        secs.append(("shared-sbi", {"ctx": ["A", "B"], "kinds": ["lindop"], "nobj": 2, "nest": 2,
                                    "nexc": 0, "protect": False, "shared_sbi": True}, 4))
        secs.append(("operator-sum", {"ctx": ["A", "B"], "kinds": [], "nobj": 0, "nest": 2,
                                      "nexc": 0, "protect": False, "napply": 0, "nadd": 1,
                                      "precreate": ["op", "op"]}, 4))
        secs.append(("reused-context-objects", {"ctx": ["A", "B"], "kinds": ["op"], "nobj": 1,
                                                "nest": 2, "nexc": 1, "protect": False,
                                                "reuse_cm": True}, 5))
        # protection that is NOT bracketed around the context: protect inside and leave (the
        # stored array is frozen, the object becomes one of the enclosing basis), lift the
        # protection at another depth than it was set
        secs.append(("freeze-by-protect", {"ctx": ["A", "B"], "kinds": ["op"], "nobj": 1,
                                           "nest": 2, "nexc": 0, "protect": True, "freeze": True,
                                           "readonly": True}, 5))
        # a nested context that fails to enter; the operator of an open context overwritten by
        # the user and its context entered again
        secs.append(("failed-enter", {"ctx": ["A", "B"], "kinds": ["op"], "nobj": 1, "nest": 2,
                                      "nexc": 1, "protect": False, "bad_enter": True}, 4))
        secs.append(("context-operator-overwritten", {"ctx": ["A", "B"], "kinds": [], "nobj": 0,
                                                      "nest": 3, "nexc": 0, "protect": False,
                                                      "readonly": True, "napply": 0,
                                                      "write_ctx": True,
                                                      "precreate": ["op"]}, 5))
        # sibling inner contexts inside one outer context, objects that skip a level
        secs.append(("sibling-contexts", {"ctx": ["A", "B"], "kinds": [], "nobj": 0, "nest": 2,
                                          "nexc": 0, "protect": False, "readonly": True,
                                          "napply": 0, "precreate": ["op", "op"]}, 6))
        secs.append(("complex-context-operator", {"ctx": ["Z", "A"],
                                                  "kinds": ["dmom", "dme", "op", "sup"],
                                                  "nobj": 1, "nest": 2, "nexc": 1,
                                                  "protect": False, "realdata": True}, 4))
        # the largest section comes last: it may use the time the others did not need
        secs.append(("apply-sup", {"ctx": ["A", "B"], "kinds": [], "nobj": 0, "nest": 2, "nexc": 1,
                                   "protect": False, "precreate": ["op", "sup"]}, 5))
    else:
        for k in ALL_KINDS:
            secs.append(("kind-" + k, {"ctx": ["A", "B", "C"], "kinds": [k], "nobj": 2,
                                       "nest": 3, "nexc": 2, "protect": True}, 6))
        secs.append(("mixed", {"ctx": ["A", "B", "C"], "kinds": ["op", "ham", "sup", "rho", "dme"],
                               "nobj": 3, "nest": 3, "nexc": 2, "protect": True, "misfit": True}, 6))
        secs.append(("shared-sbi", {"ctx": ["A", "B"], "kinds": ["lindop", "lindten"], "nobj": 3,
                                    "nest": 2, "nexc": 1, "protect": False, "shared_sbi": True}, 6))
        secs.append(("operator-sum", {"ctx": ["A", "B", "C"], "kinds": ["op"], "nobj": 1, "nest": 3,
                                      "nexc": 1, "protect": True, "napply": 0, "nadd": 2,
                                      "precreate": ["op", "op"]}, 6))
        secs.append(("reused-context-objects", {"ctx": ["A", "B", "C"], "kinds": ["op", "sup"],
                                                "nobj": 2, "nest": 3, "nexc": 1, "protect": True,
                                                "reuse_cm": True}, 6))
        secs.append(("freeze-by-protect", {"ctx": ["A", "B"], "kinds": ["op", "sup", "dme"],
                                           "nobj": 1, "nest": 3, "nexc": 1, "protect": True,
                                           "freeze": True, "readonly": True}, 6))
        secs.append(("failed-enter", {"ctx": ["A", "B"], "kinds": ["op", "sup"], "nobj": 2,
                                      "nest": 3, "nexc": 1, "protect": True, "bad_enter": True}, 6))
        secs.append(("context-operator-overwritten", {"ctx": ["A", "B"], "kinds": ["op"],
                                                      "nobj": 1, "nest": 3, "nexc": 1,
                                                      "protect": False, "napply": 0,
                                                      "write_ctx": True}, 6))
        secs.append(("sibling-contexts", {"ctx": ["A", "B", "C"], "kinds": [], "nobj": 0,
                                          "nest": 3, "nexc": 0, "protect": False,
                                          "readonly": True, "napply": 0,
                                          "precreate": ["op", "sup"]}, 7))
        secs.append(("failed-access", {"ctx": ["A", "B"], "kinds": ["op", "sup"], "nobj": 2,
                                       "nest": 3, "nexc": 1, "protect": False, "misfit": True}, 6))
        secs.append(("apply-sup", {"ctx": ["A", "B", "C"], "kinds": [], "nobj": 0, "nest": 3,
                                   "nexc": 2, "protect": True, "precreate": ["op", "sup"]}, 7))
        secs.append(("apply-lindop", {"ctx": ["A", "B", "C"], "kinds": [], "nobj": 0, "nest": 3,
                                      "nexc": 1, "protect": True,
                                      "precreate": ["rho", "lindop"]}, 7))
        secs.append(("apply-lindten", {"ctx": ["A", "B"], "kinds": [], "nobj": 0, "nest": 3,
                                       "nexc": 1, "protect": False,
                                       "precreate": ["op", "lindten"]}, 7))
        secs.append(("diagonal-context-operators", {"ctx": ["D", "E", "A", "C"], "kinds": ["op", "sup"],
                                                    "nobj": 2, "nest": 3, "nexc": 1,
                                                    "protect": True}, 6))
        secs.append(("apply-esup", {"ctx": ["A", "B", "C"], "kinds": [], "nobj": 0, "nest": 3,
                                    "nexc": 1, "protect": True,
                                    "precreate": ["rho", "esup"]}, 6))
        secs.append(("at-esup", {"ctx": ["A", "B", "C"], "kinds": [], "nobj": 0, "nest": 3,
                                 "nexc": 1, "protect": True, "napply": 0, "nat": 2,
                                 "precreate": ["esup"]}, 6))
        for k in ("dme", "rdme"):
            secs.append(("at-" + k, {"ctx": ["A", "B", "C"], "kinds": [], "nobj": 0, "nest": 3,
                                     "nexc": 1, "protect": True, "napply": 0, "nat": 2,
                                     "precreate": [k]}, 6))
        for k in ("op", "rho", "ham", "dmom", "sup", "dme", "esup", "relt5", "lindop", "lindten"):
            secs.append(("complex-context-" + k, {"ctx": ["Z", "A"], "kinds": [k], "nobj": 2,
                                                  "nest": 2, "nexc": 1, "protect": True}, 5))
            if k in REALABLE:
                secs.append(("complex-context-real-" + k,
                             {"ctx": ["Z", "A"], "kinds": [k], "nobj": 2, "nest": 2, "nexc": 1,
                              "protect": True, "realdata": True}, 5))
        # the action of a tensor on a state inside a complex eigenbasis
        for nm, pre in (("sup", ["op", "sup"]), ("lindop", ["rho", "lindop"]),
                        ("lindten", ["op", "lindten"]), ("esup", ["rho", "esup"])):
            secs.append(("complex-apply-" + nm, {"ctx": ["Z", "A"], "kinds": [], "nobj": 0,
                                                 "nest": 2, "nexc": 1, "protect": False,
                                                 "precreate": pre}, 5))
    return secs


# ---------------------------------------------------------------------------------------------
# Redfield tensors of a real aggregate (time independent / time dependent; built as a tensor, or as
# operators and converted with convert_2_tensor() BEFORE the context): a grid, one build per case
# ---------------------------------------------------------------------------------------------
def eval_redfield(case):
    qr = isolation.qr()
    from mc import systems
    from quantarhei.qm import SelfAdjointOperator, ReducedDensityMatrix
    isolation.reset_manager()
    viol = []
    ta = systems.time_axis(12, 2.0)
    agg = systems.aggregate([12000.0, 12250.0], systems.chain_J(2, 90.0),
                            bath=dict(reorg=25.0, cortime=60.0, T=300.0), ta=ta)
    td, route = case["td"], case["route"]
    with isolation.quiet():
        RT, ham = agg.get_RelaxationTensor(ta, relaxation_theory="standard_Redfield",
                                           time_dependent=td, as_operators=(route != "tensor"))
        isolation.reset_units()
        if route == "converted":
            RT.convert_2_tensor()
    R0 = numpy.array(RT.data, dtype=complex, copy=True)
    kind = "sup_t" if R0.ndim == 5 else "sup"
    rho0 = _vals("rho", 0)["_data"]
    rho = ReducedDensityMatrix(data=rho0.copy())
    A0 = _vals("op", 0)["_data"]

    def act(R, r):
        return numpy.stack([numpy.tensordot(R[t], r) for t in range(R.shape[0])]) if R.ndim == 5 \
            else numpy.tensordot(R, r)
    ref = numpy.trace(numpy.einsum("ij,...jk->...ik", A0, act(R0, rho0)), axis1=-2, axis2=-1)
    X = SelfAdjointOperator(data=XDATA[case["ctx"]].copy())
    tag = "redfield/%s/%s" % ("time-dependent" if td else "time-independent", route)
    with qr.eigenbasis_of(X):
        S = numpy.array(X.manager.basis_transformations[-1], dtype=complex)
        S1 = numpy.linalg.inv(S)
        if case["first"] == "tensor":
            Rin = numpy.array(RT.data, dtype=complex, copy=True)
            rin = numpy.array(rho.data, dtype=complex, copy=True)
        else:
            rin = numpy.array(rho.data, dtype=complex, copy=True)
            Rin = numpy.array(RT.data, dtype=complex, copy=True)
        exp = BM.transform(kind, R0, S, S1)
        sc = max(1.0, float(numpy.max(numpy.abs(R0))))
        err = float(numpy.max(numpy.abs(Rin - exp))) if Rin.shape == exp.shape else float("inf")
        if not err <= TOL * sc:
            viol.append(("presented-basis/%s" % tag, "tensor read inside eigenbasis_of(X%s) differs "
                         "from the transformed tensor by %g" % (case["ctx"], err), {"err": err}))
        Ain = BM.transform("op", A0, S, S1)
        got = numpy.trace(numpy.einsum("ij,...jk->...ik", Ain, act(Rin, rin)), axis1=-2, axis2=-1)
        e2 = float(numpy.max(numpy.abs(got - ref)))
        if not e2 <= TOL * max(1.0, float(numpy.max(numpy.abs(ref)))):
            viol.append(("action-not-basis-independent/%s" % tag, "tr(A R[rho]) inside the context "
                         "differs from the value outside by %g" % e2, {"err": e2}))
    err = float(numpy.max(numpy.abs(numpy.array(RT.data) - R0)))
    if not err <= TOL * sc:
        viol.append(("restoration/%s" % tag, "tensor differs from its original representation by "
                     "%g after the context" % err, {"err": err}))
    return {"nontrivial": True, "violations": viol,
            "outcome": [td, route, case["ctx"], case["first"], round(float(abs(ref).max()), 9)]}


def redfield_cases(tier):
    cs = []
    for td in (False, True):
        for route in ("tensor", "converted"):
            for ctx in (("A", "B") if tier == "quick" else ("A", "B", "C", "Z")):
                for first in ("tensor", "state"):
                    cs.append({"kind": "redfield", "td": td, "route": route, "ctx": ctx,
                               "first": first})
    return cs


def replay(case):
    if case.get("kind") == "redfield":
        return eval_redfield(case)["violations"]
    execute.cfg = case.get("cfg") or sections("thorough")[-1][1]
    hist = tuple(tuple(o) for o in case["history"])
    return execute(hist)["violations"]


def run(run):
    run.rule = ("BFS over histories of enter/exit/exit-by-exception/raise-through-all/create/"
                "read/write/bad-write/protect/unprotect/apply/at(time) on real basis-managed "
                "objects (incl. time-dependent rank-4 data[t,i,j,k,l]: every time slice is "
                "compared); one section per object kind plus mixed sections and sections with "
                "objects created before any context; every history is closed and the "
                "restoration clause checked; non-trivial = history that enters a context and "
                "touches an object")
    run.assumptions = ["context operators are real symmetric 3x3 (one with a degenerate "
                       "spectrum), plus one complex Hermitian operator in the complex-context "
                       "sections; the implementation's transformation matrix is validated "
                       "(orthogonal, diagonalises the model's operator, ascending) and then used "
                       "by the model, which removes eigenvector gauge freedom",
                       "protection only in the bracketed form used by the package",
                       "time-dependent objects have 3 time points; the bare RelaxationTensor "
                       "carrying 5-index data gets its `dim` attribute set by the driver (every "
                       "concrete tensor class sets it in its constructor)"]
    total_cap = 55 if run.tier == "quick" else 780
    secs = sections(run.tier)
    if run.tier == "quick":
        # the two expensive sections last: they may use the time the others did not need
        secs = [x for x in secs if x[0] not in ("apply-esup", "apply-sup")] + \
               [x for x in secs if x[0] == "apply-esup"] + [x for x in secs if x[0] == "apply-sup"]
    only = os.environ.get("VERIF_C04_SECTIONS")      # development aid: run a subset of sections
    if only:
        secs = [x for x in secs if x[0] in only.split(",")]
    import time
    t0 = time.time()
    for i, (name, cfg, depth) in enumerate(secs):
        execute.cfg = cfg
        left = total_cap - (time.time() - t0)
        share = max(3.0, left / (len(secs) - i))
        # violations found in a section carry the section's configuration for replay
        n0 = len(run.viol)
        run_bfs(run, execute, depth, cap_s=share, section=name)
        for j in range(n0, len(run.viol)):
            k, what, case, det = run.viol[j]
            case = dict(case or {})
            case["cfg"] = cfg
            run.viol[j] = (k, what, case, det)
    run.bounds["sections"] = {n: {"cfg": c, "depth": d} for n, c, d in secs}
    if not only or "redfield-tensors" in only.split(","):
        from mc.explore import run_grid
        run_grid(run, redfield_cases(run.tier), eval_redfield, section="redfield-tensors")
