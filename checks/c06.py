"""C06 Rates and bath functions obey detailed balance and conserve probability.

E-grid, two sections (both are complete constrained Cartesian products, nothing sampled):

* section "system": size x site-energy gap x coupling x coupling pattern x bath
  (reorganisation energy, correlation time, per-site pattern) x temperature x admissible
  time axis x route.  Routes: "ham_sbi" (plain Hamiltonian + SystemBathInteraction with the
  analytic C(t)), "aggregate" (Aggregate.build, get_Hamiltonian, get_SystemBathInteraction,
  get_RelaxationTensor), "sd" (bath given as a SpectralDensity object; the correlation
  function is the one the library derives from it with get_CorrelationFunction).
  For every point the REAL RedfieldRateMatrix, RedfieldRelaxationTensor (read inside
  eigenbasis_of(ham)), TDRedfieldRateMatrix and FoersterRateMatrix are built and compared
  with mc/refmodels/golden_rule.py (library independent).
* section "bath": bath parameters x temperature x frequency/time axis x origin of the
  spectral density (analytic / derived numerically from a correlation function):
  oddness of J and C(-w) = exp(-w/kT) C(w) on every axis point that has a mirror point.

Tolerance classes (DESIGN 1.5)
  R   1e-10 * scale; where a Boltzmann factor computed from scipy.constants enters, the
      unit allowance GR.UNIT_RTOL * (1 + |dE/kT|) is added (the library's k_B is a
      hand-entered older CODATA value, 6e-8 away from scipy's).
  Q   golden-rule clauses: a + b*w*dt relative, constants per route (see
      _tol_rates/_tol_tensor for the derivation).  Admissible grids only: window >= 10 tau_c, dt <= tau_c/25, |w| inside
      the resolved window and below the library's 3000 cm^-1 cut-off, all Matsubara terms
      the grid can represent (nu_n <= 2 pi/dt) present in the analytic C(t).
      Foerster detailed balance: the quadrature error of the uphill rate is absolute (the
      uphill rate is a small remainder of O(downhill) oscillating contributions), so the
      allowance is QTOL_F_REL*expected + QTOL_F_ABS*downhill, and the clause is only
      evaluated where the integrand exp(-g_d-g_a) has decayed inside the window
      (Re g_d+g_a at the window end >= F_DECAY); other pairs are counted, not checked.
  Calibration numbers (worst on the clean tree) are written to the evidence file
  (coverage.worst_deviation) on every run; tolerances were set >= 5x the thorough-grid worst.

Not claimed (see DESIGN C06): detailed balance of the tensor / TD rate matrix uphill
elements (they are below the half-Fourier transform's absolute error); non-negativity
of the TIME-DEPENDENT rate matrix (its elements oscillate through zero at short times
by construction; only the time-independent RedfieldRateMatrix is held to k >= 0).
"""
import numpy

from mc import isolation, systems
from mc.explore import run_grid, product, rotate
from mc.refmodels import golden_rule as GR

LEVEL = "model_checking"

RTOL = 1.0e-10
QTOL_RATES = (0.02, 0.45)    # rate matrix vs golden rule, analytic C(t): a + b * w * dt
QTOL_RATES_SD = (0.002, 0.0)  # same, C(t) derived from a SpectralDensity (exact FFT round trip)
QTOL_TENSOR = (0.004, 0.05)  # tensor / K(t_max) vs golden rule, analytic C(t): a + b * w * dt
QTOL_TENSOR_SD = (0.02, 0.30)  # same, C(t) derived from a SpectralDensity
QTOL_F_REL = 0.05       # Foerster detailed balance, relative part
QTOL_F_ABS = 0.01       # Foerster detailed balance, absolute part in units of the downhill rate
F_DECAY = 8.0           # exp(-8) = 3e-4 truncation of the Foerster integrand
E0 = 10000.0            # site-energy offset (1/cm): ground state well outside the band
FREQ_CUTOFF_CM = 3000.0  # library constant; transition frequencies above are not claimed


def _tol_rates(route, case=None):
    """RedfieldRateMatrix uses the FFT of the Hermitian extension of C(t), i.e. the
    trapezoid rule for the half-Fourier integral.  Euler-Maclaurin: the leading error of
    2 Re int_0^inf C(t) e^{iwt} dt is -(dt^2/6) Re[C'(0) + i w C(0)]; with Matsubara
    terms up to 2pi/dt, Re C'(0) ~ -4 lam/(tau dt), so the error is O(lam dt/tau) and
    relative to C(w) ~ 2 (1+coth) lam/(tau w) it is ~ w dt/(3 (1+coth)): linear in w*dt.
    Observed on the clean tree (thorough grid): <= 0.004 + 0.085 w dt (worst 1.64 %, 0.16
    of the allowance); allowed 5x that.
    Route "sd": C(t) IS the inverse FFT of (1+coth)J on the same grid, the forward FFT
    returns it exactly and only the spline interpolation between frequency points
    remains: observed <= 2.8e-4, allowed 2e-3."""
    q = QTOL_RATES_SD if route == "sd" else QTOL_RATES
    if route == "sd" and case is not None:
        return lambda w, dt: q[0] + q[1] * w * dt + 2.0 * _zero_point_error(case, w)
    return lambda w, dt: q[0] + q[1] * w * dt


def _zero_point_error(case, w):
    """Route "sd" only.  get_FTCorrelationFunction cannot evaluate (1+coth(w/2kT))J(w) at
    a grid point w = 0 and replaces it by the l'Hospital value 2kT J'(0) with J'(0) taken
    as the central difference (J(h)-J(-h))/2h over the frequency step h = pi/(nt dt); for
    the overdamped oscillator that is low by the factor 1/(1+(h tau)^2) (4 % for
    h tau = 0.2).  The rate matrix interpolates the transformed function by a cubic spline,
    which spreads the error of that one grid value over the neighbouring intervals.  This
    is part of "the accuracy of the numerical half-Fourier transform": it is computed here
    exactly for the case at hand (spline through the exact grid values vs. spline through
    the values with the central-difference zero point, both evaluated at w) as the largest
    relative change over the sites; the golden-rule rate is a positively weighted sum of
    site terms, so the largest site-relative change bounds the change of the rate.
    Whether the library takes that branch used to depend on a rounding accident of
    ValueAxis.locate(0.0); the allowance is granted either way."""
    from scipy.interpolate import UnivariateSpline
    nt, dt = case["axis"]
    h = numpy.pi / (nt * dt)
    kt = GR.kBT(case["T"])
    k = numpy.arange(-60, 61)
    grid = k * h
    out = 0.0
    for (lam, tau) in _baths(case):
        lam_i = lam * GR.CM2INT
        exact = GR.ft_corfce(grid, lam_i, tau, case["T"])
        pert = exact.copy()
        jp = (GR.J_overdamped(h, lam_i, tau) - GR.J_overdamped(-h, lam_i, tau)) / (2.0 * h)
        pert[60] = 2.0 * kt * float(jp)
        s0 = UnivariateSpline(grid, exact, s=0)
        s1 = UnivariateSpline(grid, pert, s=0)
        c = float(s0(w))
        if c > 0:
            # (i) the spline carries the error of the zero point into its neighbourhood;
            # (ii) C(t) = inverse FFT of the 2nt-point spectrum is kept on t >= 0 only (nt
            # points) and Hermitian-extended again by the rate code: of the constant offset
            # Delta*h/2pi that the zero-point error Delta puts on C(t), the one extended point
            # t = -nt*dt is lost, which returns as a ripple (-1)^k Delta/(2nt) on every grid
            # value of the transformed function (measured on the clean tree: 2.6369e-06 for
            # Delta/(2nt) = 2.6575e-06, all k).
            ripple = abs(float(pert[60] - exact[60])) / (2.0 * nt)
            out = max(out, (abs(float(s1(w)) - c) + ripple) / c)
    return out


def _tol_tensor(route):
    """Spline quadrature of C(t) e^{iwt} on the time grid (tensor and K(t_max)); same
    w*dt scaling as above with smaller constants.  Worst on the clean tree (thorough
    grid): analytic C(t) 0.18 % (0.14 of the allowance); C(t) derived from a
    SpectralDensity (band-limited to pi/dt, rings at the grid scale) 0.99 % (0.17 of the
    allowance)."""
    q = QTOL_TENSOR_SD if route == "sd" else QTOL_TENSOR
    return lambda w, dt: q[0] + q[1] * w * dt


# ---------------------------------------------------------------------------
# case -> concrete system
# ---------------------------------------------------------------------------
def _energies(case):
    n, gap = case["n"], case["gap"]
    return [E0 + gap * i for i in range(n)]


def _coupling(case):
    n, J = case["n"], float(case["J"])
    if case["Jpat"] == "chain":
        return systems.chain_J(n, J)
    return systems.full_J(n, [J, 0.5 * J, -0.7 * J, 0.3 * J, -0.4 * J, 0.8 * J])


def _baths(case):
    """per-site (lam, tau): 'same', 'graded' (site i: lam*(1+i/2), tau*(1+i/4)), or graded in
    ONE parameter only: 'same-lam' (equal reorganisation energies, tau*(1+i/2)) and 'same-tau'
    (equal correlation times, lam*(1+i/2)) - baths that differ although one of the numbers
    that describe them agrees."""
    n = case["n"]
    out = []
    for i in range(n):
        if case["bathpat"] == "same":
            out.append((float(case["lam"]), float(case["tau"])))
        elif case["bathpat"] == "same-lam":
            out.append((float(case["lam"]), float(case["tau"]) * (1.0 + 0.5 * i)))
        elif case["bathpat"] == "same-tau":
            out.append((float(case["lam"]) * (1.0 + 0.5 * i), float(case["tau"])))
        else:
            out.append((float(case["lam"]) * (1.0 + 0.5 * i),
                        float(case["tau"]) * (1.0 + 0.25 * i)))
    return out


def admissible(case):
    nt, dt = case["axis"]
    taus = [b[1] for b in _baths(case)]
    return nt * dt >= 10.0 * max(taus) and dt <= min(taus) / 25.0


def _bath_specs(case):
    nt, dt = case["axis"]
    nm = GR.matsubara_terms_for_grid(case["T"], dt)
    return [dict(ftype="OverdampedBrownian", reorg=l, cortime=t, T=float(case["T"]),
                 matsubara=nm) for (l, t) in _baths(case)]


def _ham_sbi_from_sd(en, Jm, baths, T, ta):
    """Bath specified as SpectralDensity objects; C(t) derived by the library."""
    qr = isolation.qr()
    from quantarhei.qm.corfunctions import CorrelationFunctionMatrix, SpectralDensity
    from quantarhei.qm import SystemBathInteraction, Operator
    n = len(en)
    h = numpy.zeros((n + 1, n + 1))
    for i in range(n):
        h[i + 1, i + 1] = en[i]
        for j in range(n):
            if i != j:
                h[i + 1, j + 1] = Jm[i][j]
    with qr.energy_units("1/cm"):
        ham = qr.Hamiltonian(data=h)
    cfm = CorrelationFunctionMatrix(ta, n, n)
    ops = []
    for i in range(n):
        with qr.energy_units("1/cm"):
            sd = SpectralDensity(ta, dict(ftype="OverdampedBrownian", reorg=baths[i][0],
                                          cortime=baths[i][1], T=float(T)))
        cf = sd.get_CorrelationFunction(temperature=float(T), ta=ta)
        cfm.set_correlation_function(cf, [(i, i)], i + 1)
        k = numpy.zeros((n + 1, n + 1))
        k[i + 1, i + 1] = 1.0
        ops.append(Operator(data=k))
    return ham, SystemBathInteraction(ops, cfm)


def _build(case):
    nt, dt = case["axis"]
    ta = systems.time_axis(nt, dt)
    en, Jm = _energies(case), _coupling(case)
    # common ground-state energy of the molecules (transition energies unchanged): rates are
    # functions of energy differences only
    e0 = float(case.get("e0", 0.0))
    if e0:
        en = [e + e0 for e in en]
    if case["route"] == "aggregate":
        agg = systems.aggregate(en, Jm, bath=_bath_specs(case), ta=ta, e0=e0)
        ham = agg.get_Hamiltonian()
        sbi = agg.get_SystemBathInteraction()
        return ta, ham, sbi, agg
    if case["route"] == "sd":
        ham, sbi = _ham_sbi_from_sd(en, Jm, _baths(case), case["T"], ta)
        return ta, ham, sbi, None
    ham, sbi = systems.ham_sbi(en, Jm, _bath_specs(case), ta, e0=e0)
    return ta, ham, sbi, None


def _first(viol):
    seen, out = set(), []
    for v in viol:
        if v[0] not in seen:
            seen.add(v[0])
            out.append(v)
    return out


# ---------------------------------------------------------------------------
# section "system"
# ---------------------------------------------------------------------------
def eval_system(case):
    qr = isolation.qr()
    from quantarhei.qm import (RedfieldRateMatrix, RedfieldRelaxationTensor,
                               FoersterRateMatrix, TDRedfieldRateMatrix)
    viol = []
    dev = {}

    def worst(name, x):
        dev[name] = max(dev.get(name, 0.0), float(x))

    n, T = case["n"], float(case["T"])
    nt, dt = case["axis"]
    route = case["route"]
    baths = _baths(case)
    en, Jm = _energies(case), _coupling(case)
    G, ev, S = GR.golden_rule_rates(en, Jm, baths, T)
    degen = GR.degenerate_pairs(ev)
    wmax = min(numpy.pi / dt, FREQ_CUTOFF_CM * GR.CM2INT)
    # pairs (a, b): transfer b -> a is downhill, non-degenerate, frequency resolved
    down = [(a, b) for a in range(n) for b in range(n)
            if ev[b] > ev[a] and (a, b) not in degen and (ev[b] - ev[a]) < wmax]
    gmax = float(numpy.max(G)) if n > 1 else 0.0

    ta, ham, sbi, agg = _build(case)

    def golden(clause, key, val, a, b, tolf, what):
        """compare one downhill element with the golden rule (class Q)."""
        g = G[a, b]
        w = ev[b] - ev[a]
        if g <= 1.0e-14:                      # uncoupled: the rate must vanish
            if abs(val) > 1.0e-12:
                viol.append((key, "%s(%d<-%d) = %s but the golden-rule rate is 0"
                             % (what, a, b, val), None))
            return
        d = abs(val / g - 1.0)          # val may be complex: a rate is a real number, so
        tol = tolf(w, dt)               # an imaginary part counts as deviation
        tag = "[sd]" if route == "sd" else "[ct]"
        worst(clause + tag, d)
        worst(clause + "/tol" + tag, d / tol)
        if not d <= tol:
            viol.append((key, "%s(%d<-%d) = %s, golden rule %g at w = %.1f 1/cm "
                         "(rel. dev. %.3g > %.3g)"
                         % (what, a, b, val, g, w / GR.CM2INT, d, tol), None))

    # ---- A: time-independent Redfield rate matrix ----------------------------
    K = numpy.array(RedfieldRateMatrix(ham, sbi).data, dtype=float)
    if K.shape != (n + 1, n + 1) or not numpy.all(numpy.isfinite(K)):
        viol.append(("redfield-rates/shape-or-nan", "rate matrix %s not finite (n+1)^2"
                     % (K.shape,), None))
        return {"nontrivial": True, "outcome": "bad-matrix", "violations": viol}
    scale = max(float(numpy.max(numpy.abs(K))), 1.0e-300)
    off = K - numpy.diag(numpy.diag(K))
    mn = float(numpy.min(off))
    worst("rates.neg/scale", max(0.0, -mn) / scale)
    if mn < -RTOL * scale:
        i, j = numpy.unravel_index(numpy.argmin(off), off.shape)
        viol.append(("redfield-rates/offdiag-negative",
                     "K[%d,%d] = %g < 0 (max |K| %g)" % (i, j, mn, scale),
                     {"K": K}))
    cs = float(numpy.max(numpy.abs(K.sum(axis=0))))
    worst("rates.colsum/scale", cs / scale)
    if cs > RTOL * scale:
        viol.append(("redfield-rates/colsum", "column sums of the Redfield rate matrix "
                     "differ from 0 by %g (max |K| %g)" % (cs, scale), {"K": K}))
    gs = max(float(numpy.max(numpy.abs(K[0, :]))), float(numpy.max(numpy.abs(K[:, 0]))))
    worst("rates.ground/scale", gs / scale)
    if gs > RTOL * scale:
        viol.append(("redfield-rates/ground-state", "transfer to/from the ground state: "
                     "max |K[0,:]|,|K[:,0]| = %g" % gs, {"K": K}))
    for (a, b) in [(a, b) for a in range(n) for b in range(a + 1, n)]:
        # b is the upper state (eigh ascending): K[b+1,a+1] uphill, K[a+1,b+1] downhill
        x = (ev[b] - ev[a]) / GR.kBT(T)
        B = float(numpy.exp(-x))
        up, dn = K[b + 1, a + 1], K[a + 1, b + 1]
        ref = max(abs(up), abs(B * dn))
        err = abs(up - B * dn)
        tol = RTOL + GR.UNIT_RTOL * (1.0 + abs(x))
        worst("rates.db/tol", (err / ref / tol) if ref > 1.0e-300 else 0.0)
        if ref > 1.0e-300 and err > tol * ref:
            viol.append(("redfield-rates/detailed-balance",
                         "k(%d<-%d)/k(%d<-%d) = %g, exp(-dE/kT) = %g (dE/kT = %g)"
                         % (b, a, a, b, up / dn if dn else float("inf"), B, x),
                         {"up": up, "down": dn}))
    for (a, b) in down:
        golden("rates.golden", "redfield-rates/golden-rule/downhill", K[a + 1, b + 1],
               a, b, _tol_rates(route, case), "K")

    # ---- B: Redfield tensor, downhill population element in the eigenbasis -------
    troutes = [("ctor", None, None)]
    if agg is not None:
        troutes.append(("aggregate", agg, None))
    # operator form of the tensor (as_operators=True), turned into the tensor form by
    # convert_2_tensor() outside of any context or inside the eigenbasis context it is read in
    for where in (("outside", "inside") if case.get("opform", True) else ()):
        troutes.append(("ctor-operators-converted-%s" % where, None, where))
        if agg is not None:
            troutes.append(("aggregate-operators-converted-%s" % where, agg, where))
    for rname, ag, conv in troutes:
        if conv is not None:
            if ag is None:
                ham.protect_basis()
                try:
                    with qr.eigenbasis_of(ham):
                        RT = RedfieldRelaxationTensor(ham, sbi, as_operators=True)
                finally:
                    ham.unprotect_basis()
                hh = ham
            else:
                RT, hh = ag.get_RelaxationTensor(ta, relaxation_theory="standard_Redfield",
                                                 as_operators=True)
                isolation.reset_units()
            if conv == "outside":
                RT.convert_2_tensor()
        elif ag is None:
            # the library's own protocol (opensystem.get_RelaxationTensor): the tensor is
            # computed in the eigenbasis from the site-basis Hamiltonian data
            ham.protect_basis()
            try:
                with qr.eigenbasis_of(ham):
                    RT = RedfieldRelaxationTensor(ham, sbi)
            finally:
                ham.unprotect_basis()
            hh = ham
        else:
            RT, hh = ag.get_RelaxationTensor(ta, relaxation_theory="standard_Redfield")
            isolation.reset_units()
        with qr.eigenbasis_of(hh):
            if conv == "inside":
                RT.convert_2_tensor()
            dat = numpy.array(RT.data)
            ediag = numpy.real(numpy.diag(hh.data)).copy()
        # the eigenbasis used by the context must be the ascending one of the model
        if not numpy.allclose(ediag[1:] - ediag[0], ev, rtol=0, atol=1e-9):
            viol.append(("redfield-tensor/eigenbasis-order/%s" % rname,
                         "eigenbasis_of(ham) energies %s differ from eigh %s"
                         % (ediag[1:], ev), None))
            continue
        for (a, b) in down:
            golden("tensor.golden", "redfield-tensor/golden-rule/downhill/%s" % rname,
                   complex(dat[a + 1, a + 1, b + 1, b + 1]), a, b, _tol_tensor(route),
                   "R[aa,bb] in eigenbasis_of(H), ")

    # ---- C: time-dependent Redfield rate matrix ---------------------------------
    KT = numpy.array(TDRedfieldRateMatrix(ham, sbi).data, dtype=float)
    tscale = max(float(numpy.max(numpy.abs(KT))), 1.0e-300)
    cs = float(numpy.max(numpy.abs(KT.sum(axis=1))))
    worst("td.colsum/scale", cs / tscale)
    if not cs <= RTOL * tscale:
        viol.append(("td-redfield-rates/colsum", "column sums of K(t) differ from 0 by %g "
                     "(max |K| %g)" % (cs, tscale), None))
    gs = max(float(numpy.max(numpy.abs(KT[:, 0, :]))), float(numpy.max(numpy.abs(KT[:, :, 0]))))
    worst("td.ground/scale", gs / tscale)
    if not gs <= RTOL * tscale:
        viol.append(("td-redfield-rates/ground-state", "K(t) couples the ground state: %g"
                     % gs, None))
    for (a, b) in down:
        golden("td.golden", "td-redfield-rates/golden-rule/long-time",
               float(KT[-1, a + 1, b + 1]), a, b, _tol_tensor(route), "K(t_max)")

    # ---- D: Foerster rate matrix (site basis) ------------------------------------
    F = numpy.array(FoersterRateMatrix(ham, sbi).data, dtype=float)
    fscale = max(float(numpy.max(numpy.abs(F))), 1.0e-300)
    nfoe_adm = nfoe_in = 0
    fdig = []
    if not numpy.all(numpy.isfinite(F)):
        viol.append(("foerster-rates/nan", "Foerster rate matrix not finite", None))
    else:
        cs = float(numpy.max(numpy.abs(F.sum(axis=0))))
        worst("foerster.colsum/scale", cs / fscale)
        if cs > RTOL * fscale:
            viol.append(("foerster-rates/colsum", "column sums of the Foerster rate matrix "
                         "differ from 0 by %g (max |K| %g)" % (cs, fscale), {"K": F}))
        tw = nt * dt
        for i in range(n):
            for j in range(i + 1, n):
                if Jm[i][j] == 0 or route == "sd":
                    # route sd: the library-derived C(t) makes the Foerster ratio O(dt)
                    # inaccurate (8 % at dt = 1 fs, 4 % at 0.5 fs on the clean tree); no
                    # tolerance separates that from mutants with a 5x margin -> not claimed
                    continue
                ri = en[i] - baths[i][0]
                rj = en[j] - baths[j][0]
                hi, lo = (i, j) if ri >= rj else (j, i)     # lo -> hi is uphill
                decay = (GR.dephasing_exponent(baths[i][0], baths[i][1], T, tw)
                         + GR.dephasing_exponent(baths[j][0], baths[j][1], T, tw))
                if decay < F_DECAY or abs(ri - rj) >= FREQ_CUTOFF_CM:
                    # beyond the cut-off frequency the true overlap integral is far below the
                    # error of its numerical integration (both directions ~1e-6/fs of quadrature
                    # noise at dt = 1 fs): "within the accuracy of the numerical integration"
                    # leaves nothing to compare
                    nfoe_in += 1
                    continue
                nfoe_adm += 1
                B = GR.foerster_boltzmann(en[hi], baths[hi][0], en[lo], baths[lo][0], T)
                up, dn = F[hi + 1, lo + 1], F[lo + 1, hi + 1]
                fdig.append(round(float(up / dn), 4) if dn else None)
                if not dn > 0:
                    viol.append(("foerster-rates/downhill-not-positive",
                                 "Foerster downhill rate %d<-%d = %g" % (lo, hi, dn), None))
                    continue
                err = abs(up - B * dn) / dn
                tol = QTOL_F_REL * B + QTOL_F_ABS
                worst("foerster.db/tol", err / tol)
                worst("foerster.db.abs", err)
                if B > 0.05:
                    worst("foerster.db.rel(B>0.05)", err / B)
                if not err <= tol:
                    viol.append(("foerster-rates/detailed-balance",
                                 "k(%d<-%d)/k(%d<-%d) = %g, exp(-d(E-lambda)/kT) = %g; "
                                 "|diff| %.3g > %.3g" % (hi, lo, lo, hi, up / dn, B, err, tol),
                                 {"up": up, "down": dn}))

    nontrivial = bool(len(down) > 0 and gmax > 1.0e-9)
    outcome = [n, [round(float(x), 3) for x in (ev - ev[0]) / GR.CM2INT],
               [float("%.3g" % K[a + 1, b + 1]) for (a, b) in down],
               [float("%.3g" % K[b + 1, a + 1]) for (a, b) in down], fdig]
    return {"nontrivial": nontrivial, "outcome": outcome, "violations": _first(viol),
            "n": 3 + (len(troutes) - 1),
            "info": {"dev": dev, "foe_adm": nfoe_adm, "foe_inadm": nfoe_in,
                     "pairs": len(down)}}


# ---------------------------------------------------------------------------
# section "bath"
# ---------------------------------------------------------------------------
def eval_bath(case):
    qr = isolation.qr()
    from quantarhei.qm.corfunctions import SpectralDensity
    viol = []
    dev = {}

    def worst(name, x):
        dev[name] = max(dev.get(name, 0.0), float(x))

    T = float(case["T"])
    lam, tau = float(case["lam"]), float(case["tau"])
    ftype = case.get("ftype", "OverdampedBrownian")
    # every parameterised spectral-density type the library offers (the symmetry clauses need
    # no reference function); energy parameters in 1/cm
    params = {"OverdampedBrownian": dict(ftype="OverdampedBrownian", reorg=lam, cortime=tau, T=T),
              "UnderdampedBrownian": dict(ftype="UnderdampedBrownian", reorg=lam, freq=150.0,
                                          gamma=30.0, T=T),
              "Underdamped": dict(ftype="Underdamped", reorg=lam, freq=150.0, gamma=30.0, T=T),
              "B777": dict(ftype="B777", reorg=lam, alternative_form=True, T=T),
              "CP29": dict(ftype="CP29", reorg=lam, T=T)}[ftype]
    kind, a1, a2 = case["axis"]
    origin = case["origin"] if ftype == "OverdampedBrownian" else "analytic-" + ftype
    if kind == "t":
        ax = qr.TimeAxis(0.0, int(a1), float(a2))
    else:
        # frequency axis given directly (internal units): centred ("w") or displaced by
        # a fraction of a step ("w-off": no point has a mirror point -> trivial)
        N, step = int(a1), float(a2)
        start = -(N // 2) * step if kind == "w" else -(N // 2) * step + 0.37 * step
        with qr.energy_units("int"):
            ax = qr.FrequencyAxis(start, N, step)
    if origin.startswith("analytic"):
        with isolation.quiet():
            with qr.energy_units("1/cm"):
                sd = SpectralDensity(ax, params)
    else:
        params["matsubara"] = GR.matsubara_terms_for_grid(T, float(a2))
        with qr.energy_units("1/cm"):
            cf = qr.CorrelationFunction(ax, params)
        sd = cf.get_SpectralDensity()
    w = numpy.array(sd.axis.data, dtype=float)
    Jw = numpy.real(numpy.array(sd.data))
    step = sd.axis.step
    pairs = []
    for i in range(len(w)):
        k = int(round((-w[i] - w[0]) / step))
        if 0 <= k < len(w) and abs(w[k] + w[i]) <= 1.0e-9 * step:
            pairs.append((i, k))
    if not pairs:
        return {"nontrivial": False, "outcome": ["no-mirror", kind, a1], "violations": []}
    ii = numpy.array([p[0] for p in pairs])
    kk = numpy.array([p[1] for p in pairs])
    jscale = max(float(numpy.max(numpy.abs(Jw))), 1.0e-300)
    # the axis points are mirror images only up to the rounding of the axis itself
    # (start + i*step accumulates ~1e-13): allow max|J'| * |w_i + w_k|, max|J'| = 2 lam tau
    lip = 2.0 * lam * GR.CM2INT * tau
    if ftype != "OverdampedBrownian":
        # no closed bound at hand: twice the largest slope seen on the grid
        lip = 2.0 * float(numpy.max(numpy.abs(numpy.gradient(Jw, w))))
    asym = numpy.abs(w[ii] + w[kk])
    e = float(numpy.max(numpy.abs(Jw[ii] + Jw[kk]) - 2.0 * lip * asym))
    worst("sd.odd/scale[%s]" % origin, max(e, 0.0) / jscale)
    if not e <= RTOL * jscale:
        viol.append(("spectral-density/odd/%s" % origin,
                     "max |J(w)+J(-w)| = %g (max |J| %g)"
                     % (float(numpy.max(numpy.abs(Jw[ii] + Jw[kk]))), jscale), None))
    # FT correlation function derived from the spectral density
    ft = sd.get_FTCorrelationFunction(temperature=T) if not origin.startswith("analytic") \
        else sd.get_FTCorrelationFunction()
    Cw = numpy.real(numpy.array(ft.data))
    sel = w[ii] > 1.0e-7           # w > 0, and not the L'Hospital point w = 0
    wi, Ci, Ck = w[ii][sel], Cw[ii][sel], Cw[kk][sel]
    nz = len(wi)
    if nz:
        x = wi / GR.kBT(T)
        B = numpy.exp(-x)
        err = numpy.abs(Ck - B * Ci)
        # R: rounding of (1+coth) at both points is relative to C(w); unit allowance on B;
        # axis asymmetry enters through dC/dw <~ C/w + C/kT
        tol = (RTOL + GR.UNIT_RTOL * (1.0 + x) * B) * numpy.abs(Ci) + 1.0e-300
        r = float(numpy.max(err / tol))
        worst("ftc.db/tol[%s]" % origin, r)
        if not r <= 1.0:
            m = int(numpy.argmax(err / tol))
            viol.append(("ft-corfce/detailed-balance/%s" % origin,
                         "C(-w)=%g, exp(-w/kT) C(w)=%g at w=%g rad/fs (w/kT=%g)"
                         % (Ck[m], B[m] * Ci[m], wi[m], x[m]), None))
        if origin == "analytic" and not numpy.all(Ci > 0):
            # (1+coth) J > 0 for w > 0; a vanishing C would make the clause vacuous
            viol.append(("ft-corfce/not-positive/%s" % origin,
                         "C(w) <= 0 at some w > 0", None))
    # the same request made by a caller who works inside a units context: the derived function
    # must be the same physical function (values and axis read in internal units)
    try:
        qr_ = isolation.qr()
        with qr_.energy_units("1/cm"):
            ftc = sd.get_FTCorrelationFunction(temperature=T) if not origin.startswith("analytic") \
                else sd.get_FTCorrelationFunction()
        with qr_.energy_units("int"):
            Cc = numpy.real(numpy.array(ftc.data))
            wc = numpy.array(ftc.axis.data)
        scC = max(float(numpy.max(numpy.abs(Cw))), 1e-300)
        if Cc.shape != Cw.shape or float(numpy.max(numpy.abs(wc - w))) > 1e-9 * max(1.0, float(numpy.max(numpy.abs(w)))) \
                or float(numpy.max(numpy.abs(Cc - Cw))) > 1e-9 * scC:
            viol.append(("ft-corfce/requested-inside-units-context-differs/%s" % origin,
                         "get_FTCorrelationFunction called inside energy_units('1/cm') differs from "
                         "the same call outside by %g (scale %g)"
                         % (float(numpy.max(numpy.abs(Cc - Cw))) if Cc.shape == Cw.shape
                            else float("inf"), scC), None))
    except Exception as e:
        viol.append(("ft-corfce/requested-inside-units-context-raises/%s" % origin,
                     "%s: %s" % (type(e).__name__, str(e)[:80]), None))
    # history on the same spectral-density object: the relation must hold for whatever
    # temperature is requested, also when it differs from the temperature the object was built
    # with, and when the object has been asked before (1st: T/2, 2nd: 1.5 T, 3rd: T again)
    for idx, T2 in enumerate((0.5 * T, 1.5 * T, T)):
        try:
            ft2 = sd.get_FTCorrelationFunction(temperature=T2)
        except Exception as e:
            viol.append(("ft-corfce/other-temperature/raises-%s/%s" % (type(e).__name__, origin),
                         "get_FTCorrelationFunction(temperature=%g) raised: %s"
                         % (T2, str(e)[:80]), None))
            break
        C2 = numpy.real(numpy.array(ft2.data))
        Ci2, Ck2 = C2[ii][sel], C2[kk][sel]
        if nz:
            x2 = wi / GR.kBT(T2)
            B2 = numpy.exp(-x2)
            tol2 = (RTOL + GR.UNIT_RTOL * (1.0 + x2) * B2) * numpy.abs(Ci2) + 1.0e-300
            r2 = float(numpy.max(numpy.abs(Ck2 - B2 * Ci2) / tol2))
            worst("ftc.db.otherT/tol[%s]" % origin, r2)
            if not r2 <= 1.0:
                viol.append(("ft-corfce/detailed-balance/requested-temperature-%d/%s"
                             % (idx, origin),
                             "request #%d with temperature=%g K on an object built at %g K: "
                             "C(-w) = exp(-w/kT) C(w) violated by %g x tolerance"
                             % (idx, T2, T, r2), None))
                break
    outcome = [origin, kind, a1, a2, float("%.4g" % jscale),
               float("%.4g" % float(numpy.max(numpy.abs(Cw))))]
    return {"nontrivial": bool(nz > 0), "outcome": outcome, "violations": _first(viol),
            "n": 1, "info": {"dev": dev}}


def eval_case(case):
    if case.get("section") == "bath":
        return eval_bath(case)
    return eval_system(case)


def replay(case):
    return eval_case(case)["violations"]


# ---------------------------------------------------------------------------
# spaces
# ---------------------------------------------------------------------------
def system_cases(tier):
    if tier == "quick":
        # "full": a 3-site chain with equidistant energies has a persymmetric eigenvector
        # matrix, for which rows and columns of the transformation cannot be told apart
        dom = {"section": ["system"], "route": ["ham_sbi", "sd", "aggregate"], "n": [2, 3],
               "Jpat": ["chain", "full"], "bathpat": ["same", "graded", "same-lam", "same-tau"],
               "J": [0.0, 30.0, 100.0, -80.0], "gap": [0.0, 100.0, 300.0],
               "lam": [10.0, 40.0], "tau": [50.0, 100.0], "T": [300.0, 77.0],
               "axis": [[1500, 1.0], [3000, 0.5]], "e0": [0.0, 150.0]}
    else:
        dom = {"section": ["system"], "route": ["ham_sbi", "sd", "aggregate"], "n": [2, 3, 4],
               "Jpat": ["chain", "full"], "bathpat": ["same", "graded", "same-lam", "same-tau"],
               "J": [0.0, 30.0, 100.0, -80.0], "gap": [0.0, 100.0, 300.0],
               "lam": [10.0, 40.0], "tau": [50.0, 100.0], "T": [300.0, 150.0, 77.0],
               "axis": [[1500, 1.0], [3000, 0.5], [4000, 1.0]], "e0": [0.0, 150.0, -300.0]}

    def ok(c):
        if c["n"] == 2 and c["Jpat"] == "full":
            return False                       # identical to the chain
        if c["n"] == 4 and (c["Jpat"], c["bathpat"]) != ("full", "graded") and c["J"] != 0.0:
            return False                       # 4 sites: the most general pattern only
        if c["J"] == 0.0 and (c["Jpat"] != "chain" or c["bathpat"] != "same"
                              or c["route"] != "ham_sbi"):
            return False                       # uncoupled: one representative per size
        if tier == "quick" and c["route"] != "ham_sbi" and c["n"] == 3:
            return False                       # quick: 3 sites on the plain route only
        if c["bathpat"] in ("same-lam", "same-tau") and (
                c["e0"] != 0.0 or c["J"] == 0.0 or c["gap"] == 0.0 or
                (tier == "quick" and (c["axis"][0] != 1500 or c["T"] != 300.0))):
            return False                       # one-parameter gradings: coupled, non-degenerate
        if c["e0"] != 0.0 and (c["route"] == "sd" or c["axis"][0] != 1500 or c["tau"] != 50.0
                               or c["lam"] != 10.0 or c["J"] not in (0.0, 30.0)):
            return False                       # ground-state offsets: on one grid and bath
        if tier == "quick" and c["Jpat"] == "full" and (c["axis"][0] != 1500 or c["tau"] != 50.0):
            return False                       # quick: the general coupling pattern on one grid
        return admissible(c)
    cs = product(dom, ok)
    # transition frequencies beyond the frequency cut-off of the rate code (3000 1/cm): the
    # golden-rule clauses do not apply there (pairs are filtered by wmax), sign, column-sum,
    # ground-state and detailed-balance clauses do - a rate may be dropped, but in both directions
    dom2 = dict(dom)
    dom2.update({"gap": [3100.0, 3600.0], "J": [100.0, 400.0], "lam": [40.0], "tau": [50.0],
                 "axis": [[1500, 1.0]], "e0": [0.0], "bathpat": ["same", "graded"],
                 "n": [2, 3]})
    cs += product(dom2, lambda c: not (c["n"] == 2 and c["Jpat"] == "full") and admissible(c)
                  and not (tier == "quick" and c["route"] != "ham_sbi" and c["n"] == 3))
    if tier == "quick":
        # quick: the operator-form tensor routes on one grid and correlation time
        for c in cs:
            c["opform"] = bool(c["axis"][0] == 1500 and c["tau"] == 50.0)
    return cs


def bath_cases(tier):
    if tier == "quick":
        dom = {"section": ["bath"], "origin": ["analytic", "corfce"],
               "lam": [10.0, 40.0], "tau": [50.0, 100.0], "T": [300.0, 77.0],
               "axis": [["t", 1000, 1.0], ["w", 201, 0.002], ["w", 200, 0.002]]}
    else:
        dom = {"section": ["bath"], "origin": ["analytic", "corfce"],
               "lam": [10.0, 40.0, 120.0], "tau": [30.0, 50.0, 100.0, 300.0],
               "T": [300.0, 150.0, 77.0, 20.0],
               "axis": [["t", 1000, 1.0], ["t", 2000, 0.5], ["t", 501, 2.0],
                        ["w", 201, 0.002], ["w", 200, 0.002], ["w", 1001, 0.0005],
                        ["w-off", 200, 0.002]]}
    cs = product(dom, lambda c: not (c["origin"] == "corfce" and c["axis"][0] != "t"))
    # the other parameterised types: symmetry clauses only, one reorganisation energy / width
    for ft in ("UnderdampedBrownian", "Underdamped", "B777", "CP29"):
        for T in dom["T"]:
            for ax in dom["axis"]:
                cs.append({"section": "bath", "origin": "analytic", "ftype": ft, "lam": 40.0,
                           "tau": 100.0, "T": T, "axis": ax})
    return cs


def cases(tier):
    return bath_cases(tier) + system_cases(tier)


def run(run):
    run.rule = ("full constrained product (route x size x coupling pattern x bath pattern x "
                "coupling x gap x lambda x tau_c x T x admissible axis) + full product of bath "
                "functions; non-trivial system = at least one non-degenerate downhill exciton "
                "pair with golden-rule rate > 1e-9/fs (J != 0); non-trivial bath case = at "
                "least one axis point w > 0 with a mirror point")
    run.assumptions = [
        "reference: mc/refmodels/golden_rule.py (analytic J, (1+coth)J, own eigh, scipy.constants)",
        "analytic C(t) built with all Matsubara terms nu_n <= 2pi/dt (n <= 1/(kT dt))",
        "admissible axes only: Nt*dt >= 10 tau_c, dt <= tau_c/25, |w| < min(pi/dt, 3000 1/cm)",
        "Foerster detailed balance only where Re(g_d+g_a)(t_max) >= %g and only for the "
        "analytic C(t) (routes ham_sbi, aggregate)" % F_DECAY,
        "tensor built by the library's own protocol (protect_basis; with eigenbasis_of(ham)) "
        "and read inside eigenbasis_of(ham); uphill tensor/TD elements not claimed",
        "non-negativity demanded of RedfieldRateMatrix only (K(t) oscillates at short times)",
        "4-site systems only with the full coupling pattern and graded baths; uncoupled "
        "systems (J=0) one representative per size"]
    bc, sc = bath_cases(run.tier), system_cases(run.tier)
    run.bounds = {"tolerances": {"R": RTOL, "unit": GR.UNIT_RTOL,
                                 "rates_vs_golden(a+b*w*dt)": [QTOL_RATES, QTOL_RATES_SD],
                                 "tensor_td_vs_golden(a+b*w*dt)": [QTOL_TENSOR,
                                                                   QTOL_TENSOR_SD],
                                 "foerster_db(rel,abs)": [QTOL_F_REL, QTOL_F_ABS]},
                  "cases": {"bath": len(bc), "system": len(sc)},
                  "sizes": sorted({c["n"] for c in sc}),
                  "axes": sorted({tuple(c["axis"]) for c in sc})}
    worst = {}
    counts = {"foe_adm": 0, "foe_inadm": 0, "pairs": 0}
    for sect, cs in (("bath", bc), ("system", sc)):
        infos = run_grid(run, rotate(cs, run.seed), eval_case, section=sect)
        for inf in infos:
            for k, v in inf.get("dev", {}).items():
                worst[k] = max(worst.get(k, 0.0), v)
            for k in counts:
                counts[k] += inf.get(k, 0)
    run.note(worst_deviation={k: float("%.3g" % v) for k, v in sorted(worst.items())},
             foerster_pairs_checked=counts["foe_adm"],
             foerster_pairs_inadmissible_window=counts["foe_inadm"],
             downhill_pairs_checked=counts["pairs"])
