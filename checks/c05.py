"""C05 Energy-units management is transparent and contexts restore units.

Part G (E-grid): every ordered pair of supported energy units x every units-managed
accessor x a small value alphabet, compared with an independent conversion table, plus
exact algebraic identities (round trip, transitivity, context independence of the stored
value).
Part H (E-bfs): histories of entering / leaving (normally or by exception) energy- and
length-units contexts interleaved with public library calls; after EVERY transition the
active units must equal the model's stack top.
Part F (E-fault): every call of the menu is additionally run with an exception injected
at every library function entry inside it (profile hook), inside a units context; the
caller's units must be untouched afterwards.
"""
import numpy

from mc import isolation, systems
from mc.explore import run_grid, run_bfs, product, Injected, count_lib_calls, run_with_fault
from mc.refmodels import units_table as UT

LEVEL = "model_checking"
TOL_TABLE = 1e-6
TOL_ALG = 1e-12


def _mgr():
    from quantarhei.core.managers import Manager
    return Manager()


# --------------------------------------------------------------------------
# Part G: accessors.  Each returns (supply(v)->obj, read(obj)->value, internal(obj)->value)
# --------------------------------------------------------------------------
def _acc(name):
    qr = isolation.qr()
    if name == "hamiltonian":
        return (lambda v: qr.Hamiltonian(data=[[0.0, 0.0], [0.0, v]]),
                lambda o: float(o.data[1, 1]), lambda o: float(o._data[1, 1]))
    if name == "hamiltonian_array":
        # numpy array supplied; the CALLER changes its array afterwards: what is stored is a
        # value, not a reference to the caller's buffer, whatever the units of the supply
        def sup(v):
            a = numpy.array([[0.0, 0.0], [0.0, float(v)]])
            h = qr.Hamiltonian(data=a)
            a *= 3.0
            return h
        return (sup, lambda o: float(o.data[1, 1]), lambda o: float(o._data[1, 1]))
    if name == "hamiltonian_first_read_in_eigenbasis":
        # the read happens inside eigenbasis_of(H) (entered inside the reading units context) and
        # is the FIRST access to the data in that basis; H is diagonal, the value is the same
        def rd(o):
            with qr.eigenbasis_of(o):
                d = numpy.real(numpy.diag(o.data))      # ascending order: v may come first
                return float(d[numpy.argmax(numpy.abs(d))])
        return (lambda v: qr.Hamiltonian(data=[[0.0, 0.0], [0.0, v]]), rd,
                lambda o: float(o._data[1, 1]))
    if name == "molecule_init_array":
        def sup(v):
            a = numpy.array([0.0, float(v)])
            m = qr.Molecule(elenergies=a)
            a *= 3.0
            return m
        return (sup, lambda o: float(o.get_energy(1)), lambda o: float(o.elenergies[1]))
    if name == "molecule_init":
        return (lambda v: qr.Molecule(elenergies=[0.0, v]),
                lambda o: float(o.get_energy(1)), lambda o: float(o.elenergies[1]))
    if name == "molecule_set":
        def sup(v):
            with qr.energy_units("int"):
                m = qr.Molecule(elenergies=[0.0, 1.0])
            m.set_energy(1, v)
            return m
        return (sup, lambda o: float(o.get_energy(1)), lambda o: float(o.elenergies[1]))
    if name == "mode_init":
        return (lambda v: qr.Mode(frequency=v),
                lambda o: float(o.get_energy(0, no_conversion=False)),
                lambda o: float(o.submodes[0].omega))
    if name == "mode_set":
        def sup(v):
            with qr.energy_units("int"):
                md = qr.Mode(frequency=1.0)
            md.set_energy(0, v)
            return md
        return (sup, lambda o: float(o.get_energy(0, no_conversion=False)),
                lambda o: float(o.submodes[0].omega))
    if name == "submode":
        from quantarhei.builders.submodes import SubMode
        return (lambda v: SubMode(omega=v), None, lambda o: float(o.omega))
    if name == "aggregate_coupling":
        def sup(v):
            with qr.energy_units("int"):
                ms = [qr.Molecule(elenergies=[0.0, 1.0]) for _ in range(2)]
            a = qr.Aggregate(molecules=ms)
            a.set_resonance_coupling(0, 1, v)
            return a
        return (sup, lambda o: float(o.get_resonance_coupling(0, 1)),
                lambda o: float(o.resonance_coupling[0, 1]))
    if name == "aggregate_transition":
        # get_transition(Nf, Ni) between two EXCITED states (both energies non-zero): site 1 at
        # v (in the supplying units), site 2 at twice that energy -> the transition 1->2 has
        # the energy v; an energy difference is converted as a difference, not term by term
        def sup(v):
            m1 = qr.Molecule(elenergies=[0.0, v])
            with qr.energy_units("int"):
                m2 = qr.Molecule(elenergies=[0.0, 2.0 * float(m1.elenergies[1])])
                for m in (m1, m2):
                    m.set_dipole(0, 1, [1.0, 0.0, 0.0])
            a = qr.Aggregate(molecules=[m1, m2])
            a.build()
            return a
        return (sup, lambda o: float(o.get_transition(2, 1)[0]),
                lambda o: float(o.HH[2, 2] - o.HH[1, 1]))
    if name == "aggregate_coupling_matrix_array":
        def sup(v):
            with qr.energy_units("int"):
                ms = [qr.Molecule(elenergies=[0.0, 1.0]) for _ in range(2)]
            ag = qr.Aggregate(molecules=ms)
            a = numpy.array([[0.0, float(v)], [float(v), 0.0]])
            ag.set_resonance_coupling_matrix(a)
            a *= 3.0
            return ag
        return (sup, lambda o: float(o.get_resonance_coupling(1, 0)),
                lambda o: float(o.resonance_coupling[0, 1]))
    if name == "aggregate_coupling_matrix":
        def sup(v):
            with qr.energy_units("int"):
                ms = [qr.Molecule(elenergies=[0.0, 1.0]) for _ in range(2)]
            a = qr.Aggregate(molecules=ms)
            a.set_resonance_coupling_matrix([[0.0, v], [v, 0.0]])
            return a
        return (sup, lambda o: float(o.get_resonance_coupling(1, 0)),
                lambda o: float(o.resonance_coupling[1, 0]))
    if name == "frequency_axis_start":
        return (lambda v: qr.FrequencyAxis(v, 3, 1.0),
                lambda o: float(o.start), lambda o: float(o._start))
    if name == "frequency_axis_step":
        return (lambda v: qr.FrequencyAxis(1.0, 3, v),
                lambda o: float(o.step), lambda o: float(o._step))
    if name == "frequency_axis_data":
        return (lambda v: qr.FrequencyAxis(v, 3, 1.0),
                lambda o: float(o.data[0]), lambda o: float(o._data[0]))
    if name in ("hamiltonian_cutoff_remove", "hamiltonian_cutoff_subtract"):
        # an energy ARGUMENT of a Hamiltonian method: couplings v/2 and 2v, cut-off v, all given
        # in the units current at the call; what is kept/removed must not depend on those units.
        # "stored value": kept coupling + 1000 x (what is left of the removed / subtracted one)
        def sup(v, _n=name):
            h = qr.Hamiltonian(data=[[0.0, 0.5 * v, 2.0 * v], [0.5 * v, 10 * v, 0.0],
                                     [2.0 * v, 0.0, 12 * v]])
            if _n.endswith("remove"):
                h.remove_cutoff_coupling(v)
                return h
            h.subtract_cutoff_coupling(v)
            return h
        if name.endswith("remove"):
            return (sup, None, lambda o: float(0.5 * o._data[0, 2] + 1000.0 * o._data[0, 1]))
        # subtract: couplings above the cut-off are reduced to the cut-off value (kept: v), the
        # ones below stay -> observable: data[0,2] (== v) only
        return (sup, None, lambda o: float(o._data[0, 2]) * 2.0)
    if name == "hamiltonian_rwa":
        # set_rwa stores block-averaged energies; what is stored must not depend on the units
        # that were current when it was called
        def sup(v):
            h = qr.Hamiltonian(data=[[0.0, 0.0, 0.0], [0.0, v, 0.0], [0.0, 0.0, v]])
            h.set_rwa([0, 1])
            return h
        return (sup, None, lambda o: float(o.rwa_energies[1]))
    if name == "molecule_rwa":
        def sup(v):
            m = qr.Molecule(elenergies=[0.0, v])
            m.get_Hamiltonian()
            m.set_electronic_rwa([0, 1])
            return m
        return (sup, None, lambda o: float(o.get_Hamiltonian().rwa_energies[1]))
    if name == "corfce_reorg":
        def sup(v):
            ta = qr.TimeAxis(0.0, 20, 1.0)
            return qr.CorrelationFunction(ta, dict(ftype="OverdampedBrownian", reorg=v,
                                                   cortime=50.0, T=300.0))
        return (sup, lambda o: float(o.get_reorganization_energy()), lambda o: float(o.lamb))
    if name == "spectdens_reorg":
        def sup(v):
            ta = qr.TimeAxis(0.0, 20, 1.0)
            return qr.SpectralDensity(ta, dict(ftype="OverdampedBrownian", reorg=v,
                                               cortime=50.0, T=300.0))
        return (sup, lambda o: float(o.get_reorganization_energy()), lambda o: float(o.lamb))
    if name in ("corfce_sum_reorg", "spectdens_sum_reorg"):
        # the binary + of two bath functions executed INSIDE the supplying context: the sum holds
        # the supplied total (two parts 1/4 + 3/4; under wavelength units two functions of twice
        # the wavelength, i.e. half the energy each)
        cls = qr.CorrelationFunction if name.startswith("corfce") else qr.SpectralDensity

        def sup(v, _cls=cls):
            ta = qr.TimeAxis(0.0, 20, 1.0)
            if _mgr().get_current_units("energy") == "nm":
                parts = (2.0 * v, 2.0 * v)
            else:
                parts = (0.25 * v, 0.75 * v)
            fs = [_cls(ta, dict(ftype="OverdampedBrownian", reorg=x, cortime=c, T=300.0))
                  for x, c in zip(parts, (50.0, 80.0))]
            return fs[0] + fs[1]
        return (sup, lambda o: float(o.get_reorganization_energy()), lambda o: float(o.lamb))
    if name in ("state_energy", "state_vibenergy", "vibronic_state_energy"):
        # energy of an aggregate state with vibrational quanta: the mode frequency v is supplied
        # under the supplying units, the electronic energy is 9 x that (set in internal units),
        # so the state (1 electronic excitation, 1 quantum) sits at 10 v, two quanta alone at 2 v;
        # what is read under other units is the conversion of the TOTAL (wavelengths do not add)
        from quantarhei.builders.aggregate_states import VibronicState
        mult = 2.0 if name == "state_vibenergy" else 10.0

        def sup(v):
            md = qr.Mode(frequency=v)
            with qr.energy_units("int"):
                m = qr.Molecule(elenergies=[0.0, 9.0 * float(md.submodes[0].omega)])
            m.add_Mode(md)
            return qr.Aggregate(molecules=[m])

        def rd(o, _n=name):
            es = o.get_ElectronicState((1,), index=1)
            if _n == "state_energy":
                e = float(es.energy((1,)))
            elif _n == "state_vibenergy":
                e = float(es.vibenergy((2,)))
            else:
                e = float(VibronicState(es, (1,)).energy())
            if _mgr().get_current_units("energy") == "nm":
                return e * mult
            return e / mult
        return (sup, rd, lambda o: float(o.monomers[0].get_Mode(0).submodes[0].omega))
    if name in ("corfce_values_reorg", "corfce_values_reorg_composed"):
        # the rarely used values= route of the constructor (explicit function values)
        def sup(v, _n=name):
            ta = qr.TimeAxis(0.0, 20, 1.0)
            if _n.endswith("composed"):
                prm = [dict(ftype="Value-defined", reorg=0.25 * v, cortime=50.0, T=300.0),
                       dict(ftype="Value-defined", reorg=0.75 * v, cortime=80.0, T=300.0)]
                if _mgr().get_current_units("energy") == "nm":
                    # parts of a wavelength are not parts of an energy: one component only
                    prm = [dict(ftype="Value-defined", reorg=v, cortime=50.0, T=300.0)] 
            else:
                prm = dict(ftype="Value-defined", reorg=v, cortime=50.0, T=300.0)
            return qr.CorrelationFunction(ta, prm, values=numpy.zeros(20, dtype=complex))
        return (sup, lambda o: float(o.get_reorganization_energy()), lambda o: float(o.lamb))
    if name == "aggregate_electronic_hamiltonian":
        def sup(v):
            m1 = qr.Molecule(elenergies=[0.0, v])
            with qr.energy_units("int"):
                m2 = qr.Molecule(elenergies=[0.0, 2.0 * float(m1.elenergies[1])])
            a = qr.Aggregate(molecules=[m1, m2])
            a.build()
            return a
        return (sup, lambda o: float(o.get_electronic_Hamiltonian().data[1, 1]),
                lambda o: float(o.monomers[0].elenergies[1]))
    if name == "hamiltonian_rwa_skeleton":
        # RWA block energies read back through get_RWA_skeleton under the reading units (the
        # round-trip clause reads the same object a second time under other units)
        def sup(v):
            h = qr.Hamiltonian(data=[[0.0, 0.0, 0.0], [0.0, v, 0.0], [0.0, 0.0, v]])
            h.set_rwa([0, 1])
            return h
        return (sup, lambda o: float(o.get_RWA_skeleton()[1]), lambda o: float(o.rwa_energies[1]))
    raise isolation.HarnessError(name)


ACCESSORS = ["hamiltonian", "molecule_init", "molecule_set", "mode_init", "mode_set", "submode",
             "aggregate_coupling", "aggregate_coupling_matrix", "frequency_axis_start",
             "frequency_axis_step", "frequency_axis_data", "corfce_reorg", "spectdens_reorg",
             "hamiltonian_rwa", "molecule_rwa", "hamiltonian_cutoff_remove",
             "aggregate_transition", "hamiltonian_array", "molecule_init_array",
             "aggregate_coupling_matrix_array", "hamiltonian_first_read_in_eigenbasis",
             "state_energy", "state_vibenergy", "vibronic_state_energy", "corfce_values_reorg",
             "corfce_values_reorg_composed", "hamiltonian_rwa_skeleton",
             "corfce_sum_reorg", "spectdens_sum_reorg",
             "aggregate_electronic_hamiltonian"]
POSITIVE_ONLY = {"hamiltonian_cutoff_remove", "corfce_reorg", "spectdens_reorg", "mode_init", "mode_set", "submode", "molecule_rwa",
                 "frequency_axis_step", "state_energy", "state_vibenergy", "vibronic_state_energy",
                 "corfce_values_reorg", "corfce_values_reorg_composed",
                 "corfce_sum_reorg", "spectdens_sum_reorg"}
# further unit-managed getters of the objects an accessor builds (derived quantities: no supplied
# value to compare with, but what is read under one units context is the exact conversion of what
# is read under another)
DERIVED = {
    "corfce_reorg": [("measure_reorganization_energy",
                      lambda o: float(o.measure_reorganization_energy()))],
    "spectdens_reorg": [("measure_reorganization_energy",
                         lambda o: float(o.measure_reorganization_energy()))],
    "corfce_sum_reorg": [("measure_reorganization_energy",
                          lambda o: float(o.measure_reorganization_energy()))],
}


def _rel(a, b):
    return abs(a - b) / max(abs(a), abs(b), 1e-300)


def eval_pair(case):
    qr = isolation.qr()
    viol = []
    u1, u2, v, acc = case["u_in"], case["u_out"], case["value"], case["accessor"]
    m = _mgr()
    units0 = dict(m.current_units)
    expected = UT.convert(v, u1, u2)
    e_int = UT.to_internal(v, u1)
    tag = "%s/%s->%s" % (acc, u1, u2)
    if acc == "convert":
        got = float(qr.convert(v, u1, to=u2))
        with qr.energy_units(u2):
            got2 = float(qr.convert(v, u1))
            got3 = float(qr.core.units.in_current_units(v, u1)) if hasattr(qr, "core") else got2
        if _rel(got, expected) > TOL_TABLE:
            viol.append(("conversion-table/" + tag, "convert(%g,%s,to=%s)=%r, table %r"
                         % (v, u1, u2, got, expected), None))
        if _rel(got2, got) > TOL_ALG or _rel(got3, got) > TOL_ALG:
            viol.append(("convert-variants-disagree/" + tag,
                         "convert(to=) %r, convert in context %r, in_current_units %r"
                         % (got, got2, got3), None))
        back = float(qr.convert(got, u2, to=u1))
        if _rel(back, v) > TOL_ALG:
            viol.append(("roundtrip/" + tag, "%g -> %r -> %r" % (v, got, back), None))
        for u3 in case["u3"]:
            if v == 0.0 and u3 == "nm":
                continue
            a = float(qr.convert(got, u2, to=u3))
            b = float(qr.convert(v, u1, to=u3))
            if _rel(a, b) > TOL_ALG:
                viol.append(("transitivity/%s->%s->%s" % (u1, u2, u3),
                             "%r vs %r" % (a, b), None))
        outcome = [round(got, 6)]
    else:
        sup, read, internal = _acc(acc)
        with qr.energy_units(u1):
            obj = sup(v)
        if dict(m.current_units) != units0:
            viol.append(("accessor-leaks-units/" + acc, "units after supplying: %r"
                         % (m.current_units,), None))
            isolation.reset_units()
        stored = internal(obj)
        if _rel(stored, e_int) > TOL_TABLE:
            viol.append(("stored-internal-value/" + tag, "stored %r, table says %r"
                         % (stored, e_int), None))
        got = None
        if read is not None:
            with qr.energy_units(u2):
                got = read(obj)
            if _rel(got, expected) > TOL_TABLE:
                viol.append(("conversion-table/" + tag, "supplied %g %s, read %r %s, table %r"
                             % (v, u1, got, u2, expected), None))
            # the stored value does not depend on the supplying context: supply the read-back
            # value under the reading units into a second object
            with qr.energy_units(u2):
                obj2 = sup(got)
            s2 = internal(obj2)
            if _rel(s2, stored) > TOL_ALG * 10:
                viol.append(("stored-value-depends-on-context/" + tag,
                             "internal %r vs %r" % (stored, s2), None))
            with qr.energy_units(u1):
                back = read(obj)
            if _rel(back, v) > TOL_ALG * 10:
                viol.append(("roundtrip/" + tag, "supplied %g read back %r under the same units"
                             % (v, back), None))
        for dname, reader in DERIVED.get(acc, ()):
            with qr.energy_units("int"):
                r0 = reader(obj)
            with qr.energy_units(u2):
                r2 = reader(obj)
            with qr.energy_units(u1):
                r1 = reader(obj)
            for u, r in ((u2, r2), (u1, r1)):
                if not (r0 > 0) or _rel(r, UT.from_internal(r0, u)) > TOL_TABLE:
                    viol.append(("derived-getter-not-converted/%s.%s/%s" % (acc, dname, u),
                                 "%s read %r under internal units and %r under %s (exact "
                                 "conversion %r)" % (dname, r0, r, u, UT.from_internal(r0, u)
                                                     if r0 > 0 else None), None))
                    break
        outcome = [round(stored, 9), None if got is None else round(got, 6)]
    if dict(m.current_units) != units0:
        viol.append(("units-not-restored/" + acc, "%r" % (m.current_units,), None))
    seen, v2 = set(), []
    for x in viol:
        if x[0] not in seen:
            seen.add(x[0]); v2.append(x)
    return {"nontrivial": u1 != u2 and v != 0, "outcome": outcome, "violations": v2}


def grid_cases(tier):
    units = list(UT.ENERGY_UNITS)
    vals = [1.0, 12000.0, -250.0, 0.0] if tier == "thorough" else [12000.0, -250.0, 0.0]
    cs = []
    for acc in ["convert"] + ACCESSORS:
        for u1 in units:
            for u2 in units:
                for v in vals:
                    if v <= 0 and acc in POSITIVE_ONLY:
                        continue
                    if v == 0.0 and "nm" in (u1, u2):
                        continue
                    if acc.startswith("hamiltonian_cutoff") and "nm" in (u1, u2):
                        continue        # multiples of a wavelength are not multiples of an energy
                    if acc == "aggregate_electronic_hamiltonian" and "nm" in (u1, u2):
                        continue        # the matrix holds zeros: no wavelength of zero energy
                    c = {"part": "G", "accessor": acc, "u_in": u1, "u_out": u2, "value": v}
                    if acc == "convert":
                        c["u3"] = units if tier == "thorough" else ["1/cm", "nm", "Ha"]
                    cs.append(c)
    return cs


# --------------------------------------------------------------------------
# Part H / F: calls made inside contexts
# --------------------------------------------------------------------------
BATH = {"reorg": 30.0, "cortime": 60.0, "T": 300.0}


def _fresh_unbuilt(mult_modes=False):
    ta = systems.time_axis(60, 2.0)
    agg = systems.aggregate([12000.0, 12200.0], systems.chain_J(2, 80.0), BATH, ta,
                            build=False)
    return ta, agg


def _prebuilt(mult=1):
    ta = systems.time_axis(60, 2.0)
    agg = systems.aggregate([12000.0, 12200.0], systems.chain_J(2, 80.0), BATH, ta, mult=mult)
    return ta, agg


def call_menu():
    """name -> (prepare() -> ctx-free prerequisites, call(prereq))"""
    qr = isolation.qr()
    M = {}
    M["Molecule()"] = (lambda: None, lambda p: qr.Molecule(elenergies=[0.0, 1.0]))
    M["Aggregate.build(mult=1)"] = (_fresh_unbuilt, lambda p: p[1].build(mult=1))
    M["Aggregate.build(mult=2)"] = (_fresh_unbuilt, lambda p: p[1].build(mult=2))
    M["Aggregate.rebuild"] = (_prebuilt, lambda p: p[1].rebuild(mult=1))
    M["get_Hamiltonian"] = (_prebuilt, lambda p: p[1].get_Hamiltonian().data)
    M["Hamiltonian.set_rwa"] = (_prebuilt, lambda p: p[1].get_Hamiltonian().set_rwa([0, 1]))
    M["diagonalize"] = (_prebuilt, lambda p: p[1].diagonalize())
    for th in ("standard_Redfield", "standard_Foerster", "combined_RedfieldFoerster"):
        M["get_RelaxationTensor(%s)" % th] = (
            _prebuilt, lambda p, th=th: p[1].get_RelaxationTensor(p[0], relaxation_theory=th))
    M["get_RelaxationTensor(Redfield,TD)"] = (
        _prebuilt, lambda p: p[1].get_RelaxationTensor(p[0], relaxation_theory="standard_Redfield",
                                                       time_dependent=True))
    M["get_RedfieldRateMatrix"] = (_prebuilt, lambda p: p[1].get_RedfieldRateMatrix())
    M["get_FoersterRateMatrix"] = (_prebuilt, lambda p: p[1].get_FoersterRateMatrix())
    M["get_DensityMatrix(thermal)"] = (
        _prebuilt, lambda p: p[1].get_DensityMatrix(condition_type="thermal", temperature=300.0))
    M["get_DensityMatrix(impulsive)"] = (
        _prebuilt, lambda p: p[1].get_DensityMatrix(condition_type="impulsive_excitation"))

    def _prop(p):
        prop = p[1].get_ReducedDensityMatrixPropagator(p[0], relaxation_theory="standard_Redfield")
        rho = qr.ReducedDensityMatrix(dim=3)
        rho.data[1, 1] = 1.0
        return prop.propagate(rho)
    M["propagate(Redfield)"] = (_prebuilt, _prop)

    def _abs(p):
        calc = qr.AbsSpectrumCalculator(p[0], system=p[1])
        calc.bootstrap(rwa=qr.convert(12100.0, "1/cm", "int"))
        return calc.calculate()
    M["AbsSpectrumCalculator"] = (_prebuilt, _abs)
    M["CorrelationFunction()"] = (lambda: systems.time_axis(60, 2.0), lambda p: qr.CorrelationFunction(
        p, dict(ftype="OverdampedBrownian", reorg=0.01, cortime=50.0, T=300.0)))

    def _two_cf():
        ta = systems.time_axis(60, 2.0)
        return systems.corfce(ta, BATH), systems.corfce(ta, dict(BATH, reorg=10.0))
    M["cf+cf"] = (_two_cf, lambda p: p[0] + p[1])

    def _sd():
        ta = systems.time_axis(60, 2.0)
        with qr.energy_units("1/cm"):
            return qr.SpectralDensity(ta, dict(ftype="OverdampedBrownian", reorg=30.0,
                                               cortime=60.0, T=300.0))
    M["SpectralDensity.get_CorrelationFunction"] = (_sd, lambda p: p.get_CorrelationFunction())
    M["SpectralDensity.get_FTCorrelationFunction"] = (_sd, lambda p: p.get_FTCorrelationFunction())
    def _cf():
        ta = systems.time_axis(60, 2.0)
        return systems.corfce(ta, BATH)
    M["cf.copy"] = (_cf, lambda p: p.copy())
    M["cf.get_SpectralDensity"] = (_cf, lambda p: p.get_SpectralDensity())
    M["cf.get_FTCorrelationFunction"] = (_cf, lambda p: p.get_FTCorrelationFunction())
    M["cf.get_OddFTCorrelationFunction"] = (_cf, lambda p: p.get_OddFTCorrelationFunction())
    M["cf.get_EvenFTCorrelationFunction"] = (_cf, lambda p: p.get_EvenFTCorrelationFunction())
    M["cf.measure_reorganization_energy"] = (_cf, lambda p: p.measure_reorganization_energy())
    M["cf.reorganization_energy_consistent"] = (
        _cf, lambda p: p.reorganization_energy_consistent())
    M["cf+=cf"] = (_two_cf, lambda p: p[0].__iadd__(p[1]))
    M["sd.copy"] = (_sd, lambda p: p.copy())
    M["sd+sd"] = (lambda: (_sd(), _sd()), lambda p: p[0] + p[1])
    M["sd.measure_reorganization_energy"] = (_sd, lambda p: p.measure_reorganization_energy())

    def _mol():
        with qr.energy_units("1/cm"):
            m = qr.Molecule(elenergies=[0.0, 12000.0])
            md = qr.Mode(frequency=300.0)
        m.add_Mode(md)
        md.set_nmax(0, 2)
        md.set_nmax(1, 2)
        md.set_HR(1, 0.1)
        return m
    M["Molecule.get_Hamiltonian"] = (_mol, lambda p: p.get_Hamiltonian())
    M["Molecule.set_electronic_rwa"] = (
        _mol, lambda p: (p.get_Hamiltonian(), p.set_electronic_rwa([0, 1])))
    M["Molecule.get_thermal_ReducedDensityMatrix"] = (
        _mol, lambda p: p.get_thermal_ReducedDensityMatrix())
    M["Mode()+add_Mode"] = (
        lambda: qr.Molecule(elenergies=[0.0, 1.0]),
        lambda p: p.add_Mode(qr.Mode(frequency=0.01)))
    M["get_TransitionDipoleMoment"] = (_prebuilt, lambda p: p[1].get_TransitionDipoleMoment())
    M["get_SystemBathInteraction"] = (_prebuilt, lambda p: p[1].get_SystemBathInteraction())
    M["get_ReducedDensityMatrixPropagator(Lindblad)"] = (
        _prebuilt, lambda p: p[1].get_ReducedDensityMatrixPropagator(
            p[0], relaxation_theory="standard_Redfield", as_operators=True))

    def _dfw():
        ta = systems.time_axis(16, 2.0, )
        f = qr.DFunction(ta, numpy.exp(-ta.data / 10.0) * (1 + 0.3j))
        return f.get_Fourier_transform()
    M["DFunction(w).inverse_FT"] = (_dfw, lambda p: p.get_inverse_Fourier_transform())
    M["DFunction(w).at"] = (_dfw, lambda p: p.at(0.0))
    M["TestAggregate(dimer-2-env)"] = (
        lambda: None, lambda p: qr.TestAggregate("dimer-2-env").build())
    M["TimeAxis.get_FrequencyAxis"] = (lambda: systems.time_axis(60, 2.0),
                                       lambda p: p.get_FrequencyAxis().get_TimeAxis())
    M["convert"] = (lambda: None, lambda p: qr.convert(1.0, "eV", to="1/cm"))
    M["get_KTHierarchy"] = (_prebuilt, lambda p: p[1].get_KTHierarchy(depth=1))
    M["liouville_pathways_3T"] = (
        lambda: _prebuilt(mult=2),
        lambda p: (p[1].diagonalize(), p[1].liouville_pathways_3T(
            ptype="R1g", lab=qr.LabSetup())))
    M["trace_over_vibrations"] = (
        _prebuilt, lambda p: p[1].trace_over_vibrations(
            p[1].get_DensityMatrix(condition_type="thermal", temperature=300.0)))
    M["save/load"] = (_prebuilt, _saveload)
    # public generators: the BODY of the caller's loop runs while the generator is suspended; the
    # units there are the caller's (UWorld.call checks them in every iteration)
    M["iterate:Aggregate.elstates"] = (_prebuilt, lambda p: p[1].elstates(mult=1))
    M["iterate:Aggregate.allstates"] = (_prebuilt, lambda p: p[1].allstates(mult=1))
    M["iterate:Aggregate.elsignatures"] = (_prebuilt, lambda p: p[1].elsignatures(mult=1))
    M["Aggregate.get_electronic_Hamiltonian"] = (
        _prebuilt, lambda p: p[1].get_electronic_Hamiltonian())
    return M


def _saveload(p):
    import tempfile, os
    qr = isolation.qr()
    d = tempfile.mkdtemp(prefix="c05_")
    try:
        f = os.path.join(d, "h.qrp")
        p[1].get_Hamiltonian().save(f)
        return qr.load_parcel(f)
    finally:
        import shutil
        shutil.rmtree(d, ignore_errors=True)


_MENU = None


def menu():
    global _MENU
    if _MENU is None:
        _MENU = call_menu()
    return _MENU


def _units_state():
    m = _mgr()
    return {"units": dict(m.current_units), "in_ctx": bool(m._in_energy_units_context),
            "count": int(m._in_eu_count)}


class UWorld:
    def __init__(self):
        self.qr = isolation.qr()
        self.stack = []          # ("energy"|"length", units, cm)
        self.viol = []
        self.prepared = None
        self.init = _units_state()
        self.base0 = dict(self.init["units"])     # the units the prerequisites are built in

    def v(self, key, what, det=None):
        if key not in [x[0] for x in self.viol]:
            self.viol.append((key, what, det))

    def model(self):
        u = dict(self.init["units"])
        ne = 0
        for typ, un, cm in self.stack:
            u[typ] = un
            if typ == "energy":
                ne += 1
        return {"units": u, "in_ctx": ne > 0, "count": ne}

    def check(self, after):
        got, exp = _units_state(), self.model()
        if got["units"] != exp["units"]:
            diff = {k: (got["units"].get(k), exp["units"].get(k)) for k in exp["units"]
                    if got["units"].get(k) != exp["units"].get(k)}
            self.v("active-units-differ-from-context-stack/after-" + after,
                   "after %s: active units %r (got, expected) with context stack %r"
                   % (after, diff, [(t, u) for t, u, c in self.stack]), {"diff": diff})
            return False
        if got["in_ctx"] != exp["in_ctx"] or got["count"] != exp["count"]:
            self.v("context-depth-bookkeeping/after-" + after,
                   "after %s: in-context flag/count %r/%r, expected %r/%r"
                   % (after, got["in_ctx"], got["count"], exp["in_ctx"], exp["count"]))
            return False
        return True

    def setglobal(self, units):
        """The USER selects non-internal units outside any context (a configuration choice):
        they are the bottom of the stack from now on."""
        _mgr().set_current_units("energy", units)
        self.init["units"]["energy"] = units
        self.check("set-global-units")

    def bad_request(self, which):
        """A units request the library refuses (unknown name), through the public raw switches;
        the caller handles the exception: the active units are what they were."""
        try:
            if which == "set_current_units-energy":
                self.qr.set_current_units({"energy": "kcal/mol"})
            elif which == "set_current_units-frequency":
                self.qr.set_current_units({"frequency": "Hz"})
            elif which == "manager-energy":
                _mgr().set_current_units("energy", "cm-1")
            elif which == "manager-length":
                _mgr().set_current_units("length", "1/cm")
            elif which == "context-energy":
                self.qr.energy_units("kcal/mol").__enter__()
            elif which == "convert-bad-target":
                self.qr.convert(1.0, "1/cm", to="kcal/mol")
            elif which == "convert-bad-value":
                self.qr.convert(None, "eV", to="1/cm")
            else:
                raise isolation.HarnessError(which)
        except isolation.HarnessError:
            raise
        except Exception:
            pass
        self.check("refused-request:" + which)

    def enter(self, typ, units):
        cm = self.qr.energy_units(units) if typ == "energy" else self.qr.length_units(units)
        cm.__enter__()
        self.stack.append((typ, units, cm))
        self.check("enter")

    def prepare(self, typ, units):
        """Create a context object now, enter it later (possibly inside other contexts)."""
        self.prepared = (typ, units, self.qr.energy_units(units) if typ == "energy"
                         else self.qr.length_units(units))
        self.check("prepare")

    def enter_prepared(self):
        typ, units, cm = self.prepared
        self.prepared = None
        cm.__enter__()
        self.stack.append((typ, units, cm))
        self.check("enter-prepared")

    def _leave(self, exc):
        typ, un, cm = self.stack.pop()
        try:
            if exc is None:
                cm.__exit__(None, None, None)
            else:
                if cm.__exit__(type(exc), exc, exc.__traceback__):
                    self.v("exception-swallowed", "units context swallowed an exception")
        except Exception as e:      # leaving a units context must always work
            self.v("context-exit-raises/%s-units" % typ,
                   "leaving the %s-units context (%s) raised %s: %s"
                   % (typ, un, type(e).__name__, str(e)[:80]))

    def exit(self):
        self._leave(None)
        self.check("exit")

    def exit_exc(self):
        try:
            raise Injected("in units context")
        except Injected as e:
            self._leave(e)
        self.check("exit-by-exception")

    def raise_all(self):
        try:
            raise Injected("in units context")
        except Injected as e:
            while self.stack:
                self._leave(e)
        self.check("exception-through-all-contexts")

    def call(self, name):
        prep, f = menu()[name]
        # prerequisites are built outside any context, isolated from the call under test
        saved = _units_state()
        m = _mgr()
        pre_stack_units = dict(m.current_units)
        m.current_units = dict(self.base0)
        c, fl = m._in_eu_count, m._in_energy_units_context
        m._in_eu_count, m._in_energy_units_context = 0, False
        try:
            p = prep()
        finally:
            m.current_units = pre_stack_units
            m._in_eu_count, m._in_energy_units_context = c, fl
        try:
            if name.startswith("iterate:"):
                n = 0
                for _item in f(p):
                    n += 1
                    if n <= 3 and not self.check("loop-body-of:" + name[8:]):
                        break
            else:
                f(p)
        except Exception as e:
            pass            # a refusal is fine for this property; the units are what counts
        ok = self.check("call:" + name)
        if not ok:
            # restore so that later transitions are judged on their own
            mdl = self.model()
            m.current_units = dict(mdl["units"])
            m._in_eu_count, m._in_energy_units_context = mdl["count"], mdl["in_ctx"]

    def close(self):
        while self.stack:
            self._leave(None)
            self.check("exit")
        got = _units_state()
        if got != self.init:
            self.v("units-not-restored-after-outermost-exit",
                   "after leaving all contexts: %r, initially %r" % (got, self.init))
        _mgr().current_units = dict(self.base0)       # harness: next history starts clean


CFG = {"quick": {"nest": 2, "calls": None, "depth": 3, "nexc": 1},
       "thorough": {"nest": 3, "calls": None, "depth": 4, "nexc": 2}}


def execute(hist):
    cfg = CFG[execute.tier]
    w = UWorld()
    nexc = 0
    for op in hist:
        if op[0] in ("exit_exc", "raise_all"):
            nexc += 1
        getattr(w, op[0])(*op[1:])
    depth = len(w.stack)
    key = [[(t, u) for t, u, c in w.stack], _units_state(), nexc,
           None if w.prepared is None else list(w.prepared[:2]),
           any(op[0] == "prepare" for op in hist),
           [op[1] for op in hist if op[0] == "call"][-1:] if False else None]
    en = []
    if depth < cfg["nest"]:
        for u in (["1/cm", "eV"] if execute.tier == "quick" else ["1/cm", "eV", "nm"]):
            en.append(["enter", "energy", u])
        en.append(["enter", "length", "nm"])
        if w.prepared is not None:
            en.append(["enter_prepared"])
    if depth == 0 and w.prepared is None and not any(op[0] == "setglobal" for op in hist):
        en.append(["setglobal", "1/cm"])
    if w.prepared is None and not any(op[0] == "prepare" for op in hist):
        en.append(["prepare", "energy", "THz"])
        if execute.tier == "thorough":
            en.append(["prepare", "length", "nm"])
    if sum(1 for op in hist if op[0] == "bad_request") < 1:
        for which in ("set_current_units-energy", "set_current_units-frequency", "manager-energy",
                      "manager-length", "context-energy", "convert-bad-target",
                      "convert-bad-value"):
            en.append(["bad_request", which])
    if depth > 0:
        en.append(["exit"])
        if nexc < cfg["nexc"]:
            en.append(["exit_exc"])
            en.append(["raise_all"])
    if execute.with_calls:
        for name in menu():
            en.append(["call", name])
    w.close()
    ncalls = sum(1 for op in hist if op[0] == "call")
    return {"key": key, "enabled": en, "violations": w.viol,
            "nontrivial": depth > 0 or any(op[0] == "enter" for op in hist),
            "outcome": [depth, hist[-1][0] if hist else None, hist[-1][-1] if hist else None,
                        len(w.viol)]}


execute.tier = "quick"
execute.with_calls = True


# ---- Part F ------------------------------------------------------------
def eval_fault(case):
    """One call of the menu inside energy_units(u), with a fault at library call #k."""
    qr = isolation.qr()
    name, u = case["call"], case["units"]
    prep, f = menu()[name]
    viol = []
    m = _mgr()
    if case.get("count_only"):
        p = prep()
        isolation.reset_units()
        with qr.energy_units(u):
            try:
                n, names = count_lib_calls(lambda: f(p))
            except Exception:
                n, names = 0, []
        return {"nontrivial": False, "outcome": ["count", name, n], "violations": [],
                "info": {"call": name, "n": n}}
    ks = case["ks"]
    nraised = 0
    wheres = set()
    for k in ks:
        isolation.reset_manager()
        p = prep()
        isolation.reset_units()
        cm = qr.energy_units(u)
        cm.__enter__()
        before = _units_state()
        raised, where, exc = run_with_fault(lambda: f(p), k)
        after = _units_state()
        if raised:
            nraised += 1
            wheres.add(where)
        if after != before:
            key = "fault-inside-call-leaves-units-switched/%s" % name
            if key not in [x[0] for x in viol]:
                viol.append((key, "%s inside energy_units(%s) with an exception injected at "
                             "library call #%d (%s): units afterwards %r, before %r"
                             % (name, u, k, where, after, before), {"k": k, "where": where}))
        m.current_units = dict(before["units"])
        m._in_eu_count, m._in_energy_units_context = before["count"], before["in_ctx"]
        cm.__exit__(None, None, None)
        if _units_state()["units"] != isolation._pristine():
            key = "units-not-restored-after-outermost-exit/fault/%s" % name
            if key not in [x[0] for x in viol]:
                viol.append((key, "after fault #%d in %s and leaving the context: %r"
                             % (k, name, _units_state()), None))
    return {"nontrivial": nraised > 0, "outcome": [name, u, ks[0], ks[-1], nraised,
                                                     sorted(w for w in wheres if w)[:5]],
            "violations": viol, "n": len(ks) - 1}


def replay(case):
    if "history" in case:
        execute.tier = case.get("tier", "thorough")
        return execute(tuple(tuple(o) for o in case["history"]))["violations"]
    if case.get("part") == "G":
        return eval_pair(case)["violations"]
    return eval_fault(case)["violations"]


def _dispatch(case):
    if case.get("part") == "G":
        return eval_pair(case)
    return eval_fault(case)


def run(run):
    execute.tier = run.tier
    run.rule = ("G: full product accessor x u_in x u_out x value (non-trivial: different units, "
                "non-zero value). H: BFS over enter(energy|length units)/exit/exit-by-exception/"
                "exception-through-all/call(f) for every f of a 30-call menu; after every "
                "transition the active units are compared with the model's context stack. "
                "F: every menu call inside energy_units(u) with an exception injected at EVERY "
                "library function entry (stride 1 up to a per-call bound, reported)")
    run.assumptions = ["conversion table recomputed from scipy.constants (CODATA) in "
                       "mc/refmodels/units_table.py; 1e-6 relative because the package hard-codes "
                       "the CODATA-2014 Hartree", "fault = exception at a library function entry"]
    # G
    run_grid(run, grid_cases(run.tier), _dispatch, section="G-conversion-matrix")
    # F: count library calls per menu entry, then enumerate injection points
    names = list(menu())
    counts = run_grid(run, [{"part": "F", "call": n, "units": "1/cm", "count_only": True}
                            for n in names], _dispatch, section="F-count")
    cmap = {c["call"]: c["n"] for c in counts}
    maxk = 400 if run.tier == "quick" else 6000
    fc = []
    capped = {}
    for n in names:
        tot = cmap.get(n, 0)
        upto = min(tot, maxk)
        if tot > maxk:
            capped[n] = [tot, maxk]
        ks = list(range(1, upto + 1))
        for i in range(0, len(ks), 50):
            for u in (["1/cm"] if run.tier == "quick" else ["1/cm", "eV"]):
                fc.append({"part": "F", "call": n, "units": u, "ks": ks[i:i + 50]})
    if capped:
        run.cap("F: injection points beyond #%d not enumerated for %r" % (maxk, capped))
    run.note(fault_points_per_call=cmap)
    run_grid(run, fc, _dispatch, section="F-fault-at-every-library-call",
             cap_s=25 if run.tier == "quick" else 420)
    # H1: context protocol alone (cheap transitions) explored deep
    execute.with_calls = False
    run_bfs(run, execute, 6 if run.tier == "quick" else 9, cap_s=15 if run.tier == "quick" else 200,
            section="H-context-protocol")
    # H2: contexts interleaved with every call of the menu
    execute.with_calls = True
    run_bfs(run, execute, CFG[run.tier]["depth"], cap_s=25 if run.tier == "quick" else 300,
            section="H-context-histories-with-calls")
