"""C15 Propagation results are functions of their inputs only.

E-bfs over histories of tensor-construction / propagate / calculate calls on ONE shared
world (aggregate, Hamiltonian, system-bath interaction, time axis, initial states, and the
propagator / hierarchy / superoperator objects created on the way).  For the last call of
every history: (1) every input object is byte-compared before/after; (2) the result is
compared with the result of the same call made first on a freshly built twin world.
"""
import numpy

from mc import isolation, systems
from mc.explore import run_bfs, approx

LEVEL = "model_checking"
TOL = 1e-10
BATH = {"reorg": 30.0, "cortime": 60.0, "T": 300.0}


class World:
    def __init__(self, cfg):
        qr = isolation.qr()
        self.qr = qr
        self.cfg = cfg
        self.ta = systems.time_axis(cfg["nt"], cfg["dt"])
        n = cfg["nsites"]
        en = [12000.0 + 110.0 * i + 7.0 * i * i for i in range(n)]
        J = systems.full_J(n, [70.0, -45.0, 30.0])
        self.agg = systems.aggregate(en, J, BATH, self.ta, mult=1)
        self.ham = self.agg.get_Hamiltonian()
        self.sbi = self.agg.get_SystemBathInteraction()
        d = self.ham.dim
        r0 = numpy.zeros((d, d), dtype=complex)
        r0[1, 1] = 0.7
        r0[2, 2] = 0.3
        r0[1, 2] = 0.2 + 0.1j
        r0[2, 1] = 0.2 - 0.1j
        r1 = numpy.zeros((d, d), dtype=complex)
        r1[d - 1, d - 1] = 1.0
        self.rho = {"rho0": qr.ReducedDensityMatrix(data=r0), "rho1": qr.ReducedDensityMatrix(data=r1)}
        self.props = {}
        self.hprop = None
        self.eso = None
        self.svprop = None
        self.popprop = None
        self.rates = None
        self.psi = None
        # a Hamiltonian made directly from a matrix (NO rotating-wave reference) with its own
        # system-bath interaction, shared by whatever is built on it
        self.ham2, self.sbi2 = systems.ham_sbi([e for e in en], J, BATH, self.ta)
        # results the caller keeps (the very objects the library returned, uncopied) with a
        # private copy of what they contained when they were returned
        self.held = []
        self.in_ctx = 0

    def cp(self, what, obj, attr=None):
        """Private copy of a returned array (or of obj.<attr>); the returned object itself is
        kept so that it can be looked at again after later calls.  Results obtained inside an
        ambient context are not kept (they are re-expressed when the context is left)."""
        arr = getattr(obj, attr) if attr else obj
        c = numpy.array(arr, copy=True)
        if self.in_ctx == 0:
            self.held.append((what, obj, attr, c))
        return c

    def held_changed(self):
        out = []
        for what, obj, attr, c in self.held:
            now = numpy.asarray(getattr(obj, attr) if attr else obj)
            if now.shape != c.shape or not numpy.array_equal(now, c, equal_nan=True):
                if now.shape == c.shape and numpy.allclose(now, c, rtol=0, atol=1e-13 * max(
                        1.0, float(numpy.max(numpy.abs(c))) if c.size else 1.0)):
                    continue
                out.append(what)
        return out

    # ---- observable inputs ----------------------------------------------
    def snapshot(self):
        from quantarhei.core.managers import Manager
        ham, sbi = self.ham, self.sbi
        m = Manager()
        snap = {
            "ham._data": numpy.array(ham._data, copy=True),
            "ham.basis_tag": ham.get_current_basis(),
            "ham.protected": bool(ham.is_basis_protected),
            # observable remainder coupling: JR while flagged, zero otherwise (the scratch array
            # left behind by recover_cutoff_coupling is zero and unflagged)
            "ham.remainder_coupling": (numpy.array(ham.JR, copy=True)
                                       if getattr(ham, "_has_remainder_coupling", False)
                                       else numpy.zeros(ham._data.shape)),
            "ham.has_remainder": bool(getattr(ham, "_has_remainder_coupling", False)),
            "ham.has_rwa": bool(getattr(ham, "has_rwa", False)),
            "ham.rwa_indices": None if getattr(ham, "rwa_indices", None) is None
            else numpy.array(ham.rwa_indices, copy=True),
            "sbi.KK": numpy.array(sbi.KK, copy=True),
            "sbi.cf0": numpy.array(sbi.CC.get_coft(0, 0), copy=True),
            "sbi.reorg": float(sbi.CC.get_reorganization_energy(0, 0)),
            "ta.data": numpy.array(self.ta.data, copy=True),
            "ta.step": float(self.ta.step),
            "rho0._data": numpy.array(self.rho["rho0"]._data, copy=True),
            "rho1._data": numpy.array(self.rho["rho1"]._data, copy=True),
            "agg.HH": numpy.array(self.agg.HH, copy=True),
            "agg.DD": numpy.array(self.agg.DD, copy=True),
            "manager.basis_stack": list(m.basis_stack),
            "manager.units": dict(m.current_units),
        }
        if getattr(self, "rates", None) is not None:
            snap["rate_matrix.data"] = numpy.array(self.rates.data, copy=True)
        h2 = self.ham2
        snap["plain_ham._data"] = numpy.array(h2._data, copy=True)
        snap["plain_ham.has_rwa"] = bool(getattr(h2, "has_rwa", False))
        snap["plain_ham.rwa_indices"] = None if getattr(h2, "rwa_indices", None) is None \
            else numpy.array(h2.rwa_indices, copy=True)
        snap["plain_ham.protected"] = bool(h2.is_basis_protected)
        for name, (prop, settings) in self.props.items():
            rt = prop.RelaxationTensor if hasattr(prop, "RelaxationTensor") else None
            if rt is not None and not getattr(rt, "as_operators", False) and hasattr(rt, "_data"):
                snap["tensor[%s]._data" % name] = numpy.array(rt._data, copy=True)
            snap["prop[%s].Hamiltonian._data" % name] = numpy.array(prop.Hamiltonian._data, copy=True)
            pdo = getattr(prop, "PDeph", None)
            if pdo is not None and hasattr(pdo, "data"):
                snap["prop[%s].PureDephasing.data" % name] = numpy.array(pdo.data, copy=True)
                snap["prop[%s].PureDephasing.dtype" % name] = str(getattr(pdo, "dtype", None))
        return snap

    @staticmethod
    def diff(a, b):
        out = []
        for k in a:
            if k not in b:
                continue
            x, y = a[k], b[k]
            if isinstance(x, numpy.ndarray) or isinstance(y, numpy.ndarray):
                if x is None or y is None or numpy.shape(x) != numpy.shape(y) or \
                        not numpy.allclose(x, y, rtol=0, atol=1e-12 * max(1.0, float(numpy.max(numpy.abs(x))) if numpy.size(x) else 1.0)):
                    out.append(k)
            elif x != y:
                out.append(k)
        return out

    # ---- the calls --------------------------------------------------------
    def ensure(self, op):
        """Create (outside any context) the cached object the call `op` works on."""
        qr = self.qr
        name = op[0]
        if name in ("propagate", "read"):
            theory, td = op[1], op[2]
            key = "%s/%s" % (theory, td)
            if key not in self.props:
                kw = {}
                if theory == "combined_RedfieldFoerster":
                    kw["coupling_cutoff"] = qr.convert(50.0, "1/cm", "int")
                p = self.agg.get_ReducedDensityMatrixPropagator(
                    self.ta, relaxation_theory=theory, time_dependent=td, **kw)
                self.props[key] = (p, {"Nref": 1})
        elif name == "propagate_free":
            if "free" not in self.props:
                p = qr.qm.ReducedDensityMatrixPropagator(self.ta, self.ham)
                self.props["free"] = (p, {"Nref": 1})
        elif name == "sv":
            if self.svprop is None:
                self.svprop = qr.qm.StateVectorPropagator(self.ta, self.ham)
                v = numpy.zeros(self.ham.dim, dtype=complex)
                v[1] = 0.8
                v[2] = 0.6j
                self.psi = qr.qm.StateVector(data=v)
        elif name in ("pop", "pop_matrix"):
            if self.popprop is None:
                from quantarhei.qm.propagators.poppropagator import PopulationPropagator
                # the propagator is given the rate matrix as an array (the form both
                # propagate() and get_PropagationMatrix() accept); the array stays the
                # caller's object and is read again by every later call
                self.rates = self.agg.get_RedfieldRateMatrix()
                self.popprop = PopulationPropagator(self.ta, self.rates.data)
        elif name in ("heom", "heom_free", "heom_coarse"):
            if self.hprop is None:
                self.hprop = self.agg.get_KTHierarchyPropagator(depth=self.cfg["hdepth"])

    def call(self, op):
        qr = self.qr
        name = op[0]
        self.ensure(op) if name not in ("in", "in2") else None
        if name == "in":
            # the same call made inside an ambient context of the caller
            _, ctx, inner = op
            # propagator / hierarchy objects a call works on are part of its inputs; they are
            # always created outside any ambient context (here), so that a history and its twin
            # differ only in the calls made in between
            self.ensure(list(inner))
            self.in_ctx += 1
            try:
                if ctx == "units":
                    with qr.energy_units("1/cm"):
                        return self.call(list(inner))
                if ctx == "basis":
                    with qr.eigenbasis_of(self.ham):
                        return self.call(list(inner))
            finally:
                self.in_ctx -= 1
            raise isolation.HarnessError(ctx)
        if name == "in2":
            # two calls made inside ONE ambient context: the result of the second one is
            # compared with the same call made alone in such a context on fresh objects
            _, ctx, first, second = op
            self.ensure(list(first))
            self.ensure(list(second))
            cm = qr.energy_units("1/cm") if ctx == "units" else qr.eigenbasis_of(self.ham)
            self.in_ctx += 1
            try:
                with cm:
                    self.call(list(first))
                    return self.call(list(second))
            finally:
                self.in_ctx -= 1
        if name == "heom_plain":
            # hierarchy + propagator set up on the plain Hamiltonian (the library refuses a
            # Hamiltonian without RWA; whatever it answers, the Hamiltonian stays as it was)
            from quantarhei.qm.liouvillespace.heom import KTHierarchy, KTHierarchyPropagator
            hy = KTHierarchy(self.ham2, self.sbi2, 1)
            kp = KTHierarchyPropagator(self.ta, hy)
            ev = kp.propagate(self.rho["rho0"])
            return {"evolution": self.cp(_name(op) + ":evolution", ev, "data")}
        if name == "propagate_plain":
            if "plain" not in self.props:
                self.props["plain"] = (qr.qm.ReducedDensityMatrixPropagator(self.ta, self.ham2),
                                       {"Nref": 1})
            ev = self.props["plain"][0].propagate(self.rho["rho0"])
            return {"evolution": self.cp(_name(op) + ":evolution", ev, "data"),
                    "in_rwa": numpy.array([1.0 if getattr(ev, "is_in_rwa", False) else 0.0])}
        if name in ("propagate_pdeph", "propagate_pdephG"):
            # pure dephasing (Lorentzian / Gaussian) + refinement requested through the propagate
            # argument; the PureDephasing object is an input of the propagator (snapshot)
            _, nref = op
            pkey = "pdeph" if name == "propagate_pdeph" else "pdephG"
            if pkey not in self.props:
                from quantarhei.qm import PureDephasing
                RR, hh = self.agg.get_RelaxationTensor(self.ta,
                                                       relaxation_theory="standard_Redfield")
                dd = self.ham.dim
                g = numpy.zeros((dd, dd))
                for i in range(dd):
                    for j in range(dd):
                        if i != j:
                            g[i, j] = (0.004 if pkey == "pdeph" else 0.0004) * (1 + abs(i - j))
                pd = PureDephasing(drates=g, dtype="Lorentzian" if pkey == "pdeph" else "Gaussian")
                self.props[pkey] = (qr.qm.ReducedDensityMatrixPropagator(
                    self.ta, hh, RR, PDeph=pd), {"Nref": 1})
            p, settings = self.props[pkey]
            if nref > 1:
                settings["Nref"] = nref          # documented: a setting that stays on the object
            ev = p.propagate(self.rho["rho0"], Nref=nref) if nref > 1 \
                else p.propagate(self.rho["rho0"])
            return {"evolution": self.cp(_name(op) + ":evolution", ev, "data"), "_settings": dict(settings)}
        if name == "bad":
            # a call with an argument the library refuses: whatever it answers (normally an
            # exception, which the caller handles), the inputs are as before and later calls
            # are not affected
            _, which = op
            if which == "tensor_cutoff":
                self.agg.get_RelaxationTensor(self.ta, relaxation_theory="combined_RedfieldFoerster",
                                              coupling_cutoff=-1.0)
            elif which == "tensor_theory":
                self.agg.get_RelaxationTensor(self.ta, relaxation_theory="no_such_theory")
            elif which == "dm_condition":
                self.agg.get_DensityMatrix(condition_type="no_such_condition", temperature=300.0)
            elif which == "propagate_dim":
                self.ensure(["propagate", "standard_Redfield", False, "rho0", 1])
                p, settings = self.props["standard_Redfield/False"]
                p.propagate(qr.ReducedDensityMatrix(data=numpy.eye(2, dtype=complex) / 2.0))
            else:
                raise isolation.HarnessError(which)
            return {"returned": numpy.zeros(1)}
        if name == "read":
            # a pure READ of the input objects a propagator works on (tensor and Hamiltonian in
            # the representation of the current context); reading is not an input
            _, theory, td = op
            p, settings = self.props["%s/%s" % (theory, td)]
            out = {"ham": numpy.array(p.Hamiltonian.data, copy=True)}
            rt = p.RelaxationTensor
            if not getattr(rt, "as_operators", False):
                out["tensor"] = numpy.array(rt.data, copy=True)
            return out
        if name == "refill":
            # the USER overwrites the content of an initial-state object (same object identity)
            _, rho, which = op
            d = self.ham.dim
            r = numpy.zeros((d, d), dtype=complex)
            if which == 1:
                r[1, 1] = 1.0
            else:
                r[1, 1] = 0.25
                r[2, 2] = 0.75
                r[1, 2] = 0.1j
                r[2, 1] = -0.1j
            self.rho[rho].data = r
            return {"refilled": r}
        if name == "tensor":
            _, theory, td, sec = op
            kw = {}
            if theory == "combined_RedfieldFoerster":
                kw["coupling_cutoff"] = qr.convert(50.0, "1/cm")   # in the current units
            RR, hh = self.agg.get_RelaxationTensor(self.ta, relaxation_theory=theory,
                                                   time_dependent=td, secular_relaxation=sec, **kw)
            return {"tensor": self.cp(_name(op) + ":tensor", RR, "data"),
                    "ham": self.cp(_name(op) + ":ham", hh, "_data")}
        if name == "tensor_cut":
            # combined theory with a cut-off ABOVE every coupling of the dimer (all of them are
            # split off); the system's Hamiltonian is as it was afterwards
            _, cut = op
            RR, hh = self.agg.get_RelaxationTensor(
                self.ta, relaxation_theory="combined_RedfieldFoerster",
                coupling_cutoff=qr.convert(float(cut), "1/cm"))
            return {"tensor": self.cp(_name(op) + ":tensor", RR, "data"),
                    "ham": self.cp(_name(op) + ":ham", hh, "_data")}
        if name == "heom_coarse":
            # a second propagator on the SAME hierarchy with a far too coarse time axis (the run
            # overflows); whatever it returns, later runs on the hierarchy are not affected
            from quantarhei.qm.liouvillespace.heom import KTHierarchyPropagator
            ta2 = qr.TimeAxis(0.0, 150, 400.0)
            kp = KTHierarchyPropagator(ta2, self.hprop.hy)
            with numpy.errstate(all="ignore"):
                ev = kp.propagate(self.rho["rho0"])
            return {"evolution": numpy.array(ev.data, copy=True)}
        if name == "tensor_nr":
            # the rarely used request "do not recalculate": whatever it re-uses, what comes back is
            # the tensor of THIS request
            _, theory, td, sec = op
            RR, hh = self.agg.get_RelaxationTensor(self.ta, relaxation_theory=theory,
                                                   time_dependent=td, secular_relaxation=sec,
                                                   recalculate=False)
            return {"tensor": numpy.array(RR.data, copy=True), "ham": numpy.array(hh._data, copy=True)}
        if name == "propagate_nr":
            _, theory, td, rho = op
            p = self.agg.get_ReducedDensityMatrixPropagator(
                self.ta, relaxation_theory=theory, time_dependent=td, recalculate=False)
            ev = p.propagate(self.rho[rho])
            return {"evolution": numpy.array(ev.data, copy=True)}
        if name == "propagate":
            _, theory, td, rho, nref = op
            key = "%s/%s" % (theory, td)
            if key not in self.props:
                kw = {}
                if theory == "combined_RedfieldFoerster":
                    kw["coupling_cutoff"] = qr.convert(50.0, "1/cm")   # in the current units
                p = self.agg.get_ReducedDensityMatrixPropagator(
                    self.ta, relaxation_theory=theory, time_dependent=td, **kw)
                self.props[key] = (p, {"Nref": 1})
            p, settings = self.props[key]
            if nref > 1:
                settings["Nref"] = nref          # documented: a setting of the propagator
            if nref > 1:
                ev = p.propagate(self.rho[rho], Nref=nref)
            else:
                ev = p.propagate(self.rho[rho])
            return {"evolution": self.cp(_name(op) + ":evolution", ev, "data"), "_settings": dict(settings)}
        if name == "propagate_free":
            _, rho = op
            if "free" not in self.props:
                p = qr.qm.ReducedDensityMatrixPropagator(self.ta, self.ham)
                self.props["free"] = (p, {"Nref": 1})
            ev = self.props["free"][0].propagate(self.rho[rho])
            return {"evolution": self.cp(_name(op) + ":evolution", ev, "data")}
        if name == "sv":
            if self.svprop is None:
                self.svprop = qr.qm.StateVectorPropagator(self.ta, self.ham)
                v = numpy.zeros(self.ham.dim, dtype=complex)
                v[1] = 0.8
                v[2] = 0.6j
                self.psi = qr.qm.StateVector(data=v)
            ev = self.svprop.propagate(self.psi)
            return {"evolution": self.cp(_name(op) + ":evolution", ev, "data")}
        if name == "pop":
            if self.popprop is None:
                from quantarhei.qm.propagators.poppropagator import PopulationPropagator
                # the propagator is given the rate matrix as an array (the form both
                # propagate() and get_PropagationMatrix() accept); the array stays the
                # caller's object and is read again by every later call
                self.rates = self.agg.get_RedfieldRateMatrix()
                self.popprop = PopulationPropagator(self.ta, self.rates.data)
            p0 = numpy.zeros(self.ham.dim)
            if len(op) > 1 and op[1] == 1:
                p0[1] = 0.4
                p0[2] = 0.6
            else:
                p0[self.ham.dim - 1] = 1.0
            return {"pops": self.cp(_name(op) + ":pops", self.popprop.propagate(p0))}
        if name == "heom":
            _, rho = op
            if self.hprop is None:
                self.hprop = self.agg.get_KTHierarchyPropagator(depth=self.cfg["hdepth"])
            ev = self.hprop.propagate(self.rho[rho])
            return {"evolution": self.cp(_name(op) + ":evolution", ev, "data")}
        if name == "heom_free":
            # rarely used option: propagation of the hierarchy alone (kernel construction)
            _, rho = op
            if self.hprop is None:
                self.hprop = self.agg.get_KTHierarchyPropagator(depth=self.cfg["hdepth"])
            ev = self.hprop.propagate(self.rho[rho], free_hierarchy=True)
            return {"evolution": self.cp(_name(op) + ":evolution", ev, "data")}
        if name == "pop_matrix":
            # propagation matrix on a coarser axis, with perturbative corrections requested
            _, corr = op
            if self.popprop is None:
                from quantarhei.qm.propagators.poppropagator import PopulationPropagator
                # the propagator is given the rate matrix as an array (the form both
                # propagate() and get_PropagationMatrix() accept); the array stays the
                # caller's object and is read again by every later call
                self.rates = self.agg.get_RedfieldRateMatrix()
                self.popprop = PopulationPropagator(self.ta, self.rates.data)
            t2 = qr.TimeAxis(0.0, 4, self.ta.step * 5)
            out = self.popprop.get_PropagationMatrix(t2, corrections=corr)
            if isinstance(out, tuple):
                res = {"U": self.cp(_name(op) + ":U", out[0])}
                for i, c in enumerate(out[1]):
                    res["corr%d" % i] = numpy.array(c, copy=True)
                return res
            return {"U": self.cp(_name(op) + ":U", out)}
        if name == "eso":
            _, mode = op
            RR, hh = self.agg.get_RelaxationTensor(self.ta, relaxation_theory="standard_Redfield")
            t2 = qr.TimeAxis(0.0, 4, 10.0 * self.ta.step if False else self.ta.step * 5)
            eso = qr.qm.EvolutionSuperOperator(t2, hh, RR)
            eso.set_dense_dt(5)
            eso.calculate(show_progress=False)
            out = {"U": self.cp("eso:U", eso, "data")}
            r = eso.apply(t2.data[2], self.rho["rho0"])
            out["applied"] = self.cp("eso:applied", r, "data")
            return out
        if name == "rates":
            _, which = op
            if which == "redfield":
                return {"K": self.cp("rates/redfield:K", self.agg.get_RedfieldRateMatrix(), "data")}
            return {"K": self.cp("rates/foerster:K", self.agg.get_FoersterRateMatrix(), "data")}
        if name == "abs":
            calc = qr.AbsSpectrumCalculator(self.ta, system=self.agg)
            calc.bootstrap(rwa=qr.convert(12100.0, "1/cm", "int"))
            sp = calc.calculate()
            return {"spectrum": self.cp("abs:spectrum", sp, "data")}
        if name == "dm":
            _, cond = op
            r = self.agg.get_DensityMatrix(condition_type=cond, temperature=300.0)
            return {"rho": self.cp(_name(op) + ":rho", r, "data")}
        raise isolation.HarnessError("unknown op %r" % (op,))


def menu(tier):
    ops = [["tensor", "standard_Redfield", False, False],
           ["tensor", "standard_Redfield", True, False],
           ["tensor", "standard_Redfield", False, True],
           ["tensor", "standard_Foerster", False, False],
           ["tensor", "combined_RedfieldFoerster", False, False],
           ["tensor", "Lindblad_form", False, False] if False else None,
           ["propagate", "standard_Redfield", False, "rho0", 1],
           ["propagate", "standard_Redfield", False, "rho1", 1],
           ["propagate", "standard_Redfield", True, "rho0", 1],
           ["propagate", "standard_Foerster", False, "rho0", 1],
           ["propagate", "combined_RedfieldFoerster", False, "rho0", 1],
           ["propagate_free", "rho0"],
           ["sv"], ["pop", 0], ["pop", 1],
           ["heom", "rho0"], ["heom", "rho1"], ["heom_free", "rho0"],
           ["pop_matrix", -1], ["pop_matrix", 2],
           ["eso", "all"],
           ["rates", "redfield"], ["rates", "foerster"],
           ["abs"], ["dm", "thermal"], ["dm", "impulsive_excitation"]]
    ops = [o for o in ops if o is not None]
    ops += [["heom_plain"], ["propagate_plain"], ["propagate_pdeph", 1], ["propagate_pdeph", 5],
            ["propagate_pdephG", 1], ["propagate_pdephG", 5]]
    ops += [["tensor_nr", "standard_Redfield", False, False],
            ["propagate_nr", "standard_Redfield", False, "rho0"]]
    ops += [["bad", "tensor_cutoff"], ["bad", "tensor_theory"], ["bad", "dm_condition"],
            ["bad", "propagate_dim"], ["propagate", "standard_Redfield", False, "rho0", 2]]
    ops += [["propagate", "noneq_Foerster", True, "rho0", 1],
            ["propagate", "noneq_Foerster", True, "rho1", 1],
            ["refill", "rho0", 1], ["refill", "rho0", 2]]
    ctxable = [["tensor", "standard_Redfield", False, False],
               ["tensor", "combined_RedfieldFoerster", False, False],
               ["propagate", "standard_Redfield", False, "rho0", 1],
               ["propagate", "combined_RedfieldFoerster", False, "rho0", 1],
               ["propagate_free", "rho0"], ["sv"], ["eso", "all"], ["rates", "redfield"]]
    if tier == "thorough":
        ctxable += [["tensor", "standard_Foerster", False, False],
                    ["propagate", "standard_Foerster", False, "rho0", 1],
                    ["propagate", "standard_Redfield", True, "rho0", 1],
                    ["heom", "rho0"], ["abs"], ["dm", "thermal"], ["pop", 0]]
    for c in ("units", "basis"):
        for o in ctxable:
            ops.append(["in", c, o])
    # reads of the inputs between calls, outside and (together with the call) inside a context
    THE = [("standard_Redfield", False), ("standard_Redfield", True)]
    if tier == "thorough":
        THE += [("standard_Foerster", False), ("combined_RedfieldFoerster", False)]
    for theory, td in THE:
        ops.append(["read", theory, td])
        for c in ("units", "basis"):
            ops.append(["in2", c, ["read", theory, td],
                        ["propagate", theory, td, "rho0", 1]])
            ops.append(["in2", c, ["propagate", theory, td, "rho0", 1],
                        ["propagate", theory, td, "rho0", 1]])
    if tier == "thorough":
        ops += [["tensor", "standard_Foerster", True, False],
                ["tensor", "combined_RedfieldFoerster", False, True],
                ["dm", "thermal_excited_state"]]
    return ops


CFGS = {"quick": {"nsites": 2, "nt": 40, "dt": 2.0, "hdepth": 2},
        "thorough": {"nsites": 3, "nt": 60, "dt": 2.0, "hdepth": 2}}


def _name(op):
    if op[0] == "in":
        return "in-%s(%s)" % (op[1], _name(op[2]))
    if op[0] == "in2":
        return "in-%s(%s;%s)" % (op[1], _name(op[2]), _name(op[3]))
    return "/".join(str(x) for x in op)


def _kind(op):
    if op[0] == "in2":
        return "in-%s:%s-then-%s" % (op[1], op[2][0], op[3][0])
    return ("in-%s:" % op[1] + op[2][0]) if op[0] == "in" else op[0]


def _cmp_results(a, b):
    bad = []
    for k in a:
        if k.startswith("_"):
            continue
        if k not in b:
            bad.append((k, float("inf")))
            continue
        x, y = numpy.asarray(a[k]), numpy.asarray(b[k])
        if x.shape == y.shape and x.size:
            fx, fy = numpy.isfinite(x), numpy.isfinite(y)
            if not (fx.all() and fy.all()):
                # non-finite results (a calculation that overflows, e.g. made under non-internal
                # units) are compared position by position: same pattern and equal finite part
                # a DIVERGED calculation (a propagation made with the Hamiltonian read in
                # 1/cm, a 400 fs step for the hierarchy): from the time slice on where the
                # twin's result has left the physical range (entries of a density matrix are
                # O(1)) the calculation amplifies rounding-level differences of its inputs (a
                # basis round trip of the Hamiltonian) without bound, and "the same result"
                # has no numerical meaning.  The slices BEFORE that are compared as usual.
                if x.ndim < 2:
                    ok = bool((fx == fy).all()) and numpy.allclose(x[fx], y[fy], rtol=1e-9, atol=0)
                else:
                    ok = True
                if ok and x.ndim >= 2:
                    def _sc(arr, t):
                        f = numpy.isfinite(arr[t])
                        return float(numpy.max(numpy.abs(arr[t][f]))) if f.all() else float("inf")
                    thr = 1e3 * max(1.0, _sc(y, 0))
                    T = 0
                    while T < y.shape[0] and _sc(y, T) <= thr:
                        T += 1
                    if T > 0:
                        ok, _e = approx(x[:T], y[:T], TOL)
                if ok:
                    continue
                bad.append((k, float("inf")))
                continue
        ok, err = approx(a[k], b[k], TOL)
        if not ok:
            bad.append((k, err))
    return bad


def execute(hist):
    tier = execute.tier
    cfg = CFGS[tier]
    w = World(cfg)
    viol = []
    res = None
    crashed = None
    for i, op in enumerate(hist):
        last = (i == len(hist) - 1)
        if last:
            before = w.snapshot()
        try:
            res = w.call(list(op))
        except isolation.HarnessError:
            raise
        except Exception as e:
            res = None
            crashed = "%s: %s" % (type(e).__name__, str(e)[:120])
        if last:
            after = w.snapshot()
            changed = World.diff(before, after)
            if op[0] == "refill":
                changed = [c for c in changed if c != "%s._data" % op[1]]
            opname = _name(op)
            for c in changed:
                viol.append(("input-changed/%s/by-%s" % (c, _kind(op) if _kind(op) != "tensor" else opname),
                             "%s changed %s" % (opname, c), None))
            # results of EARLIER calls the caller still holds are what they were
            for hw in w.held_changed():
                viol.append(("earlier-result-changed-by-later-call/%s/by-%s"
                             % (hw.split(":")[0].split("/")[0] + ":" + hw.split(":")[1],
                                _kind(op)),
                             "the %s returned by an earlier call is different after %s "
                             "(history %r)" % (hw, opname, [_name(o) for o in hist]), None))
            # twin world: the same call as the first call on fresh objects, same settings
            isolation.reset_manager()
            tw = World(cfg)
            for prev in hist[:-1]:            # the user's own writes are part of the inputs
                if prev[0] == "refill":
                    tw.call(list(prev))
            twop = list(op)
            if twop[0] == "in2":      # the second call alone in such a context
                twop = ["in", twop[1], twop[3]]
            inner = twop[2] if twop[0] == "in" else twop
            if inner[0] == "propagate" and res is not None and \
                    res.get("_settings", {}).get("Nref", 1) > 1:
                inner = list(inner)
                inner[4] = res["_settings"]["Nref"]
                twop = ["in", twop[1], inner] if twop[0] == "in" else inner
            if inner[0] in ("propagate_pdeph", "propagate_pdephG") and res is not None and \
                    res.get("_settings", {}).get("Nref", 1) > 1:
                twop = [inner[0], res["_settings"]["Nref"]]
            try:
                ref = tw.call(twop)
                tcr = None
            except Exception as e:
                ref = None
                tcr = "%s: %s" % (type(e).__name__, str(e)[:120])
            if (res is None) != (ref is None):
                viol.append(("call-outcome-depends-on-history/%s" % _kind(op),
                             "%s after %r: %s ; on fresh objects: %s"
                             % (opname, [_name(o) for o in hist[:-1]], crashed or "returned",
                                tcr or "returned"), None))
            elif res is not None:
                for k, err in _cmp_results(res, ref):
                    viol.append(("result-depends-on-history/%s/%s" % (_kind(op), k),
                                 "%s after %r differs from the same call on fresh objects by %g "
                                 "in %s" % (opname, [_name(o) for o in hist[:-1]],
                                            err, k), {"err": err}))
    seen, v2 = set(), []
    for v in viol:
        if v[0] not in seen:
            seen.add(v[0])
            v2.append(v)
    done = sorted(set(_name(o) for o in hist if o[0] != "refill"))
    # the content of the initial states is part of the state (last refill per object)
    last = {}
    for o in hist:
        if o[0] == "refill":
            last[o[1]] = o[2]
    key = [done, sorted(last.items())]
    dig = None
    if res is not None:
        dig = [round(float(numpy.abs(v).sum()), 8) for k, v in res.items() if not k.startswith("_")]
    return {"key": key, "enabled": execute.menu, "violations": v2,
            "nontrivial": len(hist) >= 2, "outcome": [hist[-1] if hist else None, dig]}


execute.tier = "quick"
execute.menu = []


def replay(case):
    execute.tier = case.get("tier", "quick")
    execute.menu = menu(execute.tier)
    return execute(tuple(tuple(o) for o in case["history"]))["violations"]


def run(run):
    execute.tier = run.tier
    execute.menu = menu(run.tier)
    depth = 2 if run.tier == "quick" else 3
    run.rule = ("BFS over sequences of calls from a menu (tensor construction per theory/option, "
                "propagate per theory with two initial states, free / state-vector / population / "
                "hierarchy propagation, evolution superoperator, rate matrices, absorption "
                "spectrum, initial states) on one shared world; for the last call inputs are "
                "compared before/after and the result with the same call on a fresh twin world; "
                "state = set of calls made so far (if the property holds, order cannot matter; any "
                "deviation is flagged at the transition where it appears); non-trivial = history "
                "of at least two calls")
    run.assumptions = ["the effective step refinement of a propagator is a documented setting of "
                       "the propagator object: the twin is given the same setting",
                       "derived caches (integrated correlation functions) are not inputs"]
    run.bounds = {"depth": depth, "menu": len(execute.menu), "system": CFGS[run.tier]}
    n0 = len(run.viol)
    run_bfs(run, execute, depth, cap_s=45 if run.tier == "quick" else 660, section="full-menu")
    # deeper histories over a small menu that concentrates on re-used state objects: the same
    # initial-state object refilled by the user between calls, theories with an initial term
    full = execute.menu
    execute.menu = [["propagate", "noneq_Foerster", True, "rho0", 1],
                    ["propagate", "noneq_Foerster", True, "rho1", 1],
                    ["propagate", "standard_Redfield", False, "rho0", 1],
                    ["propagate", "standard_Foerster", False, "rho0", 1],
                    ["refill", "rho0", 1], ["refill", "rho0", 2], ["refill", "rho1", 2],
                    ["eso", "all"], ["heom", "rho0"]]
    run_bfs(run, execute, depth + 1, cap_s=25 if run.tier == "quick" else 240,
            section="refill-focus")
    # refused calls and propagator settings followed by every kind of use of the same objects
    execute.menu = [["bad", "tensor_cutoff"], ["bad", "tensor_theory"], ["bad", "dm_condition"],
                    ["bad", "propagate_dim"],
                    ["propagate", "standard_Redfield", False, "rho0", 2],
                    ["propagate", "standard_Redfield", False, "rho0", 1],
                    ["propagate", "combined_RedfieldFoerster", False, "rho0", 1],
                    ["in", "basis", ["propagate", "standard_Redfield", False, "rho0", 1]],
                    ["in", "basis", ["propagate_free", "rho0"]],
                    ["tensor", "combined_RedfieldFoerster", False, False], ["sv"],
                    ["dm", "thermal"], ["heom", "rho0"], ["heom_free", "rho0"],
                    ["pop", 0], ["pop", 1], ["pop_matrix", 2], ["pop_matrix", -1],
                    ["tensor_nr", "standard_Redfield", False, False],
                    ["tensor_nr", "standard_Redfield", False, True],
                    ["tensor", "standard_Redfield", False, True],
                    ["tensor", "standard_Redfield", True, False],
                    ["propagate_nr", "standard_Redfield", False, "rho0"],
                    ["propagate", "standard_Redfield", True, "rho0", 1],
                    ["heom_plain"], ["propagate_plain"],
                    ["propagate_pdeph", 1], ["propagate_pdeph", 5],
                    ["propagate_pdephG", 1], ["propagate_pdephG", 5],
                    ["tensor_cut", 100], ["tensor_cut", 40], ["heom_coarse"]]
    run_bfs(run, execute, depth, cap_s=25 if run.tier == "quick" else 240,
            section="refusals-and-settings")
    execute.menu = full
    for j in range(n0, len(run.viol)):
        k, what, case, det = run.viol[j]
        case = dict(case or {})
        case["tier"] = run.tier
        run.viol[j] = (k, what, case, det)
