"""C09 Bath correlation functions add linearly and carry consistent parameters.

Exhaustive enumeration of ALL addition histories up to a bound: every binary expression
tree over `+` (every grouping, every order, leaves with repetition) with <= 3 (quick) /
<= 4 (thorough) leaves, every in-place chain `x += y` (incl. `x += x`), every unit context
used for constructing the leaves and for executing the additions, for CorrelationFunction
and SpectralDensity.  Oracle: ledger of leaves (data and declared reorganisation energies of
the individually built components).
"""
import itertools

import numpy

from mc import isolation
from mc.explore import run_grid, approx

LEVEL = "model_checking"
TOL = 1e-10

# leaf alphabets: physical values in 1/cm, fs, K
CF_LEAVES = {
    "a": dict(ftype="OverdampedBrownian", reorg=20.0, cortime=50.0, T=300.0, matsubara=20),
    "b": dict(ftype="OverdampedBrownian-HighTemperature", reorg=35.0, cortime=100.0, T=300.0),
    "c": dict(ftype="OverdampedBrownian", reorg=10.0, cortime=30.0, T=300.0),
    "v": "value-defined",
    "d": dict(ftype="OverdampedBrownian-HighTemperature", reorg=35.0, cortime=100.0, T=77.0),
}
SD_LEAVES = {
    "a": dict(ftype="OverdampedBrownian", reorg=20.0, cortime=50.0, T=300.0),
    "b": dict(ftype="UnderdampedBrownian", reorg=35.0, gamma=30.0, freq=300.0, T=300.0),
    "c": dict(ftype="OverdampedBrownian", reorg=10.0, cortime=30.0, T=300.0),
}
ENERGY_KEYS = ("reorg", "freq", "gamma")
NT, DT = 1500, 1.0


def _conv(val, unit):
    qr = isolation.qr()
    return float(qr.convert(val, "1/cm", to=unit))


def make_leaf(cls, name, unit, ta):
    """Build one leaf under energy_units(unit), its parameters given in that unit."""
    qr = isolation.qr()
    if cls == "cf":
        spec = CF_LEAVES[name]
        if spec == "value-defined":
            t = ta.data
            vals = (3e-5 * numpy.exp(-t / 80.0) * numpy.cos(t / 37.0)
                    - 1j * 2e-5 * numpy.exp(-t / 60.0))
            with qr.energy_units(unit):
                return qr.CorrelationFunction(ta, dict(ftype="Value-defined",
                                                       reorg=_conv(15.0, unit), T=300.0),
                                              values=vals)
        p = dict(spec)
        for k in ENERGY_KEYS:
            if k in p:
                p[k] = _conv(p[k], unit)
        with qr.energy_units(unit):
            return qr.CorrelationFunction(ta, p)
    else:
        p = dict(SD_LEAVES[name])
        for k in ENERGY_KEYS:
            if k in p:
                p[k] = _conv(p[k], unit)
        with qr.energy_units(unit):
            return qr.SpectralDensity(ta, p)


def _snap(f):
    return (numpy.array(f.data, copy=True), float(f.lamb), len(f.params),
            float(getattr(f, "temperature", -1.0)))


def _same(f, s):
    return (numpy.array_equal(numpy.asarray(f.data), s[0]) and float(f.lamb) == s[1]
            and len(f.params) == s[2] and float(getattr(f, "temperature", -1.0)) == s[3])


def leaves_of(tree):
    if isinstance(tree, str):
        return [tree]
    return leaves_of(tree[1]) + leaves_of(tree[2])


def has(tree, leaf):
    return leaf in leaves_of(tree)


class Refused(Exception):
    pass


def build(cls, tree, unit_of, ta, addctx, viol, counter):
    """Evaluate the expression on real objects.  Every `+` is executed inside the addition
    context; operands are checked for being unchanged."""
    qr = isolation.qr()
    if isinstance(tree, str):
        i = counter[0]
        counter[0] += 1
        return make_leaf(cls, tree, unit_of(i), ta)
    op, l, r = tree
    L = build(cls, l, unit_of, ta, addctx, viol, counter)
    R = L if (op == "+=" and r == "self") else build(cls, r, unit_of, ta, addctx, viol, counter)
    sl, sr = _snap(L), _snap(R)
    cm = qr.energy_units(addctx) if addctx else None
    if cm:
        cm.__enter__()
    try:
        try:
            if op == "+":
                out = L + R
            else:
                L += R
                out = L
        except Exception as e:
            # a refusal must leave the operands as they were
            if not _same(L, sl):
                viol.append(("refused-addition-changed-left-operand/%s/%s" % (cls, op),
                             "refused %s changed its left operand (%s)" % (op, str(e)[:80]), None))
            if R is not L and not _same(R, sr):
                viol.append(("refused-addition-changed-right-operand/%s/%s" % (cls, op),
                             "refused %s changed its right operand" % op, None))
            raise Refused(str(e))
    finally:
        if cm:
            cm.__exit__(None, None, None)
    if op == "+" and not _same(L, sl):
        viol.append(("addition-changed-left-operand/%s" % cls, "a+b changed a", None))
    if R is not L and not _same(R, sr):
        viol.append(("addition-changed-right-operand/%s/%s" % (cls, op),
                     "%s changed its right operand" % op, None))
    return out


def tree_str(t):
    if isinstance(t, str):
        return t
    return "(%s%s%s)" % (tree_str(t[1]), t[0], tree_str(t[2]) if t[2] != "self" else "<self>")


def eval_case(case):
    qr = isolation.qr()
    cls, tree, uni, addctx = case["cls"], case["tree"], case["leaf_units"], case["add_ctx"]
    ta = qr.TimeAxis(0.0, NT, DT)
    viol = []
    units = {"int": ["int"], "1/cm": ["1/cm"], "eV": ["eV"], "mixed": ["1/cm", "eV", "int"]}[uni]

    def unit_of(i):
        return units[i % len(units)]
    lv = leaves_of(tree)
    lv = [x for x in lv if x != "self"]
    if tree[0] == "+=" and tree[2] == "self":
        lv = leaves_of(tree[1]) * 2
    # ledger: individually built components
    comps = [make_leaf(cls, n, "1/cm", ta) for n in lv]
    exp_data = sum((numpy.asarray(c.data) for c in comps[1:]), numpy.array(comps[0].data, copy=True))
    exp_lamb = sum(float(c.lamb) for c in comps)
    temps = set(float(getattr(c, "temperature", -1)) for c in comps) if cls == "cf" else {300.0}
    variant = "%s/add-in-%s" % (cls, addctx or "no-context")
    mixed = len(set(CF_LEAVES[n]["ftype"] if isinstance(CF_LEAVES.get(n), dict) else n
                    for n in lv)) > 1 if cls == "cf" else len(set(lv)) > 1
    try:
        res = build(cls, tree, unit_of, ta, addctx, viol, [0])
    except Refused as e:
        if cls == "cf" and len(temps) > 1:
            return {"nontrivial": True, "outcome": ["refused-different-T", tree_str(tree)],
                    "violations": _dedup(viol)}
        viol.append(("admissible-addition-refused/%s" % variant,
                     "%s raised: %s" % (tree_str(tree), e), None))
        return {"nontrivial": True, "outcome": ["refused", tree_str(tree)],
                "violations": _dedup(viol)}
    if cls == "cf" and len(temps) > 1:
        viol.append(("different-temperatures-accepted/%s" % variant,
                     "%s was accepted although temperatures %s differ"
                     % (tree_str(tree), sorted(temps)), None))
        return {"nontrivial": True, "outcome": ["accepted-different-T", tree_str(tree)],
                "violations": _dedup(viol)}
    kind = "mixed-types" if mixed else "same-type"
    ok, err = approx(res.data, exp_data, TOL)
    if not ok:
        viol.append(("data-not-sum-of-components/%s/%s" % (variant, kind),
                     "%s: data differs from the sum of the components' data by %g (scale %g)"
                     % (tree_str(tree), err, float(numpy.max(numpy.abs(exp_data)))),
                     {"err": err}))
    if abs(float(res.lamb) - exp_lamb) > 1e-10 * abs(exp_lamb):
        viol.append(("reorganisation-energy-not-additive/%s" % variant,
                     "%s: lamb %r, sum of components %r" % (tree_str(tree), float(res.lamb), exp_lamb),
                     None))
    with qr.energy_units("1/cm"):
        declared = float(res.get_reorganization_energy())
    decl_exp = sum(15.0 if n == "v" else (CF_LEAVES if cls == "cf" else SD_LEAVES)[n]["reorg"]
                   for n in lv)
    if abs(declared - decl_exp) > 1e-6 * decl_exp:
        viol.append(("declared-reorganisation-energy/%s" % variant,
                     "%s: get_reorganization_energy() = %r 1/cm, declared sum %r"
                     % (tree_str(tree), declared, decl_exp), None))
    if len(res.params) != len(lv):
        viol.append(("component-list-length/%s" % variant,
                     "%s: %d components recorded, %d added" % (tree_str(tree), len(res.params),
                                                               len(lv)), None))
    else:
        got = sorted((p["ftype"], round(float(p["reorg"]), 12)) for p in res.params)
        exp = sorted((p["ftype"], round(float(p["reorg"]), 12)) for c in comps for p in c.params)
        if got != exp:
            viol.append(("component-list-content/%s" % variant,
                         "%s: recorded components %r, added %r" % (tree_str(tree), got, exp), None))
    if cls == "cf" and float(res.temperature) != 300.0:
        viol.append(("temperature-of-sum/%s" % variant, "temperature %r" % res.temperature, None))
    # the component list regenerates the same function (carries consistent parameters)
    if "v" not in lv:
        try:
            cp = res.copy()
            ok, err = approx(cp.data, exp_data, TOL)
            if not ok:
                viol.append(("rebuild-from-components-differs/%s/%s" % (cls, kind),
                             "%s: a copy rebuilt from the recorded components differs from the "
                             "sum by %g" % (tree_str(tree), err), {"err": err}))
        except Exception as e:
            viol.append(("rebuild-from-components-raises/%s" % cls, str(e)[:100], None))
    # measured vs declared reorganisation energy, parities of the FT parts (analytic only)
    if cls == "cf" and "v" not in lv and case.get("deep"):
        with qr.energy_units("1/cm"):
            meas = float(res.measure_reorganization_energy())
        if abs(meas - decl_exp) > 1e-3 * decl_exp:
            viol.append(("measured-reorganisation-energy/%s" % kind,
                         "%s: measured %r 1/cm, declared %r" % (tree_str(tree), meas, decl_exp),
                         None))
        from quantarhei.qm.corfunctions.correlationfunctions import (
            EvenFTCorrelationFunction, OddFTCorrelationFunction)
        with qr.energy_units("int"):
            for nm, clsft, sgn in (("even", EvenFTCorrelationFunction, 1.0),
                                   ("odd", OddFTCorrelationFunction, -1.0)):
                ft = clsft(ta, res.params)
                w = ft.axis.data
                y = numpy.asarray(ft.data)
                n0 = int(numpy.argmin(numpy.abs(w)))
                m = min(n0, len(w) - 1 - n0)
                k = numpy.arange(1, m + 1)
                dev = numpy.max(numpy.abs(y[n0 + k] - sgn * y[n0 - k]))
                sc = numpy.max(numpy.abs(y))
                if dev > 1e-9 * sc or numpy.max(numpy.abs(numpy.imag(y))) > 1e-9 * sc:
                    viol.append(("ft-part-parity/%s/%s" % (nm, kind),
                                 "%s: %s FT part deviates from %s parity by %g (scale %g)"
                                 % (tree_str(tree), nm, nm, dev, sc), None))
    return {"nontrivial": len(lv) >= 2, "violations": _dedup(viol),
            "outcome": [tree_str(tree), uni, addctx, round(float(res.lamb), 9),
                        round(float(numpy.abs(numpy.asarray(res.data)).sum()), 9)]}


def _dedup(viol):
    seen, out = set(), []
    for v in viol:
        if v[0] not in seen:
            seen.add(v[0])
            out.append(v)
    return out


def replay(case):
    return eval_case(case)["violations"]


def all_trees(leaves, n):
    """Every binary tree over '+' with exactly n leaves drawn (with repetition) from leaves."""
    if n == 1:
        return list(leaves)
    out = []
    for k in range(1, n):
        for l in all_trees(leaves, k):
            for r in all_trees(leaves, n - k):
                out.append(["+", l, r])
    return out


def admissible(tree):
    """value-defined functions only as right-hand operands: no '+' whose LEFT operand
    contains v (it would have to be rebuilt from parameters)."""
    if isinstance(tree, str):
        return True
    op, l, r = tree
    if has(l, "v") and op == "+":
        return False
    if op == "+=" and r == "self" and has(l, "v"):
        return False
    return admissible(l) and (r == "self" or admissible(r))


def cases(tier):
    kmax = 3 if tier == "quick" else 4
    cs = []
    for cls, alpha in (("cf", ["a", "b", "c", "v"]), ("sd", ["a", "b", "c"])):
        trees = []
        for n in range(1, kmax + 1):
            trees += [t for t in all_trees(alpha, n)]
        trees = [t for t in trees if admissible(t)]
        # in-place chains: x += y ; (x += y) += z ; x += x
        base = [t for t in trees if len(leaves_of(t)) <= kmax - 1]
        inpl = []
        for x in base:
            for y in base:
                if len(leaves_of(x)) + len(leaves_of(y)) <= kmax:
                    inpl.append(["+=", x, y])
            if len(leaves_of(x)) * 2 <= kmax + 1:
                inpl.append(["+=", x, "self"])
        inpl2 = []
        if tier == "thorough":
            for t in inpl:
                if t[2] != "self" and len(leaves_of(t)) <= kmax - 1:
                    for y in alpha:
                        inpl2.append(["+=", t, y])
        inpl = [t for t in inpl + inpl2 if admissible(t)]
        for t in trees + inpl:
            n = len(leaves_of(t))
            for uni in (["1/cm", "mixed"] if tier == "quick" else ["int", "1/cm", "eV", "mixed"]):
                for addctx in (None, "1/cm"):
                    if n == 1 and addctx:
                        continue
                    cs.append({"cls": cls, "tree": t, "leaf_units": uni, "add_ctx": addctx,
                               "deep": uni == "1/cm" and addctx is None})
        # different temperatures: every position of the odd leaf in trees up to 3 leaves
        if cls == "cf":
            for n in (2, 3):
                for t in all_trees(["a", "b", "d"], n):
                    lv = leaves_of(t)
                    if "d" in lv and len(set(lv)) > 1 and not all(x == "d" for x in lv):
                        cs.append({"cls": cls, "tree": t, "leaf_units": "1/cm", "add_ctx": None})
            for x, y in itertools.permutations(["a", "b", "d"], 2):
                if "d" in (x, y):
                    cs.append({"cls": cls, "tree": ["+=", x, y], "leaf_units": "1/cm",
                               "add_ctx": None})
    cs.sort(key=lambda c: (len(leaves_of(c["tree"])), c["add_ctx"] is not None))
    return cs


def run(run):
    run.rule = ("every binary '+' tree (all groupings, all orders, leaves with repetition) and "
                "every in-place chain over the leaf alphabet, x units used to build the leaves x "
                "units context of the additions, for CorrelationFunction and SpectralDensity; "
                "non-trivial = at least two leaves")
    run.assumptions = ["components' own data (each built separately by the library) are the "
                       "additivity ledger; the analytic formulas themselves belong to C06",
                       "value-defined functions only as right-hand operands (as the property says)",
                       "temperature refusal is checked for correlation functions only (a spectral "
                       "density does not depend on temperature)"]
    run.bounds = {"max_leaves": 3 if run.tier == "quick" else 4, "time_axis": [NT, DT]}
    run_grid(run, cases(run.tier), eval_case, cap_s=55 if run.tier == "quick" else 720)
