"""C09 Bath correlation functions add linearly and carry consistent parameters.

Exhaustive enumeration of ALL addition histories up to a bound: every binary expression
tree over `+` (every grouping, every order, leaves with repetition) with <= 3 (quick) /
<= 4 (thorough) leaves, every in-place chain `x += y` (incl. `x += x`), every unit context
used for constructing the leaves and for executing the additions, for CorrelationFunction
and SpectralDensity.  Oracle: ledger of leaves (data and declared reorganisation energies of
the individually built components).

Construction-context dimension (added for the class "a component's data depend on the units
context it was CONSTRUCTED in"): every leaf carries its own construction unit; the product
(component ftype x construction unit x role in the expression) is complete:
  * 1 and 2 leaves (x, x+y, x+=y, x+=x): complete per-leaf product  (ftype x unit)^n,
  * 3 leaves: every uniform unit and every rotation of the unit list (a Latin square: every
    leaf position sees every unit, next to every combination of ftypes at the other positions);
    thorough: the complete per-leaf product over the first three units as well,
  * 4 leaves (thorough, core alphabet): uniform + rotations,
over ALL component ftypes that CorrelationFunction / SpectralDensity can build from parameters
(OverdampedBrownian, -HighTemperature, UnderdampedBrownian, Underdamped, B777, CP29).  A role
decides whether the component is used as constructed (right operand, in-place target) or is
re-generated from its parameter list (left operand of +, x+=x, copy()), so additivity is
evaluated both ways.  Three ledgers: (1) the operands' data AS CONSTRUCTED in the case (the
literal statement), (2) the same components built separately inside energy_units('1/cm'),
(3) per leaf, the component built in internal units from the converted parameters.
"""
import itertools

import numpy

from mc import isolation
from mc.explore import run_grid, approx

LEVEL = "model_checking"
TOL = 1e-10

# leaf alphabets: physical values in 1/cm, fs, K
CF_LEAVES = {
    "a": dict(ftype="OverdampedBrownian", reorg=20.0, cortime=50.0, T=300.0, matsubara=20),
    "b": dict(ftype="OverdampedBrownian-HighTemperature", reorg=35.0, cortime=100.0, T=300.0),
    "c": dict(ftype="OverdampedBrownian", reorg=10.0, cortime=30.0, T=300.0),
    "v": "value-defined",
    "d": dict(ftype="OverdampedBrownian-HighTemperature", reorg=35.0, cortime=100.0, T=77.0),
    # components generated through a helper SpectralDensity
    "u": dict(ftype="UnderdampedBrownian", reorg=25.0, gamma=40.0, freq=400.0, T=300.0),
    "w": dict(ftype="Underdamped", reorg=15.0, gamma=30.0, freq=500.0, T=300.0),
    # probed only (see OPTIONAL)
    "x": dict(ftype="B777", reorg=102.0, gamma=30.0, T=300.0, alternative_form=False),
    "y": dict(ftype="B777", reorg=102.0, gamma=30.0, T=300.0, alternative_form=True),
    "z": dict(ftype="CP29", reorg=50.0, gamma=30.0, T=300.0),
    "o": dict(ftype="OverdampedBrownian_from_Specdens", reorg=20.0, cortime=50.0, T=300.0),
}
SD_LEAVES = {
    "a": dict(ftype="OverdampedBrownian", reorg=20.0, cortime=50.0, T=300.0),
    "b": dict(ftype="UnderdampedBrownian", reorg=35.0, gamma=30.0, freq=300.0, T=300.0),
    "c": dict(ftype="OverdampedBrownian", reorg=10.0, cortime=30.0, T=300.0),
    "w": dict(ftype="Underdamped", reorg=15.0, gamma=30.0, freq=500.0, T=300.0),
    "p": dict(ftype="B777", reorg=102.0, gamma=30.0, T=300.0, alternative_form=True),
    "q": dict(ftype="CP29", reorg=50.0, gamma=30.0, T=300.0),
    # probed only (see OPTIONAL)
    "x": dict(ftype="B777", reorg=102.0, gamma=30.0, T=300.0, alternative_form=False),
    "o": dict(ftype="OverdampedBrownian_from_Specdens", reorg=20.0, cortime=50.0, T=300.0),
    "h": dict(ftype="OverdampedBrownian-HighTemperature", reorg=35.0, cortime=100.0, T=300.0),
}
ENERGY_KEYS = ("reorg", "freq", "gamma")
NT, DT = 1500, 1.0

# Alphabets.  CORE: the leaves the driver has always enumerated (+ UnderdampedBrownian for the
# correlation function); they go up to the maximal number of leaves.  EXT: the remaining ftypes
# that can be built from parameters (up to 3 leaves).  OPTIONAL: (class, ftype-variant)
# combinations which the library lists in `allowed_types` but cannot construct at all on the
# reference tree (CorrelationFunction B777/CP29: AttributeError 'energy_units';
# SpectralDensity B777 Renger form: numpy.math; no dispatch branch for
# OverdampedBrownian_from_Specdens / SpectralDensity -HighTemperature).  A component that cannot
# be built has no data to add: nothing of C09 applies.  They are probed (x, x+x, x+=x in every
# construction unit); as soon as one can be built in internal units on the tree under test it
# joins the alphabet up to two leaves and all oracles apply to it.
CORE = {"cf": ["a", "b", "c", "v", "u"], "sd": ["a", "b", "c"]}
EXT = {"cf": ["w"], "sd": ["w", "p", "q"]}
OPTIONAL = {"cf": ["x", "y", "z", "o"], "sd": ["x", "o", "h"]}
UNITS = {"quick": ["int", "1/cm", "eV"], "thorough": ["int", "1/cm", "eV", "THz"]}
LEGACY_PATTERNS = {"int": ["int"], "1/cm": ["1/cm"], "eV": ["eV"], "mixed": ["1/cm", "eV", "int"]}


def spec_of(cls, name):
    return (CF_LEAVES if cls == "cf" else SD_LEAVES)[name]


def ftype_of(cls, name):
    sp = spec_of(cls, name)
    return sp["ftype"] if isinstance(sp, dict) else "Value-defined"


def _conv(val, unit):
    qr = isolation.qr()
    return float(qr.convert(val, "1/cm", to=unit))


def make_leaf(cls, name, unit, ta):
    """Build one leaf under energy_units(unit), its parameters given in that unit."""
    qr = isolation.qr()
    if cls == "cf":
        spec = CF_LEAVES[name]
        if spec == "value-defined":
            t = ta.data
            vals = (3e-5 * numpy.exp(-t / 80.0) * numpy.cos(t / 37.0)
                    - 1j * 2e-5 * numpy.exp(-t / 60.0))
            with qr.energy_units(unit):
                return qr.CorrelationFunction(ta, dict(ftype="Value-defined",
                                                       reorg=_conv(15.0, unit), T=300.0),
                                              values=vals)
        p = dict(spec)
        for k in ENERGY_KEYS:
            if k in p:
                p[k] = _conv(p[k], unit)
        with qr.energy_units(unit):
            return qr.CorrelationFunction(ta, p)
    else:
        p = dict(SD_LEAVES[name])
        for k in ENERGY_KEYS:
            if k in p:
                p[k] = _conv(p[k], unit)
        with qr.energy_units(unit):
            return qr.SpectralDensity(ta, p)


class Comp(object):
    """Record of a separately built component (ledger entry)."""

    def __init__(self, f):
        self.data = numpy.array(f.data, copy=True)
        self.lamb = float(f.lamb)
        self.temperature = float(getattr(f, "temperature", -1.0))
        self.params = [dict(p) for p in f.params]


_LEDGER = {}


def ledger(cls, name, unit, ta):
    """The component `name` built on its own inside energy_units(unit).  Construction is a
    deterministic function of (class, parameters, unit) on the fixed time axis, so the record
    is kept per worker process (records are never handed to the library)."""
    key = (cls, name, unit)
    if key not in _LEDGER:
        _LEDGER[key] = Comp(make_leaf(cls, name, unit, ta))
    return _LEDGER[key]


def check_leaf(cls, name, unit, f, ta, viol):
    """Construction-context independence of one component.

    Why this follows from the property statement (and is not an extra demand): the statement
    quantifies over "all unit contexts used for construction" and requires x + x, x += x to
    have twice x's data.  The library stores the parameter list in internal units and
    regenerates the left operand / the self-operand from that list inside
    energy_units('int'); hence  regenerated(x).data + x.data == 2 x.data,  i.e. the component
    as constructed inside energy_units(U) from parameters given in U must have the data of the
    component built in internal units from the stored parameters - and the stored parameters
    must be the conversions of the declared ones ("carry consistent parameters"; for the
    reorganisation energy that is the existing declared-energy check).  The ledger the driver
    has always used (components built in 1/cm, leaves in 1/cm / eV / internal) presupposes
    exactly the same."""
    ft = ftype_of(cls, name)
    tag = "%s/%s/built-in-%s" % (cls, ft, unit)
    ref = ledger(cls, name, "int", ta)
    ok, err = approx(f.data, ref.data, TOL)
    if not ok:
        viol.append(("component-data-depend-on-construction-context/" + tag,
                     "%s component %r built from parameters in %s inside energy_units(%r) "
                     "differs from the one built in internal units from the converted "
                     "parameters by %g (scale %g)"
                     % (cls, name, unit, unit, err, float(numpy.max(numpy.abs(ref.data)))),
                     {"err": err}))
    if abs(float(f.lamb) - ref.lamb) > 1e-12 * abs(ref.lamb):
        viol.append(("component-reorganisation-energy-depends-on-construction-context/" + tag,
                     "lamb %r, built in internal units %r" % (float(f.lamb), ref.lamb), None))
    spec = spec_of(cls, name)
    decl = dict(reorg=15.0) if not isinstance(spec, dict) else spec
    if len(f.params) != 1:
        viol.append(("component-parameter-list-length/" + tag,
                     "%d parameter sets recorded for a single component" % len(f.params), None))
    else:
        for k in ENERGY_KEYS:
            if k in decl:
                want = _conv(decl[k], "int")
                got = f.params[0].get(k)
                if got is None or abs(float(got) - want) > 1e-12 * abs(want):
                    viol.append(("component-parameters-not-in-internal-units/%s/%s" % (tag, k),
                                 "recorded %s = %r, declared value in internal units %r"
                                 % (k, got, want), None))


def _snap(f):
    return (numpy.array(f.data, copy=True), float(f.lamb), len(f.params),
            float(getattr(f, "temperature", -1.0)))


def _same(f, s):
    return (numpy.array_equal(numpy.asarray(f.data), s[0]) and float(f.lamb) == s[1]
            and len(f.params) == s[2] and float(getattr(f, "temperature", -1.0)) == s[3])


def leaves_of(tree):
    if isinstance(tree, str):
        return [tree]
    return leaves_of(tree[1]) + leaves_of(tree[2])


def built_leaves(tree):
    """Leaves in the order they are constructed ('self' constructs nothing)."""
    return [x for x in leaves_of(tree) if x != "self"]


def has(tree, leaf):
    return leaf in leaves_of(tree)


class Refused(Exception):
    pass


def build(cls, tree, unit_of, ta, addctx, viol, counter, made):
    """Evaluate the expression on real objects.  Every `+` is executed inside the addition
    context; operands are checked for being unchanged.  `made` collects, per constructed leaf,
    (name, unit, data as constructed, lamb as constructed).  Returns (object, multiset of
    indices into `made` the object is the sum of)."""
    qr = isolation.qr()
    if isinstance(tree, str):
        i = counter[0]
        counter[0] += 1
        f = make_leaf(cls, tree, unit_of(i), ta)
        made.append((tree, unit_of(i), numpy.array(f.data, copy=True), float(f.lamb)))
        check_leaf(cls, tree, unit_of(i), f, ta, viol)
        return f, [i]
    op, l, r = tree
    L, il = build(cls, l, unit_of, ta, addctx, viol, counter, made)
    if op == "+=" and r == "self":
        R, ir = L, list(il)
    else:
        R, ir = build(cls, r, unit_of, ta, addctx, viol, counter, made)
    sl, sr = _snap(L), _snap(R)
    cm = qr.energy_units(addctx) if addctx else None
    if cm:
        cm.__enter__()
    try:
        try:
            if op == "+":
                out = L + R
            else:
                L += R
                out = L
        except Exception as e:
            # a refusal must leave the operands as they were
            if not _same(L, sl):
                viol.append(("refused-addition-changed-left-operand/%s/%s" % (cls, op),
                             "refused %s changed its left operand (%s)" % (op, str(e)[:80]), None))
            if R is not L and not _same(R, sr):
                viol.append(("refused-addition-changed-right-operand/%s/%s" % (cls, op),
                             "refused %s changed its right operand" % op, None))
            raise Refused(str(e))
    finally:
        if cm:
            cm.__exit__(None, None, None)
    if op == "+" and not _same(L, sl):
        viol.append(("addition-changed-left-operand/%s" % cls, "a+b changed a", None))
    if R is not L and not _same(R, sr):
        viol.append(("addition-changed-right-operand/%s/%s" % (cls, op),
                     "%s changed its right operand" % op, None))
    return out, il + ir


def tree_str(t):
    if isinstance(t, str):
        return t
    return "(%s%s%s)" % (tree_str(t[1]), t[0], tree_str(t[2]) if t[2] != "self" else "<self>")


def leaf_units(case, n):
    """Construction unit of every built leaf: an explicit list, or a legacy pattern name."""
    uni = case["leaf_units"]
    pat = LEGACY_PATTERNS[uni] if isinstance(uni, str) else list(uni)
    return [pat[i % len(pat)] for i in range(n)]


def eval_case(case):
    qr = isolation.qr()
    cls, tree, addctx = case["cls"], case["tree"], case["add_ctx"]
    ta = qr.TimeAxis(0.0, NT, DT)
    viol = []
    built = built_leaves(tree)
    units = leaf_units(case, len(built))
    ustr = ",".join(units)
    special = sorted(set(ftype_of(cls, n) for n in built
                         if n in EXT[cls] or n in OPTIONAL[cls]))
    suffix = "/with-" + "+".join(special) if special else ""

    def done(res):
        res["violations"] = _finish(viol, suffix)
        return res

    if case.get("optional"):
        # a component type that cannot be constructed at all has nothing to add
        try:
            for n in set(built):
                ledger(cls, n, "int", ta)
        except Exception as e:
            return {"nontrivial": False, "violations": [],
                    "outcome": ["component-type-unavailable", cls, tree_str(tree), ustr,
                                type(e).__name__]}

    def unit_of(i):
        return units[i]
    lv = leaves_of(tree)
    lv = [x for x in lv if x != "self"]
    if tree[0] == "+=" and tree[2] == "self":
        lv = leaves_of(tree[1]) * 2
    # ledger (2): individually built components
    comps = [ledger(cls, n, "1/cm", ta) for n in lv]
    exp_data = sum((c.data for c in comps[1:]), numpy.array(comps[0].data, copy=True))
    exp_lamb = sum(c.lamb for c in comps)
    temps = set(c.temperature for c in comps) if cls == "cf" else {300.0}
    variant = "%s/add-in-%s" % (cls, addctx or "no-context")
    mixed = len(set(CF_LEAVES[n]["ftype"] if isinstance(CF_LEAVES.get(n), dict) else n
                    for n in lv)) > 1 if cls == "cf" else len(set(lv)) > 1
    made = []
    try:
        res, idx = build(cls, tree, unit_of, ta, addctx, viol, [0], made)
    except Refused as e:
        if cls == "cf" and len(temps) > 1:
            return done({"nontrivial": True, "outcome": ["refused-different-T", tree_str(tree)]})
        viol.append(("admissible-addition-refused/%s" % variant,
                     "%s raised: %s" % (tree_str(tree), e), None))
        return done({"nontrivial": True, "outcome": ["refused", tree_str(tree), ustr]})
    if cls == "cf" and len(temps) > 1:
        viol.append(("different-temperatures-accepted/%s" % variant,
                     "%s was accepted although temperatures %s differ"
                     % (tree_str(tree), sorted(temps)), None))
        return done({"nontrivial": True, "outcome": ["accepted-different-T", tree_str(tree)]})
    kind = "mixed-types" if mixed else "same-type"
    where = "%s [leaves built in %s]" % (tree_str(tree), ustr)
    # ledger (1): the operands exactly as they were constructed in this case
    own_data = sum((made[i][2] for i in idx[1:]), numpy.array(made[idx[0]][2], copy=True))
    own_lamb = sum(made[i][3] for i in idx)
    ok, err = approx(res.data, own_data, TOL)
    if not ok:
        viol.append(("data-not-sum-of-operands-as-constructed/%s/%s" % (variant, kind),
                     "%s: data differs from the sum of the data the operands had when they "
                     "were constructed by %g (scale %g)"
                     % (where, err, float(numpy.max(numpy.abs(own_data)))), {"err": err}))
    if abs(float(res.lamb) - own_lamb) > 1e-10 * abs(own_lamb):
        viol.append(("reorganisation-energy-not-sum-of-operands-as-constructed/%s" % variant,
                     "%s: lamb %r, sum of the operands' %r" % (where, float(res.lamb), own_lamb),
                     None))
    ok, err = approx(res.data, exp_data, TOL)
    if not ok:
        viol.append(("data-not-sum-of-components/%s/%s" % (variant, kind),
                     "%s: data differs from the sum of the components' data by %g (scale %g)"
                     % (where, err, float(numpy.max(numpy.abs(exp_data)))),
                     {"err": err}))
    if abs(float(res.lamb) - exp_lamb) > 1e-10 * abs(exp_lamb):
        viol.append(("reorganisation-energy-not-additive/%s" % variant,
                     "%s: lamb %r, sum of components %r" % (where, float(res.lamb), exp_lamb),
                     None))
    with qr.energy_units("1/cm"):
        declared = float(res.get_reorganization_energy())
    decl_exp = sum(15.0 if n == "v" else spec_of(cls, n)["reorg"] for n in lv)
    if abs(declared - decl_exp) > 1e-6 * decl_exp:
        viol.append(("declared-reorganisation-energy/%s" % variant,
                     "%s: get_reorganization_energy() = %r 1/cm, declared sum %r"
                     % (where, declared, decl_exp), None))
    if len(res.params) != len(lv):
        viol.append(("component-list-length/%s" % variant,
                     "%s: %d components recorded, %d added" % (where, len(res.params),
                                                               len(lv)), None))
    else:
        got = sorted((p["ftype"], round(float(p["reorg"]), 12)) for p in res.params)
        exp = sorted((p["ftype"], round(float(p["reorg"]), 12)) for c in comps for p in c.params)
        if got != exp:
            viol.append(("component-list-content/%s" % variant,
                         "%s: recorded components %r, added %r" % (where, got, exp), None))
    if cls == "cf" and float(res.temperature) != 300.0:
        viol.append(("temperature-of-sum/%s" % variant, "temperature %r" % res.temperature, None))
    # the component list regenerates the same function (carries consistent parameters)
    if "v" not in lv:
        own_now = numpy.array(res.data, copy=True)
        for cctx in ([None, addctx] if addctx else [None]):
            ctag = "" if cctx is None else "/copy-in-%s" % cctx
            try:
                if cctx:
                    with qr.energy_units(cctx):
                        cp = res.copy()
                else:
                    cp = res.copy()
            except Exception as e:
                viol.append(("rebuild-from-components-raises/%s%s" % (cls, ctag),
                             str(e)[:100], None))
                continue
            ok, err = approx(cp.data, exp_data, TOL)
            if not ok:
                viol.append(("rebuild-from-components-differs/%s/%s%s" % (cls, kind, ctag),
                             "%s: a copy rebuilt from the recorded components differs from the "
                             "sum by %g" % (where, err), {"err": err}))
            ok, err = approx(cp.data, own_now, TOL)
            if not ok:
                viol.append(("copy-differs-from-original/%s/%s%s" % (cls, kind, ctag),
                             "%s: copy() differs from the object it copies by %g (scale %g)"
                             % (where, err, float(numpy.max(numpy.abs(own_now)))),
                             {"err": err}))
            if abs(float(cp.lamb) - float(res.lamb)) > 1e-10 * abs(float(res.lamb)):
                viol.append(("copy-reorganisation-energy-differs/%s%s" % (cls, ctag),
                             "%s: copy().lamb %r, original %r"
                             % (where, float(cp.lamb), float(res.lamb)), None))
    # measured vs declared reorganisation energy, parities of the FT parts (analytic only)
    if cls == "cf" and "v" not in lv and case.get("deep"):
        with qr.energy_units("1/cm"):
            meas = float(res.measure_reorganization_energy())
        if abs(meas - decl_exp) > 1e-3 * decl_exp:
            viol.append(("measured-reorganisation-energy/%s" % kind,
                         "%s: measured %r 1/cm, declared %r" % (tree_str(tree), meas, decl_exp),
                         None))
        from quantarhei.qm.corfunctions.correlationfunctions import (
            EvenFTCorrelationFunction, OddFTCorrelationFunction)
        with qr.energy_units("int"):
            for nm, clsft, sgn in (("even", EvenFTCorrelationFunction, 1.0),
                                   ("odd", OddFTCorrelationFunction, -1.0)):
                ft = clsft(ta, res.params)
                w = ft.axis.data
                y = numpy.asarray(ft.data)
                n0 = int(numpy.argmin(numpy.abs(w)))
                m = min(n0, len(w) - 1 - n0)
                k = numpy.arange(1, m + 1)
                dev = numpy.max(numpy.abs(y[n0 + k] - sgn * y[n0 - k]))
                sc = numpy.max(numpy.abs(y))
                if dev > 1e-9 * sc or numpy.max(numpy.abs(numpy.imag(y))) > 1e-9 * sc:
                    viol.append(("ft-part-parity/%s/%s" % (nm, kind),
                                 "%s: %s FT part deviates from %s parity by %g (scale %g)"
                                 % (tree_str(tree), nm, nm, dev, sc), None))
    return done({"nontrivial": len(lv) >= 2,
                 "outcome": [tree_str(tree), ustr, addctx, round(float(res.lamb), 9),
                             round(float(numpy.abs(numpy.asarray(res.data)).sum()), 9)]})


def _finish(viol, suffix):
    """One violation per key; cases containing a component of the extended / optional ftypes
    carry those ftypes in every result-level key (per-component keys name the ftype anyway)."""
    seen, out = set(), []
    for v in viol:
        key = v[0] if v[0].startswith("component-") else v[0] + suffix
        if key not in seen:
            seen.add(key)
            out.append((key,) + tuple(v[1:]))
    return out


def replay(case):
    return eval_case(case)["violations"]


def all_trees(leaves, n):
    """Every binary tree over '+' with exactly n leaves drawn (with repetition) from leaves."""
    if n == 1:
        return list(leaves)
    out = []
    for k in range(1, n):
        for l in all_trees(leaves, k):
            for r in all_trees(leaves, n - k):
                out.append(["+", l, r])
    return out


def admissible(tree):
    """value-defined functions only as right-hand operands: no '+' whose LEFT operand
    contains v (it would have to be rebuilt from parameters)."""
    if isinstance(tree, str):
        return True
    op, l, r = tree
    if has(l, "v") and op == "+":
        return False
    if op == "+=" and r == "self" and has(l, "v"):
        return False
    return admissible(l) and (r == "self" or admissible(r))


def unit_patterns(tier, n):
    """Construction units of the n built leaves (see the module docstring)."""
    U = UNITS[tier]
    if n <= 2:
        pats = [list(c) for c in itertools.product(U, repeat=n)]
    else:
        pats = [[u] * n for u in U]
        pats += [[U[(r + i) % len(U)] for i in range(n)] for r in range(len(U))]
        pats += [[LEGACY_PATTERNS["mixed"][i % 3] for i in range(n)]]
        if tier == "thorough" and n == 3:
            pats += [list(c) for c in itertools.product(U[:3], repeat=n)]
    out = []
    for p_ in pats:
        if p_ not in out:
            out.append(p_)
    return out


def expressions(alpha, kmax, tier):
    """All '+' trees with <= kmax leaves and all in-place chains over the alphabet."""
    trees = []
    for n in range(1, kmax + 1):
        trees += [t for t in all_trees(alpha, n)]
    trees = [t for t in trees if admissible(t)]
    # in-place chains: x += y ; (x += y) += z ; x += x
    base = [t for t in trees if len(leaves_of(t)) <= kmax - 1]
    inpl = []
    for x in base:
        for y in base:
            if len(leaves_of(x)) + len(leaves_of(y)) <= kmax:
                inpl.append(["+=", x, y])
        if len(leaves_of(x)) * 2 <= kmax + 1:
            inpl.append(["+=", x, "self"])
    inpl2 = []
    if tier == "thorough":
        for t in inpl:
            if t[2] != "self" and len(leaves_of(t)) <= kmax - 1:
                for y in alpha:
                    inpl2.append(["+=", t, y])
    inpl = [t for t in inpl + inpl2 if admissible(t)]
    return trees + inpl


def constructible(cls, name):
    """Can the component be built at all (in internal units) on the tree under test?"""
    qr = isolation.qr()
    try:
        with isolation.quiet():
            make_leaf(cls, name, "int", qr.TimeAxis(0.0, NT, DT))
        return True
    except Exception:
        return False
    finally:
        isolation.reset_manager()


def cases(tier):
    kmax = 3 if tier == "quick" else 4
    cs = []
    for cls in ("cf", "sd"):
        core, full = CORE[cls], CORE[cls] + EXT[cls]
        # the extended ftypes take part in everything one level below the bound
        exprs = expressions(full, kmax - 1, tier)
        have = set(tree_str(t) for t in exprs)
        exprs += [t for t in expressions(core, kmax, tier) if tree_str(t) not in have]
        # optional ftype variants that CAN be constructed on the tree under test join the
        # alphabet up to two leaves (complete per-leaf product with every other ftype)
        avail = [x for x in OPTIONAL[cls] if constructible(cls, x)]
        if avail:
            have = set(tree_str(t) for t in exprs)
            exprs += [t for t in expressions(full + avail, 2, tier) if tree_str(t) not in have]
        for t in exprs:
            n = len(leaves_of(t))
            for pat in unit_patterns(tier, len(built_leaves(t))):
                for addctx in (None, "1/cm"):
                    if n == 1 and addctx:
                        continue
                    deep = (addctx is None and all(u == "1/cm" for u in pat)
                            and all(x in ("a", "b", "c", "self") for x in leaves_of(t)))
                    cs.append({"cls": cls, "tree": t, "leaf_units": pat, "add_ctx": addctx,
                               "deep": deep})
        # ftype variants the reference tree cannot construct: probe x, x+x, x+=x
        for x in OPTIONAL[cls]:
            if x in avail:
                continue
            for t in (x, ["+", x, x], ["+=", x, "self"]):
                for u in UNITS[tier]:
                    cs.append({"cls": cls, "tree": t, "leaf_units": [u], "add_ctx": None,
                               "optional": True})
        # different temperatures: every position of the odd leaf in trees up to 3 leaves
        if cls == "cf":
            for n in (2, 3):
                for t in all_trees(["a", "b", "d"], n):
                    lv = leaves_of(t)
                    if "d" in lv and len(set(lv)) > 1 and not all(x == "d" for x in lv):
                        cs.append({"cls": cls, "tree": t, "leaf_units": "1/cm", "add_ctx": None})
            for x, y in itertools.permutations(["a", "b", "d"], 2):
                if "d" in (x, y):
                    cs.append({"cls": cls, "tree": ["+=", x, y], "leaf_units": "1/cm",
                               "add_ctx": None})
    cs.sort(key=lambda c: (len(leaves_of(c["tree"])), c["add_ctx"] is not None))
    return cs


def run(run):
    run.rule = ("every binary '+' tree (all groupings, all orders, leaves with repetition) and "
                "every in-place chain over the leaf alphabet (every ftype that can be built from "
                "parameters) x construction unit of every leaf (complete per-leaf product up to "
                "2 leaves, uniform + all rotations above) x units context of the additions, for "
                "CorrelationFunction and SpectralDensity; non-trivial = at least two leaves")
    run.assumptions = ["components' own data (each built separately by the library) are the "
                       "additivity ledger; the analytic formulas themselves belong to C06",
                       "value-defined functions only as right-hand operands (as the property says)",
                       "temperature refusal is checked for correlation functions only (a spectral "
                       "density does not depend on temperature)",
                       "measured reorganisation energy / FT parity only for the ftypes the "
                       "library calls analytical (OverdampedBrownian, -HighTemperature)",
                       "ftype variants that cannot be constructed at all (in internal units) are "
                       "probed only: %r" % OPTIONAL]
    run.bounds = {"max_leaves": 3 if run.tier == "quick" else 4, "time_axis": [NT, DT],
                  "max_leaves_extended_ftypes": 2 if run.tier == "quick" else 3,
                  "construction_units": UNITS[run.tier]}
    run_grid(run, cases(run.tier), eval_case, cap_s=55 if run.tier == "quick" else 720)
